#!/bin/sh
# Offline build of the framework: regenerate Gen/ from /repo, full .vo build, extraction, driver.
set -e
cd "$(dirname "$0")"
mkdir -p build/ml evidence
/venv/bin/python tools/translate.py /repo coq/theories/Gen || true
tools/mkproject.sh
(cd coq && timeout 3000 make -k -j16 2>&1 | grep -v '^COQC\|^COQDEP\|Closed under' | tail -30) || true
tools/build_driver.sh || true
ls -la build/nvdriver
