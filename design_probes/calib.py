import sys, io, contextlib
sys.path.insert(0,'/repo')
from norminette.file import File
from norminette.lexer import Lexer
from norminette.context import Context
from norminette.registry import Registry
reg = Registry()
HDR = open('/tmp/exp/hdr.txt').read()
def run(name, src, debug=0):
    f = File(name, src)
    out = io.StringIO()
    try:
        with contextlib.redirect_stdout(out):
            toks = list(Lexer(f))
            ctx = Context(f, toks, debug)
            reg.run(ctx)
    except BaseException as e:
        return ('EXC', type(e).__name__, str(e)[:80])
    return [(e.level[0], e.name, e.highlights[0].lineno, e.highlights[0].column) for e in f.errors]
BASE_C = HDR + """
#include "libft.h"
#define FOO 42

static int\tg_count = 0;

static int\tft_helper(int a, char *b)
{
\tint\t\ti;
\tchar\t*ptr;

\ti = 0;
\tptr = b;
\twhile (i < a)
\t{
\t\tif (ptr[i] == 'x' && a > 2)
\t\t\treturn (i);
\t\telse if (ptr[i] == 0)
\t\t\tbreak ;
\t\ti++;
\t}
\tft_putstr(ptr, FOO);
\treturn (-1);
}

int\tmain(void)
{
\treturn (ft_helper(3, "abc"));
}
"""
if __name__ == '__main__':
    print(run('base.c', BASE_C))
