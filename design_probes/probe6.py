import random, sys, re
from collections import Counter
from gen import unit_c, lname, KW, SPECIAL
from calib import run as _run, HDR
import signal
class TO(Exception): pass
def _h(a,b): raise TO()
signal.signal(signal.SIGALRM,_h)
def run(n,s):
    signal.setitimer(signal.ITIMER_REAL,2.0)
    try: return _run(n,s)
    except TO: return ('EXC','HANG','')
    finally: signal.setitimer(signal.ITIMER_REAL,0)

sys.setrecursionlimit(1000)
N=int(sys.argv[1]); seed=int(sys.argv[2])
cnt=Counter(); ex={}
def note(k, ok, info):
    cnt[(k, ok)]+=1
    if not ok and k not in ex: ex[k]=info
def diags(res): return sorted((x[1],x[2],x[3]) for x in res) if isinstance(res,list) else res
def nl(res): return sorted((x[1],x[2]) for x in res) if isinstance(res,list) else res
IDRE=re.compile(r"\b[a-z][a-z0-9_]*\b")
for i in range(N):
    r=random.Random(seed*100000+i); src=unit_c(r)
    # make some of them violating: random char deletion of a space or tab in the body (keeps tokens)
    if r.random()<0.5:
        body_start=src.index("\n\n")+2
        pos=[m.start() for m in re.finditer(r"[ \t]", src[body_start:])]
        if pos:
            c=body_start+r.choice(pos); src=src[:c]+src[c+1:]
    base=run("t.c",src)
    if not isinstance(base,list): continue
    L=src.split("\n"); body="\n".join(L[12:])
    # C18 rename: all lower identifiers that are not keywords/special, outside strings/chars/includes/defines
    names=set()
    for ln in L[12:]:
        if ln.startswith("#"): continue
        clean=re.sub(r"\"(\\.|[^\"\\])*\"|'(\\.|[^'\\])*'","",ln)
        clean=re.sub(r"0[xXbB][0-9a-zA-Z]+|\d[\w.]*","",clean)
        for m in IDRE.finditer(clean):
            w=m.group(0)
            if w not in KW and w not in SPECIAL and w not in ("size_t","t_list","s_node","u8","l","u") : names.add(w)
    ren={}
    used=set(names)
    for w in names:
        pre = w[:2] if w[:2] in ("g_","t_","s_") else ""
        while True:
            n = pre + r.choice("abcdefhijkmnopqrvwxyz") + ''.join(r.choice("abcdefghijklmnopqrstuvwxyz0123456789_") for _ in range(len(w)-len(pre)-1)) if len(w)>len(pre) else w
            if n == w and len(w)<=len(pre)+1 and r.random()<0.2: break
            if n not in KW and n not in SPECIAL and n not in used and n[:2] not in (("g_","s_","t_","u_","e_") if not pre else ()): break
        ren[w]=n; used.add(n)
    def rn(ln):
        if ln.startswith("#"): return ln
        out=[]; k=0
        for m in re.finditer(r"\"(\\.|[^\"\\])*\"|'(\\.|[^'\\])*'|0[xXbB][0-9a-zA-Z]+|\d[\w.]*|\b[A-Za-z_]\w*\b", ln):
            out.append(ln[k:m.start()]); t=m.group(0); out.append(ren.get(t,t)); k=m.end()
        out.append(ln[k:]); return "".join(out)
    src18="\n".join(L[:12]+[rn(l) for l in L[12:]])
    note("C18", diags(run("t.c",src18))==diags(base), (src18[-300:], ))
    # C17: replace string/char contents with code-like text of same length
    def repl(m):
        t=m.group(0); q=t[0] if t[0] in "\"'" else None
        if q is None: return t
        inner=t[1:-1]
        if "\\" in inner or len(inner)==0: return t
        alt="".join(r.choice(";{}()+-=<>,if while" + ("'" if q=='"' else '"')) for _ in inner)
        return q+alt+q
    src17="\n".join(L[:12]+[l if l.startswith("#include") else re.sub(r"\"(\\.|[^\"\\])*\"|'(\\.|[^'\\])*'", repl, l) for l in L[12:]])
    note("C17", diags(run("t.c",src17))==diags(base), (src17[-300:],))
    # C19a: insert comment line between two top-level definitions (before a blank line that precedes a function head)
    tops=[k for k in range(13,len(L)-1) if L[k]=="" and L[k+1] and not L[k+1].startswith(("\t","{","}","#"))]
    if tops:
        k=r.choice(tops); M=L[:k]+["","// note"]+L[k:]
        res=run("t.c","\n".join(M))
        exp=sorted((n,l+(2 if l>k else 0),c) for n,l,c in diags(base))
        note("C19comment", diags(res)==exp, (k, diags(res)[:4], exp[:4]))
    # C19b: append a conforming function
    nf=sum(1 for l in L if l=="{" )
    if nf<5:
        res=run("t.c",src+"\nvoid\tzz_more(void)\n{\n\treturn ;\n}\n")
        note("C19append", diags(res)==diags(base), (diags(res)[-3:], diags(base)[-3:]))
    # C19c: header removal/prepend
    res=run("t.c","\n".join(L[12:]))
    exp=sorted([(n,l-12,c) for n,l,c in diags(base)]+[("INVALID_HEADER",1,1)])
    note("C19header", diags(res)==exp, (diags(res)[:4], exp[:4]))
    # C12: respell braces/brackets
    for nm,tr in (("dig",{"{":"<%","}":"%>","[":"<:","]":":>"}),("tri",{"{":"??<","}":"??>","[":"??(","]":"??)"})):
        def sp(l):
            out=[]; k=0
            for m in re.finditer(r"\"(\\.|[^\"\\])*\"|'(\\.|[^'\\])*'|[{}\[\]]", l):
                out.append(l[k:m.start()]); t=m.group(0); out.append(tr.get(t,t) if (t in tr and r.random()<0.7) else t); k=m.end()
            out.append(l[k:]); return "".join(out)
        M=L[:12]+[sp(l) for l in L[12:]]
        if any(len(l.expandtabs(4))>80 for l in M[12:]): continue
        note("C12"+nm, nl(run("t.c","\n".join(M)))==nl(base), ([l for l in M if "<%" in l or "??" in l][:2], nl(run("t.c","\n".join(M)))[:5], nl(base)[:5]))
    # C06: history independence: run an erroneous and a fatal file first, then again
    run("x.h","int a;\n)\n"); run("y.c","int\tmain()\n{\n\treturn 0;\n}\n")
    note("C06", diags(run("t.c",src))==diags(base), ())
for k in sorted(cnt): print(k, cnt[k])
for k,v in ex.items(): print("EX",k, repr(v)[:600])
