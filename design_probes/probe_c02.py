import random, sys, re
from collections import Counter, defaultdict
from gen import unit_c
from calib import run
BOPS = ["<<=",">>=","+=","-=","*=","/=","%=","&=","|=","^=","&&","||","==","!=","<=",">=","<<",">>","+","-","*","/","%","&","|","^","<",">","="]
def kind(line):
    t=line.strip()
    if t in ("{","}"): return "brace"
    if t.startswith("else if"): return "elseif"
    if t=="else": return "else"
    if t.startswith("if "): return "if"
    if t.startswith("while "): return "while"
    if t.startswith("return"): return "return"
    if re.match(r"^(static |const |unsigned |struct |long |int|char|size_t|t_list|short|float|double)", t) and t.endswith(";") and "\t" in t: return "decl"
    if t.endswith(")") and not t.endswith(";"): return "funchead"
    return "simple"
def edits(line):
    """yield (op, newline, expected)"""
    if '"' in line or "'" in line: return
    yield "W01", line+" ", "SPC_BEFORE_NL"
    yield "W02", line+"\t", "SPC_BEFORE_NL"
    if line.startswith("\t"):
        yield "W06", "\t"+line, "TOO_MANY_TAB"
        yield "W07", line[1:], "TOO_FEW_TAB"
        n=len(line)-len(line.lstrip("\t")); yield "W05", "    "*n+line[n:], "SPACE_REPLACE_TAB"
    body=line.lstrip("\t"); pre=line[:len(line)-len(body)]
    m=re.search(r"(?<=\S) (?=\S)", body)
    if m: yield "W14", pre+body[:m.start()]+"  "+body[m.end():], "CONSECUTIVE_SPC"
    for op in BOPS:
        for m in re.finditer(r"(?<=[\w\)\]]) "+re.escape(op)+r" (?=[\w\(\-\+!~\*&])", body):
            yield "O01:"+op, pre+body[:m.start()]+op+" "+body[m.end():], "SPC_BFR_OPERATOR"
            yield "O02:"+op, pre+body[:m.start()]+" "+op+body[m.end():], "SPC_AFTER_OPERATOR"
            break
    m=re.search(r", ", body)
    if m:
        yield "O03", pre+body[:m.start()]+","+body[m.end():], "SPC_AFTER_OPERATOR"
        yield "O04", pre+body[:m.start()]+" , "+body[m.end():], "NO_SPC_BFR_OPR"
    m=re.search(r"\((?=[^\)\s])", body)
    if m: yield "O05", pre+body[:m.end()]+" "+body[m.end():], "NO_SPC_AFR_PAR"
    m=re.search(r"(?<=[^\(\s])\)", body)
    if m: yield "O06", pre+body[:m.start()]+" "+body[m.start():], "NO_SPC_BFR_PAR"
    m=re.match(r"(if|while|return|else if) \(", body)
    if m: yield "O07", pre+body.replace(m.group(1)+" (", m.group(1)+"(",1), "SPACE_AFTER_KW"
N=int(sys.argv[1]); seed=int(sys.argv[2])
tot=Counter(); miss=Counter(); ex=defaultdict(list)
for i in range(N):
    r=random.Random(seed*100000+i); src=unit_c(r)
    L=src.split("\n")
    if any(len(l.expandtabs(4))>76 for l in L[12:]): continue
    base=run("t.c",src)
    if not isinstance(base,list) or any(x[0]=="E" for x in base): continue
    start=next(k for k,l in enumerate(L) if l=="{")-1
    idxs=[k for k in range(start,len(L)) if L[k].strip()]
    for k in r.sample(idxs, min(6,len(idxs))):
        for op,new,exp in edits(L[k]):
            M=L[:]; M[k]=new
            res=run("t.c","\n".join(M))
            key=(op.split(":")[0], kind(L[k]))
            tot[key]+=1
            hit = isinstance(res,list) and any(x[1]==exp and x[2]==k+1 for x in res)
            if not hit:
                miss[key]+=1
                if len(ex[key])<3: ex[key].append((op, new.strip()[:60], [x[1] for x in res if x[2]==k+1] if isinstance(res,list) else res))
ops=sorted(set(k[0] for k in tot))
for op in ops:
    print(op, {k[1]:f"{miss[k]}/{tot[k]}" for k in sorted(tot) if k[0]==op})
print()
for k,v in sorted(ex.items()):
    for e in v[:2]: print(k, e)
