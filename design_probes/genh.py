import random, sys
from collections import Counter, defaultdict
from gen import lname, mname, intc, strc, charc, align, tabs_to
from calib import run, HDR
def unit_h(r, base):
    G = base.upper().replace(".","_")
    L = HDR.rstrip("\n").split("\n") + ["", "#ifndef "+G, "# define "+G, ""]
    ni = r.randint(0,3)
    for _ in range(ni): L.append(r.choice(['# include "%s.h"'%lname(r,6), '# include <%s.h>'%lname(r,6)]))
    if ni: L.append("")
    nd = r.randint(0,3)
    for _ in range(nd): L.append("# define %s %s"%(mname(r), r.choice([intc(r),strc(r),charc(r),"-"+intc(r)])))
    if nd: L.append("")
    # one alignment column for everything at global scope (typedef names, prototypes)
    protos=[]
    for _ in range(r.randint(1,5)):
        rt=r.choice(["int","char","void","unsigned int","long","t_list","size_t","unsigned long long","struct s_node"])
        star=r.choice(["","","*","**"])
        np=r.randint(0,4)
        params=", ".join(r.choice(["int ","char ","char *","char **","t_list *","unsigned int ","const char *","size_t ","struct s_node *"])+lname(r,5) for _ in range(np)) if np else "void"
        protos.append((rt, star+lname(r,8)+"("+params+");"))
    tds=[]
    for _ in range(r.randint(0,3)):
        kind=r.choice(["struct","union","enum"])
        tag={"struct":"s_","union":"u_","enum":"e_"}[kind]+lname(r,5)
        tn="t_"+lname(r,5)
        if kind=="enum":
            n=r.randint(1,4); body=["\t"+mname(r)+(" = "+str(r.randint(0,9)) if r.random()<0.3 else "")+("," if i<n-1 else "") for i in range(n)]
        else:
            fields=[(r.choice(["int","char","unsigned int","long","t_list","struct s_node","size_t"]), r.choice(["","*","**"])+lname(r,5)+r.choice(["","","[4]"])+";") for _ in range(r.randint(1,4))]
            body=["\t"+l for l in align(fields,5)]
        tds.append((kind,tag,tn,body))
    # global alignment column: max over 'typedef kind tag' heads? test: names of typedefs after '}' + tab(s)
    ends=[1+len(t) for t,_ in protos]
    target=max(((e-1)//4+1)*4+1 for e in ends)
    for kind,tag,tn,body in tds:
        L.append("typedef %s %s"%(kind,tag)); L.append("{"); L+=body
        L.append("}"+"\t"*tabs_to(2,target)+tn+";"); L.append("")
    for t,d in protos: L.append(t+"\t"*tabs_to(1+len(t),target)+d)
    L += ["", "#endif"]
    return "\n".join(L)+"\n"
N=int(sys.argv[1]); seed=int(sys.argv[2]); fam=defaultdict(Counter); ok=tot=0
for i in range(N):
    r=random.Random(seed*100000+i); base=lname(r,6)+r.choice(["",".x","_y"])+".h"; src=unit_h(r,base)
    if any(len(l.expandtabs(4))>80 for l in src.split("\n")): continue
    tot+=1; res=run(base,src)
    if not isinstance(res,list): fam["EXC"][str(res)[:100]]+=1; continue
    errs=[x for x in res if x[0]=="E"]
    if not errs: ok+=1
    for e in errs: fam[e[1]][src.split("\n")[e[2]-1][:60]]+=1
print("ok",ok,"of",tot)
for k,c in fam.items():
    print(k,sum(c.values()))
    for ctx,n in c.most_common(8): print("    ",n,repr(ctx))
