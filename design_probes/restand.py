import re, itertools, sys, warnings
warnings.simplefilter("ignore")
sys.path.insert(0,'/repo')
import norminette.lexer.lexer as L
isd = lambda c: c.isdigit() and c in "0123456789"   # ASCII only in this probe
ishex = lambda c: c in "0123456789abcdefABCDEF"
isw = lambda c: c.isalnum() or c == '_'
def run(s, i, pred):
    j = i
    while j < len(s) and pred(s[j]): j += 1
    return j
def int_match(s):
    cands = []
    if s[:1] == '0':
        k = run(s, 1, lambda c: c in 'bBxX')
        cands += [k - d for d in range(0, k)]      # k, k-1, ..., 1
    cands.append(0)
    for p in cands:
        const_end = None
        if p >= 2 and s[p-2] == '0' and s[p-1] in 'xX':
            j = run(s, p, ishex)
            if j > p: const_end = j
        if const_end is None:
            j = run(s, p, isd)
            if j > p: const_end = j
        if const_end is None: continue
        c = const_end
        if s[c-1] in 'eE':
            e = run(s, c, lambda ch: isw(ch) or ch in '+-.')
        elif c < len(s) and isw(s[c]):
            e = run(s, c+1, lambda ch: isw(ch) or ch == '.')
        else:
            e = c
        return (s[:p], s[p:c], s[c:e])
    return None
def exp_match(s, i, E, digit, hexquirk):
    """exponent sub-pattern at position i; returns end or None (None = the three alternatives fail)"""
    if i >= len(s) or s[i] not in E: return None
    r = run(s, i, lambda c: c in E)
    # alt1
    if r < len(s) and s[r] in '+-':
        d = run(s, r+1, digit)
        if d > r+1: return d
    # alt2
    d = run(s, r, digit)
    if d > r: return d
    # alt3
    j = i
    while j < len(s) and s[j] in E:
        j += 1
        if j < len(s) and s[j] in '+-': j += 1
        if not hexquirk:
            j = run(s, j, lambda c: c == '.' or digit(c))
        else:
            if j < len(s) and (s[j] in '.[' or digit(s[j])):
                k = run(s, j+1, lambda c: c == ']')
                if k > j+1: j = k
    return j
sufrun = lambda s, i: run(s, i, lambda c: isw(c) or c in '._')
def fexp_match(s):
    c = run(s, 0, isd)
    if c == 0: return None
    e = exp_match(s, c, 'eE', isd, False)
    if e is None: return None
    return (s[:c], s[c:e], s[e:sufrun(s, e)])
def ffrac_match(s):
    d = run(s, 0, isd)
    c = None
    if d < len(s) and s[d] == '.':
        f = run(s, d+1, isd)
        if f > d+1: c = f
        elif d > 0: c = d+1
    if c is None: return None
    e = exp_match(s, c, 'eE', isd, False)
    if e is None: e = c
    return (s[:c], s[c:e], s[e:sufrun(s, e)])
def fhex_match(s):
    if s[:1] != '0': return None
    x = run(s, 1, lambda ch: ch in 'xX')
    if x == 1: return None
    h = run(s, x, ishex)
    if h == x: return None
    c = h
    if h < len(s) and s[h] == '.':
        f = run(s, h+1, ishex)
        if f > h+1: c = f
    e = exp_match(s, c, 'pP', ishex, True)
    if e is None: e = c
    return (s[:c], s[c:e], s[e:sufrun(s, e)])
pairs = [(L.INT_LITERAL_PATTERN, int_match, ("Prefix","Constant","Suffix")),
         (L.FLOAT_EXPONENT_LITERAL_PATTERN, fexp_match, ("Constant","Exponent","Suffix")),
         (L.FLOAT_FRACTIONAL_LITERAL_PATTERN, ffrac_match, ("Constant","Exponent","Suffix")),
         (L.FLOAT_HEXADECIMAL_LITERAL_PATTERN, fhex_match, ("Constant","Exponent","Suffix"))]
alpha = "019abefxpXEul.+-_[] "
N = int(sys.argv[1])
bad = 0; n = 0
for k in range(0, N+1):
    for tup in itertools.product(alpha, repeat=k):
        s = ''.join(tup)
        for pat, fn, groups in pairs:
            m = pat.match(s)
            exp = tuple(m[g] for g in groups) if m else None
            got = fn(s)
            n += 1
            if exp != got:
                bad += 1
                if bad < 15: print("DIFF", pat.pattern[:0], groups[0], repr(s), exp, got)
print("cases", n, "bad", bad)
