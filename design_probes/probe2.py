import random, sys, re
from collections import Counter, defaultdict
from gen import unit_c
from calib import run
def cls(ch):
    if ch.isalpha() or ch=="_": return "id"
    if ch.isdigit() or ch==".": return "num"
    return ch
tot=Counter(); miss=Counter(); ex={}
N=int(sys.argv[1]); seed=int(sys.argv[2])
for i in range(N):
    r=random.Random(seed*100000+i); src=unit_c(r); L=src.split("\n")
    if any(len(l.expandtabs(4))>76 for l in L[12:]): continue
    base=run("t.c",src)
    if not isinstance(base,list) or any(x[0]=="E" for x in base): continue
    start=next(k for k,l in enumerate(L) if l=="{")-1
    cand=[k for k in range(start,len(L)) if L[k].startswith("\t") and '"' not in L[k] and "'" not in L[k] and "\t" not in L[k].lstrip("\t")]
    for k in r.sample(cand, min(8,len(cand))):
        line=L[k]
        sites=[]
        for m in re.finditer(r"\(", line):
            j=m.start()
            if line[j+1] not in " )": 
                prev=line[j-1] if j>0 else "^"
                sites.append(("O05", j+1, " ", "NO_SPC_AFR_PAR", f"prev={cls(prev)} next={cls(line[j+1])}"))
        for m in re.finditer(r"\)", line):
            j=m.start()
            if line[j-1] not in " (":
                nxt=line[j+1] if j+1<len(line) else "$"
                # is it closing a type paren? crude: content between matching '(' is a type word list
                depth=0; q=j
                while q>=0:
                    if line[q]==")": depth+=1
                    if line[q]=="(": depth-=1
                    if depth==0: break
                    q-=1
                inner=line[q+1:j]
                typ = bool(re.fullmatch(r"(unsigned |const )?(int|char|long|void|t_list|unsigned char|size_t)( \*+)?", inner))
                before=line[:q].rstrip()
                sz = before.endswith("sizeof")
                sites.append(("O06", j, " ", "NO_SPC_BFR_PAR", f"type={typ} sizeof={sz} prev={cls(line[j-1])}"))
        for m in re.finditer(r"(?<=[\w\)\]]) (<<=|>>=|\+=|-=|\*=|/=|%=|&=|\|=|\^=|&&|\|\||==|!=|<=|>=|<<|>>|\+|-|\*|/|%|&|\||\^|<|>|=) (?=\S)", line):
            op=m.group(1); nxt=line[m.end()]
            sites.append(("O02", None, (m.start(), m.end(), " "+op), "SPC_AFTER_OPERATOR", f"op={'arith' if op in '+-*&' else 'other'} next={cls(nxt)}"))
            sites.append(("O01", None, (m.start(), m.end(), op+" "), "SPC_BFR_OPERATOR", f"op={'arith' if op in '+-*&' else 'other'} prev={cls(line[m.start()-1])}"))
        for op,pos,ins,exp,tag in r.sample(sites, min(6,len(sites))):
            if pos is None: a,b,t=ins; new=line[:a]+t+line[b:]
            else: new=line[:pos]+ins+line[pos:]
            M=L[:]; M[k]=new; res=run("t.c","\n".join(M))
            key=(op,tag); tot[key]+=1
            if not (isinstance(res,list) and any(x[1]==exp and x[2]==k+1 for x in res)):
                miss[key]+=1; ex.setdefault(key,(new.strip()[:50], [x[1] for x in res if x[2]==k+1] if isinstance(res,list) else res))
for key in sorted(tot):
    print(f"{key[0]} {key[1]:40s} miss {miss[key]:3d}/{tot[key]:3d}   {ex.get(key,'')}")
