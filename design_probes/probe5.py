import random, sys, io, contextlib, signal, traceback
sys.path.insert(0,'/repo')
from collections import Counter
from gen import unit_c
from norminette.file import File
from norminette.lexer import Lexer
from norminette.context import Context
from norminette.registry import Registry
from norminette.exceptions import CParsingError
reg=Registry()
class TO(Exception): pass
def handler(sig,frm): raise TO()
signal.signal(signal.SIGALRM, handler)
def classify(src, name="t.c"):
    f=File(name,src); out=io.StringIO()
    signal.setitimer(signal.ITIMER_REAL, 1.0)
    try:
        with contextlib.redirect_stdout(out):
            toks=list(Lexer(f)); reg.run(Context(f,toks,0))
        return "ok"
    except CParsingError: return "fatal"
    except TO:
        tb=traceback.extract_tb(sys.exc_info()[2]); fr=[t for t in tb if "/norminette/" in t.filename]
        return "HANG@"+fr[-1].filename.split("/norminette/")[1]+":"+fr[-1].name if fr else "HANG"
    except BaseException as e:
        tb=traceback.extract_tb(sys.exc_info()[2]); fr=[t for t in tb if "/norminette/" in t.filename]
        return type(e).__name__+"@"+fr[-1].filename.split("/norminette/")[1]+":"+fr[-1].name
    finally:
        signal.setitimer(signal.ITIMER_REAL, 0)
        sys.setrecursionlimit(1000)
N=int(sys.argv[1]); seed=int(sys.argv[2]); cnt=Counter(); ex={}
for i in range(N):
    r=random.Random(seed*100000+i); src=unit_c(r); body=src[src.index("\n\n")+2:]   # drop header for speed
    cuts=sorted(set(r.randrange(1,len(body)) for _ in range(40)))
    for c in cuts:
        k=classify(body[:c]); cnt[k]+=1
        if k not in ("ok","fatal") and k not in ex: ex[k]=body[:c][-60:]
    # small edits: delete one char
    for _ in range(20):
        c=r.randrange(0,len(body)-1); s2=body[:c]+body[c+1:]
        k=classify(s2); cnt[k]+=1
        if k not in ("ok","fatal") and k not in ex: ex[k]=s2[max(0,c-30):c+30]
for k,v in cnt.most_common(): print(v,k, repr(ex.get(k,""))[:110])
