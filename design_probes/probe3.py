import random, sys, re
from collections import Counter
from gen import unit_c
from calib import run
from probe_c02 import kind
tot=Counter(); miss=Counter(); ex={}
N=int(sys.argv[1]); seed=int(sys.argv[2])
def depth(l): return len(l)-len(l.lstrip("\t"))
for i in range(N):
    r=random.Random(seed*100000+i); src=unit_c(r); L=src.split("\n")
    if any(len(l.expandtabs(4))>76 for l in L[12:]): continue
    base=run("t.c",src)
    if not isinstance(base,list) or any(x[0]=="E" for x in base): continue
    # body statement lines: tab-indented, not decl, inside functions
    body=[k for k in range(12,len(L)) if L[k].startswith("\t") and kind(L[k]) not in ("decl",)]
    for k in r.sample(body, min(6,len(body))):
        d=depth(L[k]); prevk=kind(L[k-1]); thisk=kind(L[k])
        # insertion BEFORE line k at same depth (only valid position if previous line is not a brace-less control header)
        ctx=f"before={thisk} after={prevk}"
        braceless_prev = prevk in ("if","while","else","elseif")
        ins = {
          "K01": ("\t"*d+"// note", "WRONG_SCOPE_COMMENT"),
          "K02": ("\t"*d+"/* note */", "WRONG_SCOPE_COMMENT"),
          "W09": ("", "EMPTY_LINE_FUNCTION"),
          "S03": ("\t"*d+"goto end;", "GOTO_FBIDDEN"),
          "S04": ("\t"*d+"end:", "LABEL_FBIDDEN"),
          "D01": ("\t"*d+"int\t\tzz9;", "VAR_DECL_START_FUNC" if d==1 else "WRONG_SCOPE_VAR"),
          "P12": ("#define ZZ 1", "PREPOC_ONLY_GLOBAL"),
          "S05": ("\t"*d+"zz = zz ? 1 : 2;", "TERNARY_FBIDDEN"),
          "S01": ("\t"*d+"for (;;)", "FORBIDDEN_CS"),
        }
        if braceless_prev or thisk in ("brace",) and L[k].strip()=="{": continue
        if prevk=="decl" or L[k-1]=="" : continue
        for op,(txt,exp) in ins.items():
            M=L[:k]+[txt]+L[k:]
            if op=="S01": M=L[:k]+[txt, "\t"*(d+1)+"zz++;"]+L[k:]
            res=run("t.c","\n".join(M)); key=(op,ctx if op in("K01","W09","D01") else "")
            tot[key]+=1
            if not (isinstance(res,list) and any(x[1]==exp and x[2]==k+1 for x in res)):
                miss[key]+=1; ex.setdefault(key,(L[k-1].strip()[:25]+" | "+txt.strip()+" | "+L[k].strip()[:25], [x[1] for x in res if x[2]==k+1] if isinstance(res,list) else res))
        # joins
        if thisk=="simple" and prevk=="simple" and depth(L[k-1])==d:
            M=L[:k-1]+[L[k-1]+" "+L[k].strip()]+L[k+1:]; res=run("t.c","\n".join(M)); key=("S08","")
            tot[key]+=1
            if not (isinstance(res,list) and any(x[1]=="TOO_MANY_INSTR" and x[2]==k for x in res)): miss[key]+=1; ex.setdefault(key,(M[k-1].strip(), res if not isinstance(res,list) else [x[1] for x in res if x[2]==k]))
for key in sorted(tot): print(f"{key[0]} {key[1]:36s} miss {miss[key]:3d}/{tot[key]:3d}  {ex.get(key,'')}")
