open Nvmodel
open Drv_base

let rd_try () = match next () with
  | 0 -> let n = rd_str () in let j = rd_z () in Matched (n, j)
  | 1 -> NoMatch
  | 2 -> TFatal (rd_str ())
  | _ -> TCrash TypeError

let wr_seg = function
  | SMatch (n, b, a) -> wr_int 0; wr_str n; wr_int (int_of_nat b); wr_int (int_of_nat a)
  | SUnrec b -> wr_int 1; wr_int (int_of_nat b)

let cmd_engine () =
  let debug = rd_z () in
  let n = nat_of_int (next ()) in
  let l = Array.of_list (rd_list rd_try) in
  let oracle i = let k = int_of_nat i in if k < Array.length l then l.(k) else TCrash Unmodelled in
  wr_outcome (fun segs -> wr_list wr_seg segs; wr_bool (chain segs n)) (run_file oracle debug n)

let () = add "engine" cmd_engine
