open Nvmodel
open Drv_base

(* C11: the finite families of Spec/CConst.v with the model's own verdict, the guards and the shape predicates,
   so that the harness replays exactly the families the theorems quantify over on the implementation *)
let kinds = [| "CONSTANT"; "CONSTANT"; "CHAR_CONST"; "STRING" |]
let str_of_ocaml (x : Stdlib.String.t) : str = List.init (Stdlib.String.length x) (fun i -> n_of_int (Char.code x.[i]))

let cmd_c11_cases () =
  let fams = [ (0, int_consts integer_suffixes, delims, (fun w r -> guard_int w r));
               (0, cat int_reprs integer_suffixes, delims_all, (fun w r -> guard_int w r));
               (1, float_consts float_suffixes, delims, (fun w _ -> guard_float w));
               (1, cat float_reprs float_suffixes, delims_all, (fun w _ -> guard_float w));
               (2, char_consts, delims, (fun w _ -> guard_char w));
               (3, string_consts, delims, (fun w _ -> guard_string w)) ] in
  let all = List.concat_map (fun (k, ws, dl, g) ->
      List.concat_map (fun w -> List.map (fun r -> (k, w, r, g w r)) (dl w)) ws) fams in
  wr_list (fun (k, w, r, g) ->
      wr_int k; wr_str w; wr_str r; wr_bool g; wr_bool (lex_one_ok (str_of_ocaml kinds.(k)) w r)) all

let cmd_c11_malformed () =
  let a = List.concat_map (fun ((fam, name), ws) ->
      List.concat_map (fun w -> List.map (fun r -> (fam, name, w, r)) m_rests) ws) malformed in
  let b = List.concat_map (fun ((fam, name), ws) -> List.map (fun (w, r) -> (fam, name, w, r)) ws) malformed_open in
  wr_list (fun (fam, name, w, r) -> wr_str fam; wr_str name; wr_str w; wr_str r; wr_bool (lex_one_diag name w r)) (a @ b)

let cmd_c11_shapes () =
  let w = rd_str () in let r = rd_str () in
  wr_bool (shape_k1 w); wr_bool (shape_hex_e_suffix w r); wr_bool (shape_hexfloat_empty_part w);
  wr_bool (shape_hexfloat_hex_suffix w); wr_bool (shape_ucn w); wr_bool (shape_long_hex w)

let cmd_c11_one () =
  let ty = rd_str () in let w = rd_str () in let r = rd_str () in wr_bool (lex_one_ok ty w r)
let cmd_c11_diag () =
  let name = rd_str () in let w = rd_str () in let r = rd_str () in wr_bool (lex_one_diag name w r)

let () = add "c11_cases" cmd_c11_cases; add "c11_malformed" cmd_c11_malformed; add "c11_shapes" cmd_c11_shapes;
  add "c11_one" cmd_c11_one; add "c11_diag" cmd_c11_diag

(* C03: the width specification and the CheckLineLen model *)
let cmd_width () = let x = rd_str () in wr_z (line_width x)
let cmd_linelen () =
  let toks = rd_list (fun () -> let l = rd_z () in let c = rd_z () in
                       { t_type = []; t_line = l; t_col = c; t_val = None }) in
  wr_list (fun (l, c) -> wr_z l; wr_z c) (line_len_check [] toks)
let cmd_blockcomment () =
  let l0 = rd_z () in let c0 = rd_z () in let v = rd_str () in
  wr_list wr_z (block_comment_check l0 c0 v)
let () = add "width" cmd_width; add "linelen" cmd_linelen; add "blockcomment" cmd_blockcomment
