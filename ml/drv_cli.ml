open Nvmodel
open Drv_base

let cmd_hl_lt () = let a = rd_hl () in let b = rd_hl () in wr_bool (hl_lt a b)
let cmd_err_lt () = let a = rd_diag () in let b = rd_diag () in wr_bool (err_lt a b)
let cmd_sort () = let ds = rd_list rd_diag in wr_list wr_diag (sort_diags ds)
let cmd_status () = let ds = rd_list rd_diag in wr_str (status ds)
let cmd_human () = let c = rd_bool () in let fs = rd_list rd_file in wr_outcome wr_str (human_fmt c fs)
let rd_fin () =
  let p = rd_str () in let b = rd_str () in
  let r = match next () with
    | 0 -> RDiags (rd_list rd_diag)
    | 1 -> RFatal (rd_str ())
    | _ -> RCrash TypeError in
  { fi_path = p; fi_base = b; fi_res = r }
let wr_jfile (p, j) = wr_str p; wr_str j.j_status; wr_list wr_diag j.j_errors
let cmd_run_all () =
  let j = rd_bool () in let c = rd_bool () in let fs = rd_list rd_fin in
  wr_outcome (fun (rep, e) ->
      (match rep with
       | RepHuman o -> wr_int 0; wr_str o
       | RepJson l -> wr_int 1; wr_list wr_jfile l
       | RepFatal o -> wr_int 2; wr_str o);
      wr_z e) (run_all j c fs)


let () =
  add "hl_lt" cmd_hl_lt; add "err_lt" cmd_err_lt; add "sort" cmd_sort; add "status" cmd_status;
  add "human" cmd_human; add "run_all" cmd_run_all
