open Nvmodel
open Drv_base

(* classes: two lists of code points (>= 128) for which \w resp. \d hold *)
let rd_classes () =
  let w = rd_list (fun () -> n_of_int (next ())) in
  let d = rd_list (fun () -> n_of_int (next ())) in
  (fun c -> List.mem c w), (fun c -> List.mem c d)

let wr_tok t = wr_str t.t_type; wr_z t.t_line; wr_z t.t_col; wr_opt wr_str t.t_val
let wr_item = function
  | ITok (t, lo, hi) -> wr_int 0; wr_tok t; wr_int (int_of_nat lo); wr_int (int_of_nat hi)
  | IBad lo -> wr_int 1; wr_int (int_of_nat lo)
  | ISkip (lo, hi) -> wr_int 2; wr_int (int_of_nat lo); wr_int (int_of_nat hi)

let cmd_lex () =
  let uw, ud = rd_classes () in
  let src = rd_str () in
  wr_outcome (fun (items, x) ->
      wr_list wr_item items; wr_list wr_diag (List.rev x.errs);
      wr_int (int_of_nat x.off); wr_z x.line; wr_z x.col) (lex uw ud src)

let wr_groups = function
  | None -> wr_int 0
  | Some ((a, b), c) -> wr_int 1; wr_str a; wr_str b; wr_str c

let cmd_re () =
  let uw, ud = rd_classes () in
  let x = rd_str () in
  wr_groups (int_match uw ud x); wr_groups (fexp_match uw ud x); wr_groups (ffrac_match uw ud x);
  wr_groups (fhex_match uw ud x)

let cmd_exp_ok () =
  let _, ud = rd_classes () in
  let x = rd_str () in wr_bool (exp_ok ud x)

let () = add "lex" cmd_lex; add "re" cmd_re; add "exp_ok" cmd_exp_ok

let cmd_positions () =
  let src = rd_str () in
  wr_list (fun (l, c) -> wr_z l; wr_z c) (all_positions src)
let cmd_normalise () =
  let comment = rd_bool () in let c = rd_z () in let seg = rd_str () in
  wr_str (normalise comment c seg)
let () = add "positions" cmd_positions; add "normalise" cmd_normalise

let rd_tokspan () =
  let ty = rd_str () in let l = rd_z () in let c = rd_z () in let v = rd_opt rd_str in
  let lo = nat_of_int (next ()) in let hi = nat_of_int (next ()) in
  (({ t_type = ty; t_line = l; t_col = c; t_val = v }, lo), hi)

(* the boolean properties applied to externally produced tokens (the implementation's) *)
let cmd_lexprops () =
  let src = rd_str () in
  let toks = rd_list rd_tokspan in
  let ds = rd_list rd_diag in
  let items = items_of_spans src O toks in
  wr_bool (c09_ok src items);
  wr_bool (spans_tile items O (nat_of_int (List.length src)));
  wr_bool (c10_ok src items ds);
  let bad9 = List.filteri (fun _ i -> not (c09_item_ok src i)) items in
  let bad10 = List.filteri (fun _ i -> not (c10_item_ok src ds i)) items in
  wr_list wr_item bad9; wr_list wr_item bad10

(* the same, on the model's own items *)
let cmd_lexself () =
  let uw, ud = rd_classes () in
  let src = rd_str () in
  match lex uw ud src with
  | Ok (items, x) -> wr_int 0; wr_bool (c09_ok src items); wr_bool (c10_ok src items x.errs)
  | _ -> wr_int 1
let () = add "lexprops" cmd_lexprops; add "lexself" cmd_lexself
