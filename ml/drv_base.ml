(* Line-protocol driver around the extracted model (build/ml/nvmodel.ml).
   One request per input line:  <command> <int> <int> ...   One answer line per request,
   a flat list of ints.  Encodings (both directions):
     str = n c1..cn | Z = one int | option X = 0 | 1 X | list X = n X1..Xn | bool = 0|1
     outcome X = 0 X (Ok) | 1 str (Fatal) | 2 k (Crash, constructor index) | 3 (Hang)        *)
open Nvmodel

(* ---------- int <-> Coq numbers ---------- *)
let rec pos_of_int (i : int) : positive =
  if i <= 1 then XH else if i land 1 = 0 then XO (pos_of_int (i lsr 1)) else XI (pos_of_int (i lsr 1))
let n_of_int i : n = if i <= 0 then N0 else Npos (pos_of_int i)
let z_of_int i : z = if i = 0 then Z0 else if i > 0 then Zpos (pos_of_int i) else Zneg (pos_of_int (-i))
let rec int_of_pos = function XH -> 1 | XO p -> 2 * int_of_pos p | XI p -> 2 * int_of_pos p + 1
let int_of_n = function N0 -> 0 | Npos p -> int_of_pos p
let int_of_z = function Z0 -> 0 | Zpos p -> int_of_pos p | Zneg p -> - (int_of_pos p)
let rec nat_of_int i : nat = if i <= 0 then O else S (nat_of_int (i - 1))
let rec int_of_nat = function O -> 0 | S n -> 1 + int_of_nat n

(* ---------- input stream ---------- *)
let toks : int array ref = ref [||]
let idx = ref 0
let next () = let v = !toks.(!idx) in incr idx; v
let rd_bool () = next () <> 0
let rd_z () = z_of_int (next ())
let rd_list rd = let k = next () in List.init k (fun _ -> rd ())
let rd_str () : str = rd_list (fun () -> n_of_int (next ()))
let rd_opt rd = if next () = 0 then None else Some (rd ())
let rd_hl () = let l = rd_z () in let c = rd_z () in let ln = rd_opt rd_z in let h = rd_opt rd_str in
  { h_line = l; h_col = c; h_len = ln; h_hint = h }
let rd_diag () = let n = rd_str () in let t = rd_str () in let l = rd_str () in let hs = rd_list rd_hl in
  { d_name = n; d_text = t; d_level = l; d_hls = hs }
let rd_file () = let b = rd_str () in let ds = rd_list rd_diag in { f_base = b; f_errors = ds }

(* ---------- output ---------- *)
let buf = Buffer.create 65536
let wr_int i = Buffer.add_string buf (string_of_int i); Buffer.add_char buf ' '
let wr_bool b = wr_int (if b then 1 else 0)
let wr_z z = wr_int (int_of_z z)
let wr_list wr l = wr_int (List.length l); List.iter wr l
let wr_str (x : str) = wr_list (fun c -> wr_int (int_of_n c)) x
let wr_opt wr = function None -> wr_int 0 | Some x -> wr_int 1; wr x
let wr_hl h = wr_z h.h_line; wr_z h.h_col; wr_opt wr_z h.h_len; wr_opt wr_str h.h_hint
let wr_diag d = wr_str d.d_name; wr_str d.d_text; wr_str d.d_level; wr_list wr_hl d.d_hls
let exn_index = function
  | UnexpectedEOF -> 0 | MaybeInfiniteLoop -> 1 | RecursionError -> 2 | TypeError -> 3 | IndexError -> 4
  | AttributeError -> 5 | KeyError -> 6 | UnboundLocalError -> 7 | AssertionError -> 8 | Unmodelled -> 9
let wr_outcome wr = function
  | Ok a -> wr_int 0; wr a
  | Fatal m -> wr_int 1; wr_str m
  | Crash e -> wr_int 2; wr_int (exn_index e)
  | Hang -> wr_int 3


let commands : (Stdlib.String.t * (unit -> unit)) list ref = ref []
let add name f = commands := (name, f) :: !commands
