open Drv_base
let () =
  try
    while true do
      let line = input_line stdin in
      let name, rest = match String.index_opt line ' ' with
        | None -> line, ""
        | Some i -> String.sub line 0 i, String.sub line (i + 1) (String.length line - i - 1) in
      toks := Array.of_list (List.filter_map (fun t -> if t = "" then None else Some (int_of_string t))
                               (String.split_on_char ' ' rest));
      idx := 0;
      (match List.assoc_opt name !commands with
       | Some f -> (try f () with e -> Buffer.clear buf; Buffer.add_string buf ("ERR " ^ Printexc.to_string e))
       | None -> Buffer.add_string buf "ERR unknown");
      print_string (Buffer.contents buf); print_newline (); Buffer.clear buf
    done
  with End_of_file -> ()
