"""Gen/RuleChecks.v (property C02): the `run` methods of the small checks translated statement by statement
from the Python AST into Gallina functions

    check_xxx (toks : list token) (scope : Z) (v : view) : result        (result = outcome (list em * view))

over the remaining token list (context.tokens), the statement length (context.tkn_scope) and the abstract
context view of Model/RuleChecks.v.  The translation is structural:

  * locals assigned at the top level of the method are the STATE (typed by their first assignment); the emitted
    diagnostics `E` and the view `v` are always part of it;
  * `if`/`elif`/`else` become Gallina `if`; when the text after an `if` is reached from several branches it is bound
    once as a local function `joinN` over the state;
  * `return ...` ends with `Ok (E, v)` (Registry.run_rules ignores the value returned by a Check - pinned below);
  * `while C: x += 1` becomes `skip_while toks (fun x => C) x`; any other `while` becomes a `Fixpoint` on fuel
    (`Hang` when it runs out) whose body ends in the recursive call (fall through / `continue`) or in `Ok state`
    (`break`); `for x in <list>` becomes `for_each` with the same conventions;
  * context.check_token / peek_token / skip_ws / new_error / history / scope fields become the functions and
    projections of Model/RuleChecks.v; `is True`, `is False`, truthiness and `not` on the three-valued result of
    check_token are kept apart;
  * an attribute read on `peek_token(..)` and an unguarded `context.history[-k]` are evaluated first
    (`need_tok` / `need_hist`: AttributeError / IndexError when missing) - only where Python evaluates them
    unconditionally; under a short circuit they are accepted only behind a recognised `len(context.history)` guard.

Every other shape raises (SyntaxError): fail closed, the tie is broken.  The helpers the hand-written part stands
for are pinned by normalised AST fingerprints."""
import ast
import hashlib
import os


class RulesError(SyntaxError):
    pass


def fail(node, why):
    raise RulesError("%s at line %s: %s" % (why, getattr(node, "lineno", "?"),
                                             ast.dump(node)[:160] if isinstance(node, ast.AST) else node))


def parse(repo, rel):
    p = os.path.join(repo, rel)
    with open(p) as f:
        return ast.parse(f.read(), filename=p)


def find_class(tree, name):
    for n in ast.walk(tree):
        if isinstance(n, ast.ClassDef) and n.name == name:
            return n
    raise KeyError("class %s not found" % name)


def find_method(cls, name):
    for n in cls.body:
        if isinstance(n, ast.FunctionDef) and n.name == name:
            return n
    raise KeyError("method %s.%s not found" % (cls.name, name))


def strip_doc(body):
    body = list(body)
    if body and isinstance(body[0], ast.Expr) and isinstance(body[0].value, ast.Constant) and isinstance(body[0].value.value, str):
        body = body[1:]
    return body


def fingerprint(node):
    node = ast.parse(ast.unparse(node))
    for n in ast.walk(node):
        if isinstance(n, (ast.FunctionDef, ast.ClassDef)):
            n.body = strip_doc(n.body) or [ast.Pass()]
    return hashlib.sha256(ast.dump(node, include_attributes=False).encode()).hexdigest()[:20]


def cstr(x):
    if not all(32 <= ord(c) < 127 and c != '"' for c in x):
        raise RulesError("unsupported characters in a string constant")
    return '(s "%s"%%string)' % x


def cz(k):
    return "(%d)" % k


COQTY = {"Z": "Z", "bool": "bool", "zset": "list Z", "strlist": "list str", "str": "str"}


def is_ctx(n):
    return isinstance(n, ast.Name) and n.id == "context"


def ctx_attr(n, name):
    return isinstance(n, ast.Attribute) and n.attr == name and is_ctx(n.value)


def is_ctx_call(n, name):
    return isinstance(n, ast.Call) and isinstance(n.func, ast.Attribute) and n.func.attr == name and is_ctx(n.func.value)


def is_history(n):
    return ctx_attr(n, "history")


def terminates(stmts):
    """the block cannot fall through (ends in return / continue / break on every path)"""
    if not stmts:
        return False
    last = stmts[-1]
    if isinstance(last, (ast.Return, ast.Continue, ast.Break)):
        return True
    if isinstance(last, ast.If):
        return terminates(last.body) and terminates(last.orelse)
    return False


def stops_at_end(test):
    """the condition is false once the position is past the last token: a (truthy / `is True`) check_token, or a conjunction
    that contains one"""
    if is_ctx_call(test, "check_token"):
        return True
    if isinstance(test, ast.Compare) and len(test.ops) == 1 and isinstance(test.ops[0], ast.Is) and is_ctx_call(test.left, "check_token") \
            and isinstance(test.comparators[0], ast.Constant) and test.comparators[0].value is True:
        return True
    if isinstance(test, ast.BoolOp) and isinstance(test.op, ast.And):
        return any(stops_at_end(v) for v in test.values)
    return False


class Top:
    kind = "top"

    def fall(self, tr):
        return "Ok (E, v)"

    ret = fall

    def cont(self, tr):
        fail("continue", "continue outside a loop")

    brk = cont


class WhileCtx:
    kind = "while"

    def __init__(self, name, state):
        self.name, self.state = name, state

    def fall(self, tr):
        return "%s f toks scope %s E v" % (self.name, " ".join(tr.cn(x) for x, _ in self.state)) if self.state \
            else "%s f toks scope E v" % self.name

    cont = fall

    def brk(self, tr):
        return "Ok %s" % tr.tuple_of(self.state)

    def ret(self, tr):
        fail("return", "return inside a loop")


class ForCtx:
    kind = "for"

    def __init__(self, state):
        self.state = state

    def fall(self, tr):
        return "Ok (false, %s)" % tr.tuple_of(self.state)

    cont = fall

    def brk(self, tr):
        return "Ok (true, %s)" % tr.tuple_of(self.state)

    def ret(self, tr):
        fail("return", "return inside a loop")


class MethodTr:
    def __init__(self, clsname, coqname, module_tree):
        self.cls, self.coqname = clsname, coqname
        self.aux = []
        self.state = []          # [(python name, type)] in order of first top-level assignment
        self.codes = []
        self.fresh = 0
        self.pre = None          # prelude being collected: [(kind, coq name, coq option expr)]
        self.pre_ok = False
        self.hist_guard = 0
        self.imports_global_scope = any(
            isinstance(n, ast.ImportFrom) and n.module == "norminette.scope" and any(a.name == "GlobalScope" and a.asname is None for a in n.names)
            for n in module_tree.body)

    # ------------------------------------------------------------------ names
    def cn(self, py):
        return "x_" + py

    def new(self, base):
        self.fresh += 1
        return "%s%d" % (base, self.fresh)

    def tuple_of(self, state):
        return "(" + ", ".join([self.cn(x) for x, _ in state] + ["E", "v"]) + ")"

    def tuple_ty(self, state):
        return "(" + " * ".join([COQTY[t] for _, t in state] + ["list em", "view"]) + ")%type"

    def params_of(self, state):
        return " ".join("(%s : %s)" % (self.cn(x), COQTY[t]) for x, t in state)

    # ------------------------------------------------------------------ expressions
    def need(self, kind, optexpr, node):
        if not self.pre_ok or self.pre is None:
            fail(node, "a partial read (token attribute / history entry) under a short circuit without a recognised guard")
        nm = self.new("tk" if kind == "tok" else "hs")
        self.pre.append((kind, nm, optexpr))
        return nm

    def ex(self, n, env):
        """-> (coq text, type)"""
        if isinstance(n, ast.Constant):
            if isinstance(n.value, bool):
                return ("true" if n.value else "false", "bool")
            if isinstance(n.value, int):
                return (cz(n.value), "Z")
            if isinstance(n.value, str):
                return (cstr(n.value), "str")
            fail(n, "constant")
        if isinstance(n, ast.Name):
            if n.id in env:
                return (self.cn(n.id), env[n.id])
            fail(n, "unknown or out-of-scope name")
        if isinstance(n, ast.UnaryOp):
            if isinstance(n.op, ast.Not):
                return ("(negb %s)" % self.truth(n.operand, env), "bool")
            if isinstance(n.op, ast.USub) and isinstance(n.operand, ast.Constant) and isinstance(n.operand.value, int):
                return (cz(-n.operand.value), "Z")
            fail(n, "unary operator")
        if isinstance(n, ast.BinOp):
            a, ta = self.ex(n.left, env)
            b, tb = self.ex(n.right, env)
            if ta == tb == "Z" and isinstance(n.op, (ast.Add, ast.Sub)):
                return ("(%s %s %s)" % (a, "+" if isinstance(n.op, ast.Add) else "-", b), "Z")
            fail(n, "binary operator")
        if isinstance(n, ast.IfExp):
            c = self.truth(n.test, env)
            ok, self.pre_ok = self.pre_ok, False
            a, ta = self.ex(n.body, env)
            b, tb = self.ex(n.orelse, env)
            self.pre_ok = ok
            if ta != tb:
                fail(n, "conditional expression with different types")
            return ("(if %s then %s else %s)" % (c, a, b), ta)
        if isinstance(n, ast.BoolOp) and isinstance(n.op, ast.Or) and getattr(self, "in_error_arg", False):
            # `tok_a or tok_b` as the token argument of new_error: a Token is always truthy, None is not
            if len(n.values) != 2:
                fail(n, "`or` of more than two tokens")
            ok = self.pre_ok
            a, ta = self.ex(n.values[0], env)
            self.pre_ok = False
            b, tb = self.ex(n.values[1], env)
            self.pre_ok = ok
            if ta != "opttok" or tb != "opttok":
                fail(n, "`or` in a new_error argument must join two peek_token results")
            return ("(or_tok %s %s)" % (a, b), "opttok")
        if isinstance(n, ast.BoolOp):
            parts = []
            ok, hg = self.pre_ok, self.hist_guard
            for k, e in enumerate(n.values):
                if k > 0:
                    self.pre_ok = False
                parts.append(self.truth(e, env))
                if isinstance(n.op, ast.And):
                    self.hist_guard = max(self.hist_guard, self.guard_of(e))
            self.pre_ok, self.hist_guard = ok, hg
            return ("(" + (" && " if isinstance(n.op, ast.And) else " || ").join(parts) + ")", "bool")
        if isinstance(n, ast.Compare):
            return self.compare(n, env)
        if isinstance(n, ast.Attribute):
            return self.attribute(n, env)
        if isinstance(n, ast.Subscript):
            return self.subscript(n, env)
        if isinstance(n, ast.Call):
            return self.call(n, env)
        fail(n, "expression")

    def guard_of(self, e):
        """number of history entries that `e` being true guarantees"""
        if isinstance(e, ast.Compare) and len(e.ops) == 1 and isinstance(e.left, ast.Call) and isinstance(e.left.func, ast.Name) \
                and e.left.func.id == "len" and len(e.left.args) == 1 and is_history(e.left.args[0]) \
                and isinstance(e.comparators[0], ast.Constant) and isinstance(e.comparators[0].value, int) \
                and not isinstance(e.comparators[0].value, bool):
            k = e.comparators[0].value
            if isinstance(e.ops[0], ast.Eq) and k >= 0:
                return k
            if isinstance(e.ops[0], ast.Gt) and k >= 0:
                return k + 1
            if isinstance(e.ops[0], ast.GtE) and k >= 0:
                return k
        return 0

    def truth(self, n, env):
        t, ty = self.ex(n, env)
        if ty == "bool":
            return t
        if ty == "optbool":
            return "(truthy %s)" % t
        if ty == "opttok":
            return "(is_some %s)" % t
        fail(n, "truth value of a %s" % ty)

    def str_consts(self, n):
        if isinstance(n, (ast.Tuple, ast.List)) and n.elts and all(isinstance(e, ast.Constant) and isinstance(e.value, str) for e in n.elts):
            return "[" + "; ".join(cstr(e.value) for e in n.elts) + "]"
        return None

    def compare(self, n, env):
        if len(n.ops) != 1:
            fail(n, "chained comparison")
        op, r = n.ops[0], n.comparators[0]
        # type(context.scope) is GlobalScope
        if isinstance(op, (ast.Is, ast.IsNot)) and isinstance(n.left, ast.Call) and isinstance(n.left.func, ast.Name) and n.left.func.id == "type" \
                and len(n.left.args) == 1 and ctx_attr(n.left.args[0], "scope") and isinstance(r, ast.Name) and r.id == "GlobalScope":
            if not self.imports_global_scope:
                fail(n, "GlobalScope is not norminette.scope.GlobalScope")
            return ("(v_scope_global v)" if isinstance(op, ast.Is) else "(negb (v_scope_global v))", "bool")
        if isinstance(op, (ast.Is, ast.IsNot)):
            if not (isinstance(r, ast.Constant) and (r.value is None or isinstance(r.value, bool))):
                fail(n, "identity test")
            a, ta = self.ex(n.left, env)
            if r.value is None:
                if ta not in ("opttok", "optbool"):
                    fail(n, "is None on a %s" % ta)
                t = "(is_none %s)" % a
            elif ta == "optbool":
                t = "(%s %s)" % ("is_true" if r.value else "is_false", a)
            elif ta == "bool":
                t = a if r.value else "(negb %s)" % a
            else:
                fail(n, "is True/False on a %s" % ta)
            return (t if isinstance(op, ast.Is) else "(negb %s)" % t, "bool")
        if isinstance(op, (ast.In, ast.NotIn)):
            a, ta = self.ex(n.left, env)
            consts = self.str_consts(r)
            if ta == "str" and consts:
                t = "(str_in %s %s)" % (a, consts)
            elif ta == "Z" and isinstance(r, ast.Name) and env.get(r.id) == "zset":
                t = "(z_in %s %s)" % (a, self.cn(r.id))
            elif ta == "Z" and isinstance(r, ast.Call) and isinstance(r.func, ast.Name) and r.func.id == "range" and len(r.args) == 1 and not r.keywords:
                b, tb = self.ex(r.args[0], env)
                if tb != "Z":
                    fail(n, "range bound")
                t = "(in_range0 %s %s)" % (a, b)
            else:
                fail(n, "membership test")
            return (t if isinstance(op, ast.In) else "(negb %s)" % t, "bool")
        a, ta = self.ex(n.left, env)
        b, tb = self.ex(r, env)
        if ta == tb == "str" and isinstance(op, (ast.Eq, ast.NotEq)):
            t = "(str_eqb %s %s)" % (a, b)
            return (t if isinstance(op, ast.Eq) else "(negb %s)" % t, "bool")
        if ta == tb == "Z":
            tab = {ast.Eq: "(%s =? %s)", ast.NotEq: "(negb (%s =? %s))", ast.Lt: "(%s <? %s)", ast.LtE: "(%s <=? %s)",
                   ast.Gt: "(%s >? %s)", ast.GtE: "(%s >=? %s)"}
            if type(op) in tab:
                return (tab[type(op)] % (a, b), "bool")
        fail(n, "comparison of %s with %s" % (ta, tb))

    def attribute(self, n, env):
        if ctx_attr(n, "tkn_scope"):
            return ("scope", "Z")
        if isinstance(n.value, ast.Attribute) and ctx_attr(n.value, "scope"):
            tab = {"name": ("(v_scope_name v)", "str"), "indent": ("(v_scope_indent v)", "Z"),
                   "vdeclarations_allowed": ("(v_vdecl_allowed v)", "bool"), "include_allowed": ("(v_include_allowed v)", "bool")}
            if n.attr in tab:
                return tab[n.attr]
        fail(n, "attribute")

    def subscript(self, n, env):
        # X.pos[0] / X.pos[1]
        if isinstance(n.value, ast.Attribute) and n.value.attr == "pos" and isinstance(n.slice, ast.Constant) and n.slice.value in (0, 1) \
                and not isinstance(n.slice.value, bool):
            proj = "t_line" if n.slice.value == 0 else "t_col"
            o, to = self.ex(n.value.value, env)
            if to == "tok":
                return ("(%s %s)" % (proj, o), "Z")
            if to == "opttok":
                return ("(%s %s)" % (proj, self.need("tok", o, n)), "Z")
            fail(n, ".pos of a %s" % to)
        # context.history[-k]
        if is_history(n.value) and isinstance(n.slice, ast.UnaryOp) and isinstance(n.slice.op, ast.USub) \
                and isinstance(n.slice.operand, ast.Constant) and isinstance(n.slice.operand.value, int) and n.slice.operand.value >= 1:
            k = n.slice.operand.value
            if self.hist_guard >= k:
                return ("(hist_back_d v %d)" % k, "str")
            return (self.need("hist", "(hist_back v %d)" % k, n), "str")
        # context.history[: len(context.history) - 1]
        if is_history(n.value) and isinstance(n.slice, ast.Slice) and n.slice.lower is None and n.slice.step is None and n.slice.upper is not None:
            u, tu = self.ex(n.slice.upper, env)
            if tu != "Z":
                fail(n, "slice bound")
            return ("(py_slice_to (py_history v) %s)" % u, "strlist")
        # x[::-1]
        if isinstance(n.slice, ast.Slice) and n.slice.lower is None and n.slice.upper is None and isinstance(n.slice.step, ast.UnaryOp) \
                and isinstance(n.slice.step.op, ast.USub) and isinstance(n.slice.step.operand, ast.Constant) and n.slice.step.operand.value == 1:
            o, to = self.ex(n.value, env)
            if to == "strlist":
                return ("(rev %s)" % o, "strlist")
        # context.tokens[: context.tkn_scope]
        if ctx_attr(n.value, "tokens") and isinstance(n.slice, ast.Slice) and n.slice.lower is None and n.slice.step is None \
                and n.slice.upper is not None and ctx_attr(n.slice.upper, "tkn_scope"):
            return ("(py_slice_to toks scope)", "toklist")
        fail(n, "subscript")

    def call(self, n, env):
        if n.keywords:
            fail(n, "keyword arguments")
        if is_ctx_call(n, "check_token") and len(n.args) == 2:
            p, tp = self.ex(n.args[0], env)
            if tp != "Z":
                fail(n, "check_token position")
            a = n.args[1]
            if isinstance(a, ast.Constant) and isinstance(a.value, str):
                return ("(check1 toks %s %s)" % (p, cstr(a.value)), "optbool")
            consts = self.str_consts(a)
            if consts:
                return ("(checkl toks %s %s)" % (p, consts), "optbool")
            fail(n, "check_token value")
        if is_ctx_call(n, "peek_token") and len(n.args) == 1:
            p, tp = self.ex(n.args[0], env)
            if tp != "Z":
                fail(n, "peek_token position")
            return ("(peek toks %s)" % p, "opttok")
        if is_ctx_call(n, "skip_ws") and len(n.args) == 1:
            p, tp = self.ex(n.args[0], env)
            if tp != "Z":
                fail(n, "skip_ws position")
            return ("(skip_ws toks %s)" % p, "Z")
        if isinstance(n.func, ast.Name) and n.func.id == "len" and len(n.args) == 1:
            if is_history(n.args[0]):
                return ("(hist_len v)", "Z")
            o, to = self.ex(n.args[0], env)
            if to == "toklist":
                return ("(zlen %s)" % o, "Z")
            fail(n, "len of a %s" % to)
        fail(n, "call")

    # ------------------------------------------------------------------ statements
    def with_pre(self, build):
        """run build() collecting a prelude; wrap the text it returns"""
        saved = (self.pre, self.pre_ok)
        self.pre, self.pre_ok = [], True
        try:
            body = build()
            pre = self.pre
        finally:
            self.pre, self.pre_ok = saved

        def wrap(text):
            for kind, nm, opt in reversed(pre):
                text = "%s %s (fun %s =>\n%s)" % ("need_tok" if kind == "tok" else "need_hist", opt, nm, text)
            return text
        return body, wrap

    def block(self, stmts, env, ctx, tail, depth):
        """Coq text for `stmts` followed by tail(env) (tail = None: the context's fall-through)."""
        if not stmts:
            return tail(env) if tail else ctx.fall(self)
        st, rest = stmts[0], stmts[1:]

        def after(env2):
            return self.block(rest, env2, ctx, tail, depth)

        if isinstance(st, ast.Expr) and isinstance(st.value, ast.Constant) and isinstance(st.value.value, str):
            return after(env)
        if isinstance(st, ast.Pass):
            return after(env)
        if isinstance(st, ast.Return):
            if st.value is not None:
                ok = isinstance(st.value, ast.Tuple) and len(st.value.elts) == 2 and isinstance(st.value.elts[0], ast.Constant) \
                    and isinstance(st.value.elts[0].value, bool)
                if not ok:
                    fail(st, "return value")
                if not (isinstance(st.value.elts[1], ast.Constant) or (isinstance(st.value.elts[1], ast.Name) and env.get(st.value.elts[1].id) == "Z")):
                    fail(st, "return value")
            return ctx.ret(self)
        if isinstance(st, ast.Continue):
            return ctx.cont(self)
        if isinstance(st, ast.Break):
            return ctx.brk(self)
        if isinstance(st, ast.Expr) and is_ctx_call(st.value, "new_error"):
            c = st.value
            if len(c.args) != 2 or c.keywords or not (isinstance(c.args[0], ast.Constant) and isinstance(c.args[0].value, str)):
                fail(st, "new_error shape")
            code = c.args[0].value
            self.codes.append(code)

            def build():
                self.in_error_arg = True
                try:
                    a, ta = self.ex(c.args[1], env)
                finally:
                    self.in_error_arg = False
                if ta == "tok":
                    a = "(Some %s)" % a
                elif ta != "opttok":
                    fail(st, "new_error token argument")
                return a
            a, wrap = self.with_pre(build)
            return wrap("bind (emit %s %s E) (fun E =>\n%s)" % (cstr(code), a, after(env)))
        if isinstance(st, ast.AugAssign):
            if not (isinstance(st.target, ast.Name) and isinstance(st.op, (ast.Add, ast.Sub))):
                fail(st, "augmented assignment")
            if env.get(st.target.id) != "Z":
                fail(st, "augmented assignment to a non-integer / unknown local")
            val, wrap = self.with_pre(lambda: self.ex(st.value, env))
            if val[1] != "Z":
                fail(st, "augmented assignment value")
            nm = self.cn(st.target.id)
            return wrap("let %s := %s %s %s in\n%s" % (nm, nm, "+" if isinstance(st.op, ast.Add) else "-", val[0], after(env)))
        if isinstance(st, ast.Assign):
            return self.assign(st, env, ctx, after, depth)
        if isinstance(st, ast.If):
            return self.if_(st, rest, env, ctx, tail, depth)
        if isinstance(st, ast.While):
            return self.while_(st, env, ctx, after, depth)
        if isinstance(st, ast.For):
            return self.for_(st, env, ctx, after, depth)
        fail(st, "statement")

    def assign(self, st, env, ctx, after, depth):
        if len(st.targets) != 1:
            fail(st, "multiple assignment")
        tg = st.targets[0]
        # context.scope.<flag> = True/False
        if isinstance(tg, ast.Attribute) and isinstance(tg.value, ast.Attribute) and ctx_attr(tg.value, "scope") \
                and tg.attr in ("vdeclarations_allowed", "include_allowed") and isinstance(st.value, ast.Constant) and isinstance(st.value.value, bool):
            fn = "set_vdecl_allowed" if tg.attr == "vdeclarations_allowed" else "set_include_allowed"
            return "let v := %s v %s in\n%s" % (fn, "true" if st.value.value else "false", after(env))
        # d[key] = True   (d only ever tested for membership)
        if isinstance(tg, ast.Subscript) and isinstance(tg.value, ast.Name) and env.get(tg.value.id) == "zset" \
                and isinstance(st.value, ast.Constant) and st.value.value is True:
            k, wrap = self.with_pre(lambda: self.ex(tg.slice, env))
            if k[1] != "Z":
                fail(st, "dictionary key")
            nm = self.cn(tg.value.id)
            return wrap("let %s := %s :: %s in\n%s" % (nm, k[0], nm, after(env)))
        if not isinstance(tg, ast.Name):
            fail(st, "assignment target")
        name = tg.id
        if isinstance(st.value, ast.Dict) and not st.value.keys:
            val, wrap = ("[]", "zset"), (lambda t: t)
        else:
            val, wrap = self.with_pre(lambda: self.ex(st.value, env))
        if val[1] not in COQTY:
            fail(st, "assignment of a %s" % val[1])
        if name in env:
            if env[name] != val[1]:
                fail(st, "local changes its type")
            if depth > 0 and name not in [x for x, _ in self.state]:
                fail(st, "re-assignment of a block-local name inside a nested block")
            env2 = env
        else:
            env2 = dict(env)
            env2[name] = val[1]
            if depth == 0 and ctx.kind == "top":
                self.state.append((name, val[1]))
        return wrap("let %s := %s in\n%s" % (self.cn(name), val[0], after(env2)))

    def if_(self, st, rest, env, ctx, tail, depth):
        branches = [st.body, st.orelse]
        falls = sum(0 if terminates(b) else 1 for b in branches)
        has_after = bool(rest) or tail is not None
        cond, wrap = self.with_pre(lambda: self.truth(st.test, env))
        if has_after and falls >= 2 and rest:
            join = self.new("join")
            state = list(self.state)       # the state BEFORE the rest of the block is translated

            def btail(env2, join=join, state=state):
                return "%s %s E v" % (join, " ".join(self.cn(x) for x, _ in state)) if state else "%s E v" % join
            a = self.block(st.body, env, ctx, btail, depth + 1)
            b = self.block(st.orelse, env, ctx, btail, depth + 1)
            jtext = "let %s := fun %s (E : list em) (v : view) =>\n%s in\n" % (
                join, self.params_of(state), self.block(rest, env, ctx, tail, depth))
        else:
            jtext = ""

            def btail(env2):
                # names introduced inside the branch are not visible afterwards
                return self.block(rest, env, ctx, tail, depth)
            a = self.block(st.body, env, ctx, btail, depth + 1)
            b = self.block(st.orelse, env, ctx, btail, depth + 1)
        return jtext + wrap("if %s\nthen (%s)\nelse (%s)" % (cond, a, b))

    def while_(self, st, env, ctx, after, depth):
        if st.orelse:
            fail(st, "while-else")
        # while C: x += 1
        if len(st.body) == 1 and isinstance(st.body[0], ast.AugAssign) and isinstance(st.body[0].target, ast.Name) \
                and isinstance(st.body[0].op, ast.Add) and isinstance(st.body[0].value, ast.Constant) and st.body[0].value.value == 1 \
                and env.get(st.body[0].target.id) == "Z":
            x = st.body[0].target.id
            if not stops_at_end(st.test):
                fail(st, "`while C: x += 1` whose condition does not turn false at the end of the tokens (it would not terminate there)")
            saved = (self.pre, self.pre_ok)
            self.pre, self.pre_ok = None, False
            try:
                c = self.truth(st.test, env)
            finally:
                self.pre, self.pre_ok = saved
            nm = self.cn(x)
            return "let %s := skip_while toks (fun %s => %s) %s in\n%s" % (nm, nm, c, nm, after(env))
        if ctx.kind != "top" or depth != 0:
            fail(st, "general while loop below the top level of the method")
        state = list(self.state)
        name = "%s_loop%d" % (self.coqname, len(self.aux) + 1)
        lctx = WhileCtx(name, state)
        saved = (self.pre, self.pre_ok)
        self.pre, self.pre_ok = None, False
        try:
            c = self.truth(st.test, env)
        finally:
            self.pre, self.pre_ok = saved
        body = self.block(st.body, env, lctx, None, 1)
        self.aux.append(
            "Fixpoint %s (fuel : nat) (toks : list token) (scope : Z) %s (E : list em) (v : view) {struct fuel}\n  : outcome %s :=\n"
            "match fuel with\n| O => Hang\n| S f =>\nif %s\nthen (%s)\nelse Ok %s\nend.\n" % (
                name, self.params_of(state), self.tuple_ty(state), c, body, self.tuple_of(state)))
        call = "%s (loop_fuel toks) toks scope %s E v" % (name, " ".join(self.cn(x) for x, _ in state))
        return "bind (%s) (fun st => let '%s := st in\n%s)" % (call, self.tuple_of(state), after(env))

    def for_(self, st, env, ctx, after, depth):
        if st.orelse or not isinstance(st.target, ast.Name):
            fail(st, "for shape")
        it = st.iter
        if isinstance(it, ast.Call) and isinstance(it.func, ast.Name) and it.func.id == "range" and len(it.args) == 2 and not it.keywords:
            lo, tl = self.ex(it.args[0], env)
            hi, th = self.ex(it.args[1], env)
            if tl != "Z" or th != "Z":
                fail(st, "range bounds")
            lst, vt = "(zrange %s %s)" % (lo, hi), "Z"
        else:
            o, to = self.ex(it, env)
            if to == "toklist":
                lst, vt = o, "tok"
            elif to == "strlist":
                lst, vt = o, "str"
            else:
                fail(st, "iteration over a %s" % to)
        if st.target.id in env:
            fail(st, "loop variable shadows a local")
        state = list(self.state) if (ctx.kind == "top" and depth == 0) else list(getattr(ctx, "state", self.state))
        # inside nested blocks the state is still the method's state variables
        state = list(self.state)
        env2 = dict(env)
        env2[st.target.id] = vt
        body = self.block(st.body, env2, ForCtx(state), None, depth + 1)
        tup = self.tuple_of(state)
        return "bind (for_each %s (fun %s st => let '%s := st in\n%s) %s) (fun st => let '%s := st in\n%s)" % (
            lst, self.cn(st.target.id), tup, body, tup, tup, after(env))


# ---------------------------------------------------------------------------------------------------------------
# (class, file, coq name)
METHODS = [
    ("CheckTernary", "norminette/rules/check_ternary.py", "check_ternary"),
    ("CheckLineLen", "norminette/rules/check_line_len.py", "check_line_len"),
    ("CheckLabel", "norminette/rules/check_label.py", "check_label"),
    ("CheckManyInstructions", "norminette/rules/check_many_instructions.py", "check_many_instructions"),
    ("CheckEmptyLine", "norminette/rules/check_empty_line.py", "check_empty_line"),
    ("CheckLineIndent", "norminette/rules/check_line_indent.py", "check_line_indent"),
    ("CheckSpacing", "norminette/rules/check_spacing.py", "check_spacing"),
]

# helpers that Model/RuleChecks.v models by hand: (file, class, method) -> fingerprint of the method
PINNED = {
    ("norminette/context.py", "Context", "peek_token"): "d088a963519c514bd22b",
    ("norminette/context.py", "Context", "check_token"): "8df73448beb7e789b2b1",
    ("norminette/context.py", "Context", "skip_ws"): "8a2f7cd42bbf735d2091",
    ("norminette/context.py", "Context", "new_error"): "011f3ee1488c197b8e71",
    ("norminette/errors.py", "Highlight", "from_token"): "ee0fc615bcea0c1bf48b",
    ("norminette/rules/rule.py", "Rule", "__eq__"): "bc234333279ed021bbc6",
    ("norminette/registry.py", "Registry", "run_rules"): "32df293fcb9dde5268b3",
}


def pinned_now(repo):
    out = {}
    for (rel, cls, meth) in PINNED:
        out[(rel, cls, meth)] = fingerprint(find_method(find_class(parse(repo, rel), cls), meth))
    return out


def translate_method(repo, clsname, rel, coqname):
    tree = parse(repo, rel)
    cls = find_class(tree, clsname)
    fn = find_method(cls, "run")
    if [a.arg for a in fn.args.args] != ["self", "context"] or fn.args.vararg or fn.args.kwarg or fn.decorator_list:
        fail(fn, "signature of run")
    for n in ast.walk(fn):
        if isinstance(n, (ast.Try, ast.With, ast.Lambda, ast.Global, ast.Nonlocal, ast.Yield, ast.YieldFrom, ast.Await,
                          ast.ListComp, ast.GeneratorExp, ast.NamedExpr, ast.Delete, ast.Raise)):
            fail(n, "construct outside the translated subset")
    tr = MethodTr(clsname, coqname, tree)
    body = tr.block(strip_doc(fn.body), {}, Top(), None, 0)
    text = "".join(a + "\n" for a in tr.aux)
    text += "Definition %s (toks : list token) (scope : Z) (v : view) : result :=\nlet E : list em := [] in\n%s.\n" % (coqname, body)
    codes = []
    for c in tr.codes:
        if c not in codes:
            codes.append(c)
    text += "Definition %s_codes : list str := [%s].\n" % (coqname, "; ".join(cstr(c) for c in codes))
    return text, fingerprint(fn)


def gen_rulechecks(repo, L):
    now = pinned_now(repo)
    bad = [k for k, v in now.items() if PINNED[k] != v]
    if bad:
        raise RulesError("helper(s) modelled by hand in Model/RuleChecks.v changed: %s" % ", ".join(
            "%s:%s.%s (now %s)" % (k[0], k[1], k[2], now[k]) for k in bad))
    out = ["From NV Require Import Model.Base Model.RuleChecks.\n",
           "(* `run` of the small checks, translated statement by statement by tools/translate_rules.py *)\n"]
    fps = []
    for clsname, rel, coqname in METHODS:
        text, fp = translate_method(repo, clsname, rel, coqname)
        out.append("\n(* %s.run  (%s, ast fingerprint %s) *)\n" % (clsname, rel, fp))
        out.append(text)
        fps.append((clsname, fp))
    out.append("\nDefinition translated_checks : list str := [%s].\n" % "; ".join(cstr(c) for c, _, _ in METHODS))
    out.append("Definition pinned_helpers : list string := [%s].\n" % "; ".join(
        '"%s:%s.%s=%s"%%string' % (k[0], k[1], k[2], v) for k, v in sorted(now.items())))
    return "".join(out)


GENERATORS = {"RuleChecks": gen_rulechecks}


if __name__ == "__main__":
    import sys
    repo = sys.argv[1] if len(sys.argv) > 1 else "/repo"
    if len(sys.argv) > 2 and sys.argv[2] == "--pins":
        for k, v in pinned_now(repo).items():
            print(k, v)
    else:
        print(gen_rulechecks(repo, {}))
