(* ---- the 25 lines: scope-trace model (Model/ScopeTrace.v over Gen/ScopeOps.v, regenerated from the source on every run) *)
From NV Require Import Model.ScopeBase Gen.ScopeOps Model.ScopeTrace Model.ScopeBody Proofs.ScopeTraceProofs.
Local Open Scope Z_scope.

(* at the closing brace of a function with a well-nested body the Function scope has counted every line end of the gap, the `{`
   statement and all body statements: lines handed up by brace-less control structures of any depth are not lost *)
Theorem C03_lines_counter : forall g rest hs E nl gap nlo b, isglobal g -> last_ok hs -> gap_ok gap -> body b ->
  exists q F, run (mkstate (g :: rest) hs E) (s_func nl :: gap ++ s_open nlo :: b) = Some q /\
    hd_error (chain q) = Some F /\ s_kind F = k_function /\ s_lines F = total_nl gap + nlo + total_nl b.
Proof. exact lines_counter. Qed.
Print Assumptions C03_lines_counter.

Theorem C03_too_many_lines_iff : forall g rest hs E nl nlo b nlc, isglobal g -> last_ok hs -> body b ->
  exists q, run (mkstate (g :: rest) hs E) (block_of (s_func nl) [] nlo b nlc) = Some q /\
    ems q = (if nlo + total_nl b >? brace_limit then [tml] else []) ++ E.
Proof. exact too_many_lines_iff. Qed.
Print Assumptions C03_too_many_lines_iff.

(* `{` alone on its line: exactly one TOO_MANY_LINES iff the body has more than 25 line ends - none at 25, always at 26 *)
Theorem C03_too_many_lines_25 : forall g rest hs E nl b nlc, isglobal g -> last_ok hs -> body b ->
  exists q, run (mkstate (g :: rest) hs E) (block_of (s_func nl) [] 1 b nlc) = Some q /\
    ((total_nl b > 25 -> ems q = tml :: E) /\ (total_nl b <= 25 -> ems q = E)).
Proof. exact too_many_lines_25. Qed.
Print Assumptions C03_too_many_lines_25.

(* Context.update pops every one-instruction control structure that holds its instruction, crediting each parent *)
Theorem C03_update_pops_chain : forall cs c H rest fuel hist,
  (match hist with x :: _ => str_in x update_skipped | [] => false end) = false ->
  Forall ready (c :: cs) -> bl H = false -> (List.length cs < fuel)%nat ->
  ctx_update (S fuel) hist (c :: cs ++ H :: rest) None = Some (add_lines H (sum_lines (c :: cs)) :: rest, None).
Proof. exact update_pops. Qed.
Print Assumptions C03_update_pops_chain.

Theorem C03_limits_tie : NV.Gen.Limits.limits_check_brace = [("context.scope.lines"%string, ">"%string, brace_limit)] /\
                         NV.Gen.Limits.limits_check_line_count = [("context.scope.lines"%string, ">"%string, line_count_limit)].
Proof. exact limits_tie. Qed.
Print Assumptions C03_limits_tie.

Theorem C03_nine_shapes_at_the_boundary :
  map (fun sh => (emitted_by (sh 25%nat), emitted_by (sh 26%nat))) shapes = repeat (Some ([], 1%nat), Some ([tml], 1%nat)) 9.
Proof. exact nine_shapes_at_the_boundary. Qed.
Print Assumptions C03_nine_shapes_at_the_boundary.
