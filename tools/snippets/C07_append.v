(* ---- nesting depth back at file level: scope-trace model (Model/ScopeTrace.v over Gen/ScopeOps.v) *)
From NV Require Import Model.ScopeBase Gen.ScopeOps Model.ScopeTrace Model.ScopeBody Proofs.ScopeTraceProofs.
Local Open Scope Z_scope.

(* after the closing brace of a function or user-defined type with a well-nested body the scope chain is [GlobalScope] again *)
Theorem C07_depth_back_at_file_level : forall g hs E o cls gap nlo b nlc,
  isglobal g -> opener_ok o cls -> last_ok hs -> gap_ok gap -> body b ->
  exists q g', run (mkstate [g] hs E) (block_of o gap nlo b nlc) = Some q /\ chain q = [g'] /\ isglobal g' /\ last_ok (hist q).
Proof. exact depth_back_at_file_level. Qed.
Print Assumptions C07_depth_back_at_file_level.

(* a whole file of skipped lines, plain statements, functions and user-defined types ends in the global scope *)
Theorem C07_file_ends_at_global : forall f, file f -> forall g hs E, isglobal g -> last_ok hs ->
  exists q g', run (mkstate [g] hs E) f = Some q /\ chain q = [g'] /\ isglobal g' /\ last_ok (hist q).
Proof. exact file_ends_at_global. Qed.
Print Assumptions C07_file_ends_at_global.

(* inside a function: every unit of a well-nested body leaves the chain below it untouched and the tower of brace-less
   structures above the stable scope empty *)
Theorem C07_units_and_bodies : (forall u, unit1 u -> P u) /\ (forall b, body b -> Q b).
Proof. exact units_and_bodies. Qed.
Print Assumptions C07_units_and_bodies.
