(* ---- 5 functions, 4 parameters, 5 variables: Gen/Counters.v (counting code translated from the source on every run),
   Model/CounterTrace.v (functions / vars on top of the scope-trace model), token-level model of the parameter counter *)
From NV Require Import Model.RuleChecks Model.CounterBase Gen.Counters Model.ScopeTrace Model.ScopeBody Model.CounterTrace
  Proofs.ScopeTraceProofs Proofs.CounterProofs.
Local Open Scope Z_scope.

(* along any file the counter is the number of IsFuncDeclaration matches; TOO_MANY_FUNCS exactly at the matches that bring it
   above the limit: k definitions give max(0, k - 5) diagnostics (prototypes, globals, user-defined types are other primaries) *)
Theorem C03_funcs_iff : forall f, file f ->
  exists q, crun cstate0 f = Some q /\ functions q = nfuncs f /\ fems q = tmf_list 0 f /\
    zlen (fems q) = Z.max 0 (nfuncs f - functions_limit).
Proof. exact funcs_iff. Qed.
Print Assumptions C03_funcs_iff.

Theorem C03_funcs_file : forall f, file f -> forall q, at_file_level q ->
  exists q', crun q f = Some q' /\ at_file_level q' /\
    functions q' = functions q + nfuncs f /\ fems q' = tmf_list (functions q) f ++ fems q.
Proof. exact funcs_file. Qed.
Print Assumptions C03_funcs_file.

(* a function that starts with the declarations nls: the counter starts at 0 for this function whatever came before, one
   TOO_MANY_VARS_FUNC for every declaration beyond the 5th *)
Theorem C03_vars_iff : forall q nl gap nlo nls rest nlc, at_file_level q -> cinv q -> gap_ok gap -> body rest ->
  forallb (fun x => negb (is_vdecl x)) rest = true ->
  exists q', crun q (block_of (s_func nl) gap nlo (map vdecl nls ++ rest) nlc) = Some q' /\
    vems q' = tmv_list 0 (map vdecl nls) ++ vems q /\
    zlen (tmv_list 0 (map vdecl nls)) = Z.max 0 (zlen nls - vars_limit) /\
    at_file_level q' /\ cinv q'.
Proof. exact vars_iff. Qed.
Print Assumptions C03_vars_iff.

(* the parameter counter on `name ( l ) tp ...`: 1 + the number of top-level commas of l (parenthesised groups are skipped
   whole, `(void)` and `()` count as one); TOO_MANY_ARGS, at the token after `)`, iff that exceeds 4 *)
Theorem C03_args_iff : forall pre name lp l n rp tp post scope v,
  t_type lp = ty_lpar -> t_type rp = ty_rpar -> plist l n ->
  check_func_decl_args (pre ++ name :: lp :: l ++ rp :: tp :: post) scope (zlen pre) v
  = Ok (args_start + n, zlen pre + 2 + zlen l + 1,
        if args_start + n >? args_limit then [(s "TOO_MANY_ARGS", t_line tp, t_col tp)] else []).
Proof. exact args_iff. Qed.
Print Assumptions C03_args_iff.

Theorem C03_skip_nest_group : forall pre o g c post, closer_of (t_type o) = Some (t_type c) -> bal g ->
  skip_nest (pre ++ o :: g ++ c :: post) (zlen pre) = Ok (zlen pre + 1 + zlen g).
Proof. exact skip_nest_group. Qed.
Print Assumptions C03_skip_nest_group.

Theorem C03_counter_limits_tie :
  NV.Gen.Limits.limits_check_functions_count = [("context.scope.functions"%string, ">"%string, functions_limit)] /\
  NV.Gen.Limits.limits_check_variable_declaration = [("context.scope.vars"%string, ">"%string, vars_limit)] /\
  NV.Gen.Limits.limits_check_func_declaration = [("arg"%string, ">"%string, args_limit)].
Proof. exact counter_limits_tie. Qed.
Print Assumptions C03_counter_limits_tie.

Theorem C03_counters_at_the_boundary :
  map (fun k => match crun cstate0 (file_of k) with Some q => Some (functions q, fems q) | None => None end) [5%nat; 6%nat; 8%nat]
  = [Some (5, []); Some (6, [tmf]); Some (8, [tmf; tmf; tmf])].
Proof. exact funcs_at_the_boundary. Qed.
Print Assumptions C03_counters_at_the_boundary.
