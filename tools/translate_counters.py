"""Gen/Counters.v (property C03: 5 functions, 4 parameters, 5 variables): the counting code of the three checks and
the increments in the primaries, read off the AST; every unknown shape raises (fail closed).

  * CheckFunctionsCount.run (complete)                  -> functions_count_run
  * IsFuncDeclaration.run: `context.scope.functions += 1` must sit in `run`, in a block that ends in `return True, ..`
    with no other return in between, and nowhere else in the class   -> func_decl_increment
  * CheckVariableDeclaration.run: the counting branch                -> var_decl_run
  * CheckFuncDeclaration.run: the statements from `i = context.fname_pos + 1` to `if arg > N: new_error(..)` translated
    statement by statement with the machinery of translate_rules.py (the loop becomes a Fixpoint on fuel, skip_nest is the
    hand-written, fingerprinted Model/CounterBase.skip_nest); the `NO_SPC_BFR_PAR` statement in between must not store to
    `i` or `arg` and is left out                                       -> check_func_decl_args
  * Scope.__init__ / GlobalScope.__init__ start values, every store to .functions / .vars in norminette/ -> tables."""
import ast
import glob
import os

from translate_rules import RulesError, MethodTr, parse, find_class, find_method, strip_doc, fingerprint, cstr, is_ctx_call, ctx_attr
from translate_scope import same, lit, fail


SKIP_NEST_PIN = "6f8a97de6ff5bc5ed3c6"


def tr_functions_count(repo):
    tree = parse(repo, "norminette/rules/check_functions_count.py")
    cls = find_class(tree, "CheckFunctionsCount")
    fn = find_method(cls, "run")
    body = strip_doc(fn.body)
    ok = len(body) == 2 and isinstance(body[1], ast.Return) and isinstance(body[0], ast.If) and not body[0].orelse and len(body[0].body) == 1
    if not ok:
        fail(fn, "CheckFunctionsCount.run")
    t = body[0].test
    if not (isinstance(t, ast.BoolOp) and isinstance(t.op, ast.And) and len(t.values) == 2 and same(t.values[0], "context.scope is not None", "expr")
            and isinstance(t.values[1], ast.Compare) and same(t.values[1].left, "context.scope.name", "expr") and isinstance(t.values[1].ops[0], ast.Eq)
            and isinstance(t.values[1].comparators[0], ast.Constant)):
        fail(t, "scope test of CheckFunctionsCount.run")
    e = body[0].body[0]
    if not (isinstance(e, ast.If) and not e.orelse and len(e.body) == 1 and isinstance(e.test, ast.Compare) and len(e.test.ops) == 1
            and isinstance(e.test.ops[0], ast.Gt) and same(e.test.left, "context.scope.functions", "expr")
            and isinstance(e.test.comparators[0], ast.Constant) and type(e.test.comparators[0].value) is int):
        fail(e, "limit test of CheckFunctionsCount.run")
    c = e.body[0]
    if not (isinstance(c, ast.Expr) and is_ctx_call(c.value, "new_error") and isinstance(c.value.args[0], ast.Constant)
            and same(c.value.args[1], "context.peek_token(0)", "expr")):
        fail(c, "emission of CheckFunctionsCount.run")
    dep = [n for n in cls.body if isinstance(n, ast.Assign) and same(n.targets[0], "depends_on", "expr")]
    if not (len(dep) == 1 and same(dep[0].value, "('IsFuncDeclaration',)", "expr")):
        fail(cls, "depends_on of CheckFunctionsCount")
    n = e.test.comparators[0].value
    return ("Definition functions_limit : Z := %d.\n"
            "Definition functions_count_run (name : str) (functions : Z) : list str :=\n"
            "  if str_eqb name %s then (if functions >? %d then [%s] else []) else [].\n" % (
                n, cstr(t.values[1].comparators[0].value), n, cstr(c.value.args[0].value)))


def tr_func_increment(repo):
    cls = find_class(parse(repo, "norminette/rules/is_func_declaration.py"), "IsFuncDeclaration")
    sites = []
    for fn in cls.body:
        if isinstance(fn, ast.FunctionDef):
            for n in ast.walk(fn):
                if isinstance(n, (ast.Assign, ast.AugAssign)):
                    tg = n.targets[0] if isinstance(n, ast.Assign) else n.target
                    if isinstance(tg, ast.Attribute) and tg.attr == "functions":
                        sites.append((fn, n))
    if len(sites) != 1 or sites[0][0].name != "run" or not same(sites[0][1], "context.scope.functions += 1"):
        fail(cls, "IsFuncDeclaration must count a function exactly once, in run, with `context.scope.functions += 1`")
    run, inc = sites[0]
    # the block that holds the increment ends in `return True, <x>` and has no return between
    holder = None
    for n in ast.walk(run):
        for a in ("body", "orelse"):
            blk = getattr(n, a, None)
            if isinstance(blk, list) and inc in blk:
                holder = blk
    if holder is None:
        fail(run, "increment not found in a block")
    k = holder.index(inc)
    last = holder[-1]
    if not (isinstance(last, ast.Return) and isinstance(last.value, ast.Tuple) and isinstance(last.value.elts[0], ast.Constant) and last.value.elts[0].value is True):
        fail(last, "the block that counts the function does not end in `return True, ..`")
    for st in holder[k + 1:-1]:
        for n in ast.walk(st):
            if isinstance(n, (ast.Return, ast.Raise, ast.Break, ast.Continue)):
                fail(st, "a way out between the increment and `return True`")
    # run starts with the global-scope guard
    body = strip_doc(run.body)
    if not same(body[0], "if type(context.scope) is not GlobalScope:\n    return False, 0"):
        fail(body[0], "IsFuncDeclaration.run does not start with the global-scope guard")
    return ("(* IsFuncDeclaration.run counts the function on the way to its only `return True` (and only there) *)\n"
            "Definition func_decl_increment : Z := 1.\n")


def tr_var_decl(repo):
    tree = parse(repo, "norminette/rules/check_variable_declaration.py")
    cls = find_class(tree, "CheckVariableDeclaration")
    fn = find_method(cls, "run")
    body = strip_doc(fn.body)
    first = None
    for st in body:
        if isinstance(st, ast.If):
            first = st
            break
        if not isinstance(st, ast.Assign) or not isinstance(st.targets[0], ast.Name):
            fail(st, "statement before the scope test of CheckVariableDeclaration.run")
    if first is None or not (isinstance(first.test, ast.Compare) and same(first.test.left, "context.scope.name", "expr")
                             and isinstance(first.test.ops[0], ast.Eq) and isinstance(first.test.comparators[0], ast.Constant)):
        fail(fn, "scope test of CheckVariableDeclaration.run")
    b = first.body
    if not (len(b) >= 2 and same(b[0], "context.scope.vars += 1") and isinstance(b[1], ast.If) and not b[1].orelse and len(b[1].body) == 1
            and isinstance(b[1].test, ast.Compare) and isinstance(b[1].test.ops[0], ast.Gt) and same(b[1].test.left, "context.scope.vars", "expr")
            and isinstance(b[1].test.comparators[0], ast.Constant) and type(b[1].test.comparators[0].value) is int):
        fail(first, "counting branch of CheckVariableDeclaration.run")
    c = b[1].body[0]
    if not (isinstance(c, ast.Expr) and is_ctx_call(c.value, "new_error") and isinstance(c.value.args[0], ast.Constant)):
        fail(c, "emission of CheckVariableDeclaration.run")
    stores = [n for n in ast.walk(fn) if isinstance(n, ast.Attribute) and n.attr == "vars" and isinstance(n.ctx, ast.Store)]
    if len(stores) != 1:
        fail(fn, "CheckVariableDeclaration.run stores scope.vars %d times" % len(stores))
    dep = [n for n in cls.body if isinstance(n, ast.Assign) and same(n.targets[0], "depends_on", "expr")]
    if not (len(dep) == 1 and same(dep[0].value, "('IsVarDeclaration',)", "expr")):
        fail(cls, "depends_on of CheckVariableDeclaration")
    n = b[1].test.comparators[0].value
    return ("Definition vars_limit : Z := %d.\n"
            "(* -> (scope.vars afterwards, codes) *)\n"
            "Definition var_decl_run (name : str) (vars : Z) : Z * list str :=\n"
            "  if str_eqb name %s then (let vars := vars + 1 in (vars, if vars >? %d then [%s] else [])) else (vars, []).\n" % (
                n, cstr(first.test.comparators[0].value), n, cstr(c.value.args[0].value)))


# ------------------------------------------------------------------------------------------------ the argument counter
class ArgsTop:
    kind = "top"

    def fall(self, tr):
        return "Ok (x_arg, x_i, E)"

    ret = fall

    def cont(self, tr):
        fail("continue", "continue outside a loop")

    brk = cont


class ArgsTr(MethodTr):
    def attribute(self, n, env):
        if ctx_attr(n, "fname_pos"):
            return ("fname_pos", "Z")
        return MethodTr.attribute(self, n, env)

    def assign(self, st, env, ctx, after, depth):
        # x = context.skip_nest(e): CParsingError when the nest is not closed
        if len(st.targets) == 1 and isinstance(st.targets[0], ast.Name) and is_ctx_call(st.value, "skip_nest") and len(st.value.args) == 1 \
                and not st.value.keywords:
            name = st.targets[0].id
            if env.get(name) != "Z":
                fail(st, "skip_nest result assigned to an unknown local")
            a, ta = self.ex(st.value.args[0], env)
            if ta != "Z":
                fail(st, "skip_nest position")
            return "bind (skip_nest toks %s) (fun %s =>\n%s)" % (a, self.cn(name), after(env))
        return MethodTr.assign(self, st, env, ctx, after, depth)


def stores_names(st, names):
    for n in ast.walk(st):
        if isinstance(n, ast.Name) and n.id in names and isinstance(n.ctx, ast.Store):
            return True
    return False


def tr_args(repo):
    tree = parse(repo, "norminette/rules/check_func_declaration.py")
    cls = find_class(tree, "CheckFuncDeclaration")
    fn = find_method(cls, "run")
    body = strip_doc(fn.body)
    k1 = k2 = None
    for k, st in enumerate(body):
        if same(st, "i = context.fname_pos + 1"):
            k1 = k
        if isinstance(st, ast.If) and isinstance(st.test, ast.Compare) and same(st.test.left, "arg", "expr") and isinstance(st.test.ops[0], ast.Gt) \
                and isinstance(st.test.comparators[0], ast.Constant) and type(st.test.comparators[0].value) is int and k2 is None and k1 is not None:
            k2 = k
    if k1 is None or k2 is None:
        fail(fn, "CheckFuncDeclaration.run: `i = context.fname_pos + 1` ... `if arg > N`")
    # before k1: arg is assigned exactly once, the integer constant; nothing else stores it
    init = [st for st in body[:k1] if stores_names(st, {"arg"})]
    if not (len(init) == 1 and isinstance(init[0], ast.Assign) and same(init[0].targets[0], "arg", "expr") and isinstance(init[0].value, ast.Constant)
            and type(init[0].value.value) is int):
        fail(fn, "the parameter counter must start from one integer constant")
    arg0 = init[0].value.value
    # returns before k1 only under the user-defined-type test
    for st in body[:k1]:
        for n in ast.walk(st):
            if isinstance(n, ast.Return) and not (isinstance(st, ast.If) and same(st.test, "context.history[-1] == 'IsUserDefinedType'", "expr")):
                fail(st, "a return before the parameter counter")
    # between: the statements that do not touch i / arg / deep are left out (they only emit spacing diagnostics)
    sl = []
    dropped = []
    for st in body[k1:k2 + 1]:
        if isinstance(st, ast.If) and st is not body[k2] and not stores_names(st, {"i", "arg", "deep"}) \
                and any(is_ctx_call(n, "new_error") and n.args[0].value == "NO_SPC_BFR_PAR" for n in ast.walk(st) if isinstance(n, ast.Call)):
            dropped.append(ast.unparse(st.test))
            continue
        sl.append(st)
    tr = ArgsTr("CheckFuncDeclaration", "check_func_decl_args", tree)
    tr.state = [("arg", "Z")]
    text_body = tr.block(sl, {"arg": "Z"}, ArgsTop(), None, 0)
    text = "".join(a + "\n" for a in tr.aux)
    text += ("Definition check_func_decl_args (toks : list token) (scope : Z) (fname_pos : Z) (v : view) : outcome (Z * Z * list em) :=\n"
             "let E : list em := [] in\nlet x_arg := (%d) in\n%s.\n" % (arg0, text_body))
    lim = body[k2].test.comparators[0].value
    dep = [n for n in cls.body if isinstance(n, ast.Assign) and same(n.targets[0], "depends_on", "expr")]
    deps = [e.value for e in dep[0].value.elts] if dep and isinstance(dep[0].value, ast.Tuple) else None
    if not deps:
        fail(cls, "depends_on of CheckFuncDeclaration")
    text += "Definition args_limit : Z := %d.\nDefinition args_start : Z := %d.\n" % (lim, arg0)
    text += "Definition args_codes : list str := [%s].\n" % "; ".join(cstr(c) for c in dict.fromkeys(tr.codes))
    text += "Definition args_left_out : list string := [%s].\n" % "; ".join(lit(d.replace('"', "'")) for d in dropped)
    text += "Definition func_declaration_depends : list str := [%s].\n" % "; ".join(cstr(d) for d in deps)
    return text


def tr_tables(repo):
    sc = parse(repo, "norminette/scope.py")
    init = find_method(find_class(sc, "Scope"), "__init__")
    if not any(same(st, "self.vars = 0") for st in init.body):
        fail(init, "Scope.__init__ does not start vars at 0")
    ginit = find_method(find_class(sc, "GlobalScope"), "__init__")
    if not any(same(st, "self.functions = 0") for st in ginit.body):
        fail(ginit, "GlobalScope.__init__ does not start functions at 0")
    ctx = parse(repo, "norminette/context.py")
    sn = find_method(find_class(ctx, "Context"), "skip_nest")
    if fingerprint(sn) != SKIP_NEST_PIN:
        raise RulesError("Context.skip_nest (modelled by hand in Model/CounterBase.v) changed: now %s" % fingerprint(sn))
    files = sorted(glob.glob(os.path.join(repo, "norminette", "rules", "*.py"))) + [os.path.join(repo, "norminette", x) for x in ("context.py", "registry.py", "scope.py")]
    rows = []
    for p in files:
        rel = os.path.relpath(p, repo)
        with open(p) as f:
            tree = ast.parse(f.read(), filename=p)
        for fn in [n for n in ast.walk(tree) if isinstance(n, ast.FunctionDef)]:
            for n in ast.walk(fn):
                if isinstance(n, (ast.Assign, ast.AugAssign)):
                    tg = n.targets[0] if isinstance(n, ast.Assign) else n.target
                    if isinstance(tg, ast.Attribute) and tg.attr in ("functions", "vars", "fname_pos"):
                        rows.append("%s:%s: %s" % (rel, fn.name, ast.unparse(n)))
    return ("Definition counters_start : Z := 0.\n"
            "Definition skip_nest_fingerprint : string := %s.\n"
            "Definition counter_write_sites : list string :=\n  [%s].\n" % (lit(fingerprint(sn)), ";\n   ".join(lit(r) for r in rows)))


def gen_counters(repo, L):
    return "".join(["From NV Require Import Model.Base Model.RuleChecks Model.CounterBase.\n",
                    "(* the three counters of C03, by tools/translate_counters.py *)\n\n",
                    "(* CheckFunctionsCount.run *)\n", tr_functions_count(repo), "\n", tr_func_increment(repo),
                    "\n(* CheckVariableDeclaration.run: the counting branch *)\n", tr_var_decl(repo),
                    "\n(* CheckFuncDeclaration.run: from `i = context.fname_pos + 1` to the limit test -> (arg, i, diagnostics) *)\n", tr_args(repo),
                    "\n(* start values, Context.skip_nest (modelled by hand), every store to the counters *)\n", tr_tables(repo)])


GENERATORS = {"Counters": gen_counters}


if __name__ == "__main__":
    import sys
    print(gen_counters(sys.argv[1] if len(sys.argv) > 1 else "/repo", {}))
