"""Gen/IsComment.v: the primary rules that decide the first statements of a file with a 42 header.

* IsComment.run (rules/is_comment.py) translated statement by statement into `iscomment_run : list token -> bool * Z`
  (what Registry.run_rules gets back: matched?, number of tokens of the statement);
* the PREFIX of IsPreprocessorStatement.run up to and including its first `return False, 0` - the only primary
  that Registry.run tries before IsComment (priority 100 > 90, Gen/Registry.v) - as
  `ispreproc_prefix : list token -> option (bool * Z)` (None = the method goes on past the prefix: not modelled).
  Python executes the method top-down, so the prefix is faithful whatever follows; the fingerprint of the whole
  method is emitted for information only;
* the fingerprint of Context.eol, which Model/EngineTok.v models by hand (skip_ws / check_token / peek_token are
  already pinned by tools/translate_rules.py).

The vocabulary (skip_ws, checkl, check1, is_true, truthy, eol) is Model/RuleChecks.v + Model/EngineTok0.v.
Fail closed: every statement or expression outside the tiny recognised subset raises."""
import ast

from pyexpr import TranslateError
from translate_rules import parse, find_class, find_method, strip_doc, fingerprint, cstr


def fail(node, why):
    raise TranslateError("%s at line %s: %s" % (why, getattr(node, "lineno", "?"), ast.unparse(node)[:120]))


def zexpr(e):
    """an index expression over the single local `i`"""
    if isinstance(e, ast.Name) and e.id == "i":
        return "i"
    if isinstance(e, ast.Constant) and type(e.value) is int:
        return "(%d)" % e.value
    if isinstance(e, ast.BinOp) and isinstance(e.op, ast.Add):
        return "(%s + %s)" % (zexpr(e.left), zexpr(e.right))
    fail(e, "index expression outside the subset")


def types_of(e):
    if isinstance(e, ast.Constant) and isinstance(e.value, str):
        return None, cstr(e.value)
    if isinstance(e, (ast.List, ast.Tuple)) and e.elts and all(isinstance(x, ast.Constant) and isinstance(x.value, str) for x in e.elts):
        return "[" + "; ".join(cstr(x.value) for x in e.elts) + "]", None
    fail(e, "token type argument outside the subset")


def check_call(e):
    """context.check_token(<idx>, <types>) -> the three-valued Gallina expression"""
    if not (isinstance(e, ast.Call) and ast.unparse(e.func) == "context.check_token" and len(e.args) == 2 and not e.keywords):
        fail(e, "expected context.check_token(...)")
    lst, one = types_of(e.args[1])
    if lst is not None:
        return "(checkl toks %s %s)" % (zexpr(e.args[0]), lst)
    return "(check1 toks %s %s)" % (zexpr(e.args[0]), one)


def cond(e):
    if isinstance(e, ast.UnaryOp) and isinstance(e.op, ast.Not):
        return "(negb %s)" % cond(e.operand)
    if isinstance(e, ast.BoolOp):
        return "(" + (" || " if isinstance(e.op, ast.Or) else " && ").join(cond(v) for v in e.values) + ")"
    if isinstance(e, ast.Compare) and len(e.ops) == 1 and isinstance(e.ops[0], ast.Is) and isinstance(e.comparators[0], ast.Constant) \
            and e.comparators[0].value is None and isinstance(e.left, ast.Call) and ast.unparse(e.left.func) == "context.peek_token" \
            and len(e.left.args) == 1 and not e.left.keywords:
        return "(is_none (peek toks %s))" % zexpr(e.left.args[0])
    if isinstance(e, ast.Compare) and len(e.ops) == 1 and isinstance(e.ops[0], ast.Is) and isinstance(e.comparators[0], ast.Constant):
        v = e.comparators[0].value
        if v is True:
            return "(is_true %s)" % check_call(e.left)
        if v is False:
            return "(is_false %s)" % check_call(e.left)
        fail(e, "comparison outside the subset")
    if isinstance(e, ast.Call):
        return "(truthy %s)" % check_call(e)          # truthiness of True / False / None
    fail(e, "condition outside the subset")


def ret(st, wrap):
    v = st.value
    if not (isinstance(v, ast.Tuple) and len(v.elts) == 2 and isinstance(v.elts[0], ast.Constant) and isinstance(v.elts[0].value, bool)):
        fail(st, "return value outside the subset")
    return wrap("(%s, %s)" % ("true" if v.elts[0].value else "false", zexpr(v.elts[1])))


def block(stmts, wrap, end):
    """stmts -> Gallina expression; `end` = what falling off the end of the translated part means"""
    if not stmts:
        return end
    st, rest = stmts[0], stmts[1:]
    if isinstance(st, ast.Return):
        return ret(st, wrap)
    if isinstance(st, ast.Assign) and len(st.targets) == 1:
        tg, v = st.targets[0], st.value
        if isinstance(tg, ast.Name) and tg.id == "i" and isinstance(v, ast.Call) and not v.keywords and len(v.args) == 1 \
                and ast.unparse(v.func) in ("context.skip_ws", "context.eol"):
            fn = {"context.skip_ws": "skip_ws", "context.eol": "eol"}[ast.unparse(v.func)]
            return "(let i := %s toks %s in\n  %s)" % (fn, zexpr(v.args[0]), block(rest, wrap, end))
        if isinstance(tg, ast.Attribute) and isinstance(tg.value, ast.Name) and tg.value.id == "self" \
                and isinstance(v, ast.Call) and ast.unparse(v.func) == "context.peek_token" and len(v.args) == 1:
            zexpr(v.args[0])                      # a token remembered on the rule object: no effect on the result
            return block(rest, wrap, end)
        if not (isinstance(tg, ast.Name) and tg.id == "i" and isinstance(v, ast.Constant) and type(v.value) is int):
            fail(st, "assignment outside the subset")
    if isinstance(st, ast.Assign) and len(st.targets) == 1 and isinstance(st.targets[0], ast.Name) and st.targets[0].id == "i" \
            and isinstance(st.value, ast.Constant) and type(st.value.value) is int:
        return "(let i := (%d) in\n  %s)" % (st.value.value, block(rest, wrap, end))
    if isinstance(st, ast.While) and not st.orelse and len(st.body) == 1 and isinstance(st.body[0], ast.AugAssign) \
            and ast.unparse(st.body[0]) == "i += 1":
        # `while C(i): i += 1`  (Model/RuleChecks.skip_while: ends at the latest at the end of the tokens)
        return "(let i := skip_while toks (fun i => %s) i in\n  %s)" % (cond(st.test), block(rest, wrap, end))
    if isinstance(st, ast.AugAssign) and isinstance(st.op, ast.Add) and isinstance(st.target, ast.Name) and st.target.id == "i":
        return "(let i := (i + %s) in\n  %s)" % (zexpr(st.value), block(rest, wrap, end))
    if isinstance(st, ast.If) and not st.orelse:
        return "(if %s\n  then %s\n  else %s)" % (cond(st.test), block(list(st.body) + rest, wrap, end), block(rest, wrap, end))
    fail(st, "statement outside the subset")


def method(repo, rel, cls, name="run"):
    c = find_class(parse(repo, rel), cls)
    fn = find_method(c, name)
    if [a.arg for a in fn.args.args] != ["self", "context"] or fn.args.vararg or fn.args.kwarg or fn.decorator_list:
        fail(fn, "signature of run")
    return c, fn


def self_reads(cls):
    """attributes of self that are READ somewhere in the class"""
    return {n.attr for n in ast.walk(cls) if isinstance(n, ast.Attribute) and isinstance(n.value, ast.Name)
            and n.value.id == "self" and isinstance(n.ctx, ast.Load)}


def gen_iscomment(repo, L):
    o = "From NV Require Import Model.Base Model.RuleChecks Model.EngineTok0.\n\n"
    # ---- IsComment.run, whole
    cls, fn = method(repo, "norminette/rules/is_comment.py", "IsComment")
    if len(cls.body) != 1:
        raise TranslateError("IsComment: unexpected class body")
    body = strip_doc(fn.body)
    if not body or not isinstance(body[-1], ast.Return):
        raise TranslateError("IsComment.run does not end with a return")
    o += "(* IsComment.run  (ast fingerprint %s) *)\n" % fingerprint(fn)
    o += "Definition iscomment_run (toks : list token) : bool * Z :=\n  %s.\n\n" % block(body, lambda x: x, "(false, (0))")
    # ---- IsPreprocessorStatement.run, up to and including the first `return False, 0`
    cls2, fn2 = method(repo, "norminette/rules/is_preprocessor_statement.py", "IsPreprocessorStatement")
    body2 = strip_doc(fn2.body)
    k = None
    for j, st in enumerate(body2):
        if isinstance(st, ast.If) and not st.orelse and len(st.body) == 1 and isinstance(st.body[0], ast.Return) \
                and ast.unparse(st.body[0].value) in ("(False, 0)", "False, 0"):
            k = j
            break
    if k is None:
        raise TranslateError("IsPreprocessorStatement.run: no top-level `if ...: return False, 0` found")
    o += "(* IsPreprocessorStatement.run, statements 1..%d  (fingerprint of the whole method, for information: %s) *)\n" % (
        k + 1, fingerprint(fn2))
    o += "Definition ispreproc_prefix (toks : list token) : option (bool * Z) :=\n  %s.\n\n" % block(
        body2[:k + 1], lambda x: "(Some %s)" % x, "None")
    # ---- the helper modelled by hand in Model/EngineTok0.v
    ctx = find_class(parse(repo, "norminette/context.py"), "Context")
    o += "Definition eol_fingerprint : string := \"%s\"%%string.\n" % fingerprint(find_method(ctx, "eol"))
    # ---- what Registry.run does with a primary: scope filter, first match wins (pinned text of the loop head)
    reg = find_method(find_class(parse(repo, "norminette/registry.py"), "Registry"), "run")
    loops = [n for n in ast.walk(reg) if isinstance(n, ast.For) and ast.unparse(n.iter) == "rules.primaries"]
    if len(loops) != 1:
        raise TranslateError("Registry.run: the loop over rules.primaries was not found")
    lp = loops[0]
    if len(lp.body) != 3 or not isinstance(lp.body[2], ast.If) or not isinstance(lp.body[2].body[-1], ast.Break):
        raise TranslateError("Registry.run: unexpected body of the loop over rules.primaries")
    pops = [ast.unparse(x) for x in lp.body[2].body if isinstance(x, ast.Expr) and "pop_tokens" in ast.unparse(x)]
    head = [ast.unparse(x) for x in lp.body[:2]] + ["if " + ast.unparse(lp.body[2].test) + ": ... " + "; ".join(pops) + "; break"]
    o += "Definition registry_primary_loop : list string := [%s].\n" % "; ".join(
        '"%s"%%string' % h.replace("\n", " ").replace('"', '""') for h in head)
    return o


def gen_isemptyline(repo, L):
    """IsEmptyLine.run (rules/is_empty_line.py), whole, and the primaries Registry.run tries before it"""
    o = "From NV Require Import Model.Base Model.RuleChecks Model.EngineTok0.\n\n"
    cls, fn = method(repo, "norminette/rules/is_empty_line.py", "IsEmptyLine")
    if len(cls.body) != 1:
        raise TranslateError("IsEmptyLine: unexpected class body")
    body = strip_doc(fn.body)
    if not body or not isinstance(body[-1], ast.Return):
        raise TranslateError("IsEmptyLine.run does not end with a return")
    o += "(* IsEmptyLine.run  (ast fingerprint %s) *)\n" % fingerprint(fn)
    o += "Definition isemptyline_run (toks : list token) : bool * Z :=\n  %s.\n" % block(body, lambda x: x, "(false, (0))")
    return o


def _closed(fn):
    def g(repo, L):
        try:
            return fn(repo, L)
        except (TranslateError, SyntaxError, OSError, KeyError):
            raise
        except Exception as e:  # noqa
            raise TranslateError("%s: %s" % (type(e).__name__, e))
    return g


GENERATORS = {"IsComment": _closed(gen_iscomment), "IsEmptyLine": _closed(gen_isemptyline)}
