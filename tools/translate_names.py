"""Gen/NameChecks.v (property C02, third batch): CheckIdentifierName.run and CheckComment.run (+ its helper is_last_token and the
two direct tests of is_inside_a_function) read off the AST statement by statement against the shapes below; every statement must
match its shape exactly (constants - codes, rule names, token types, the legal characters - are extracted), anything else raises
(fail closed).  The history scan at the end of CheckComment.is_inside_a_function is modelled by hand (Model/NameBase.v) and pinned
here by its normalised AST fingerprint.

  CheckIdentifierName.run:
      legal_characters = string.ascii_lowercase + string.digits + "_"
      if context.history[-1] == <R>:
          sc = context.scope
          if type(sc) is not GlobalScope and type(sc) is not UserDefinedType: context.new_error(<C1>, context.peek_token(0))
          while type(sc) != GlobalScope: sc = sc.outer()
          for c in sc.fnames[-1]:
              if c not in legal_characters: context.new_error(<C2>, context.peek_token(context.fname_pos))
      if len(context.scope.vars_name) > 0:
          for val in context.scope.vars_name[::]:
              for c in val.value:
                  if c not in legal_characters: context.new_error(<C3>, val); break
              context.scope.vars_name.remove(val)
      return False, 0
  CheckComment.run / is_last_token / is_inside_a_function: see tr_comment."""
import ast
import string

from translate_rules import RulesError, parse, find_class, find_method, strip_doc, fingerprint, cstr
from translate_scope import same, lit


def fail(node, why):
    raise RulesError("%s at line %s: %s" % (why, getattr(node, "lineno", "?"), ast.dump(node)[:200] if isinstance(node, ast.AST) else node))


def const_str(n):
    return n.value if isinstance(n, ast.Constant) and isinstance(n.value, str) else None


def new_error_call(st, arg_src):
    """`context.new_error(<code>, <arg_src>)` -> code"""
    if isinstance(st, ast.Expr) and isinstance(st.value, ast.Call) and same(st.value.func, "context.new_error", "expr") \
            and len(st.value.args) == 2 and not st.value.keywords and const_str(st.value.args[0]) is not None and same(st.value.args[1], arg_src, "expr"):
        return st.value.args[0].value
    return None


def str_tuple(n):
    if isinstance(n, (ast.Tuple, ast.List)) and n.elts and all(const_str(e) is not None for e in n.elts):
        return [e.value for e in n.elts]
    return None


# ------------------------------------------------------------------------------------------------ CheckIdentifierName
def tr_identifier(repo):
    tree = parse(repo, "norminette/rules/check_identifier_name.py")
    cls = find_class(tree, "CheckIdentifierName")
    if any(isinstance(n, ast.Assign) and same(n.targets[0], "depends_on", "expr") for n in cls.body):
        fail(cls, "CheckIdentifierName got a depends_on: it is modelled as a `_rule` check")
    if not any(isinstance(n, ast.Import) and any(a.name == "string" and a.asname is None for a in n.names) for n in tree.body):
        fail(tree, "`string` is not the library module")
    fn = find_method(cls, "run")
    body = strip_doc(fn.body)
    if len(body) != 4:
        fail(fn, "CheckIdentifierName.run: four statements")
    s0, s1, s2, s3 = body
    # legal_characters = string.X + string.Y + "..."
    if not (isinstance(s0, ast.Assign) and same(s0.targets[0], "legal_characters", "expr")):
        fail(s0, "legal_characters")

    def legal(n):
        if isinstance(n, ast.BinOp) and isinstance(n.op, ast.Add):
            return legal(n.left) + legal(n.right)
        if const_str(n) is not None:
            return n.value
        if isinstance(n, ast.Attribute) and isinstance(n.value, ast.Name) and n.value.id == "string" and n.attr in ("ascii_lowercase", "ascii_uppercase", "digits", "ascii_letters"):
            return getattr(string, n.attr)
        fail(n, "part of legal_characters")
    chars = legal(s0.value)
    # the function-name branch
    ok = isinstance(s1, ast.If) and not s1.orelse and isinstance(s1.test, ast.Compare) and same(s1.test.left, "context.history[-1]", "expr") \
        and isinstance(s1.test.ops[0], ast.Eq) and const_str(s1.test.comparators[0]) is not None and len(s1.body) == 4
    if not ok:
        fail(s1, "function-name branch")
    rule = s1.test.comparators[0].value
    b0, b1, b2, b3 = s1.body
    if not same(b0, "sc = context.scope"):
        fail(b0, "sc = context.scope")
    c1 = new_error_call(b1.body[0], "context.peek_token(0)") if isinstance(b1, ast.If) and not b1.orelse and len(b1.body) == 1 \
        and same(b1.test, "type(sc) is not GlobalScope and type(sc) is not UserDefinedType", "expr") else None
    if c1 is None:
        fail(b1, "scope test of the function-name branch")
    if not same(b2, "while type(sc) != GlobalScope:\n    sc = sc.outer()"):
        fail(b2, "walk to the global scope")
    c2 = None
    if isinstance(b3, ast.For) and not b3.orelse and same(b3.target, "c", "expr") and same(b3.iter, "sc.fnames[-1]", "expr") and len(b3.body) == 1 \
            and isinstance(b3.body[0], ast.If) and not b3.body[0].orelse and same(b3.body[0].test, "c not in legal_characters", "expr") and len(b3.body[0].body) == 1:
        c2 = new_error_call(b3.body[0].body[0], "context.peek_token(context.fname_pos)")
    if c2 is None:
        fail(b3, "loop over the function name")
    # the variables branch
    c3 = None
    if isinstance(s2, ast.If) and not s2.orelse and same(s2.test, "len(context.scope.vars_name) > 0", "expr") and len(s2.body) == 1:
        f = s2.body[0]
        if isinstance(f, ast.For) and not f.orelse and same(f.target, "val", "expr") and same(f.iter, "context.scope.vars_name[:]", "expr") and len(f.body) == 2 \
                and same(f.body[1], "context.scope.vars_name.remove(val)"):
            g = f.body[0]
            if isinstance(g, ast.For) and not g.orelse and same(g.target, "c", "expr") and same(g.iter, "val.value", "expr") and len(g.body) == 1 \
                    and isinstance(g.body[0], ast.If) and not g.body[0].orelse and same(g.body[0].test, "c not in legal_characters", "expr") \
                    and len(g.body[0].body) == 2 and isinstance(g.body[0].body[1], ast.Break):
                c3 = new_error_call(g.body[0].body[0], "val")
    if c3 is None:
        fail(s2, "variables branch")
    if not same(s3, "return False, 0"):
        fail(s3, "final return")
    imp = any(isinstance(n, ast.ImportFrom) and n.module == "norminette.scope" and {"GlobalScope", "UserDefinedType"} <= {a.name for a in n.names} for n in tree.body)
    if not imp:
        fail(tree, "GlobalScope / UserDefinedType are not the scope classes")
    return ("Definition ident_legal : str := %s.\n"
            "Definition ident_func_rule : str := %s.\n"
            "(* last = context.history[-1]; glob / udt = type(context.scope) is GlobalScope / UserDefinedType; fname = the last entry of the\n"
            "   global scope's fnames (None: empty -> IndexError); vars = context.scope.vars_name as (value, line, column).\n"
            "   -> the diagnostics; scope.vars_name is empty afterwards (every entry is removed) *)\n"
            "Definition check_identifier_name (toks : list token) (last : str) (glob udt : bool) (fname : option str) (fname_pos : Z)\n"
            "    (vars : list (str * Z * Z)) : outcome (list em) :=\n"
            "  bind (if str_eqb last ident_func_rule then\n"
            "          bind (if negb glob && negb udt then emit %s (peek toks 0) [] else Ok []) (fun E =>\n"
            "          match fname with\n"
            "          | None => Crash IndexError\n"
            "          | Some f => emit_each %s (peek toks fname_pos) (filter (fun c => negb (chr_in c ident_legal)) f) E\n"
            "          end)\n"
            "        else Ok [])\n"
            "    (fun E => Ok (E ++ flat_map (fun x => if existsb (fun c => negb (chr_in c ident_legal)) (fst (fst x))\n"
            "                                       then [(%s, snd (fst x), snd x)] else []) vars)).\n"
            "Definition check_identifier_name_codes : list str := [%s; %s; %s].\n" % (
                cstr(chars), cstr(rule), cstr(c1), cstr(c2), cstr(c3), cstr(c1), cstr(c2), cstr(c3)))


# ------------------------------------------------------------------------------------------------ CheckComment
def tr_comment(repo):
    tree = parse(repo, "norminette/rules/check_comment.py")
    cls = find_class(tree, "CheckComment")
    if any(isinstance(n, ast.Assign) and same(n.targets[0], "depends_on", "expr") for n in cls.body):
        fail(cls, "CheckComment got a depends_on: it is modelled as a `_rule` check")
    run = find_method(cls, "run")
    body = strip_doc(run.body)
    if len(body) != 4:
        fail(run, "CheckComment.run: four statements")
    if not same(body[0], "i = context.skip_ws(0)") or not same(body[1], "tokens = []"):
        fail(body[0], "start of CheckComment.run")
    w = body[2]
    if not (isinstance(w, ast.While) and not w.orelse and same(w.test, "context.peek_token(i) and not context.check_token(i, 'NEWLINE')", "expr")
            and len(w.body) == 3 and same(w.body[0], "token = context.peek_token(i)") and same(w.body[1], "tokens.append(token)") and same(w.body[2], "i += 1")):
        fail(w, "collecting loop of CheckComment.run")
    f = body[3]
    if not (isinstance(f, ast.For) and not f.orelse and same(f.target, "(index, token)", "expr") and same(f.iter, "enumerate(tokens)", "expr") and len(f.body) == 1):
        fail(f, "loop over the collected tokens")
    g = f.body[0]
    types = None
    if isinstance(g, ast.If) and not g.orelse and isinstance(g.test, ast.Compare) and same(g.test.left, "token.type", "expr") and isinstance(g.test.ops[0], ast.In):
        types = str_tuple(g.test.comparators[0])
    if not types or len(g.body) != 3:
        fail(g, "comment test")
    a, b, c = g.body
    c1 = new_error_call(a.body[0], "token") if isinstance(a, ast.If) and not a.orelse and len(a.body) == 1 and same(a.test, "self.is_inside_a_function(context)", "expr") else None
    if c1 is None:
        fail(a, "WRONG_SCOPE_COMMENT statement")
    if not same(b, "if index == 0 or self.is_last_token(token, tokens[index + 1:]):\n    continue"):
        fail(b, "first / last test")
    c2 = new_error_call(c, "token")
    if c2 is None:
        fail(c, "COMMENT_ON_INSTR statement")
    # is_last_token: the value is that of the final `return all(it.type in (...) for it in foward)`
    ilt = find_method(cls, "is_last_token")
    if [x.arg for x in ilt.args.args] != ["self", "token", "foward"]:
        fail(ilt, "signature of is_last_token")
    ret = strip_doc(ilt.body)[-1]
    last_types = None
    if isinstance(ret, ast.Return) and isinstance(ret.value, ast.Call) and same(ret.value.func, "all", "expr") and len(ret.value.args) == 1 \
            and isinstance(ret.value.args[0], ast.GeneratorExp):
        ge = ret.value.args[0]
        if len(ge.generators) == 1 and same(ge.generators[0].target, "it", "expr") and same(ge.generators[0].iter, "foward", "expr") and not ge.generators[0].ifs \
                and isinstance(ge.elt, ast.Compare) and same(ge.elt.left, "it.type", "expr") and isinstance(ge.elt.ops[0], ast.In):
            last_types = str_tuple(ge.elt.comparators[0])
    if not last_types:
        fail(ret, "is_last_token")
    for st in strip_doc(ilt.body)[:-1]:
        for n in ast.walk(st):
            if isinstance(n, (ast.Return, ast.Call)) and not (isinstance(n, ast.Call) and False):
                if isinstance(n, ast.Return):
                    fail(st, "an earlier return in is_last_token")
    # is_inside_a_function: two direct tests, then the history scan (by hand, pinned)
    iif = find_method(cls, "is_inside_a_function")
    ib = strip_doc(iif.body)
    t1 = ib[0]
    pair = None
    if isinstance(t1, ast.If) and not t1.orelse and len(t1.body) == 1 and same(t1.body[0], "return True") and isinstance(t1.test, ast.Compare) \
            and same(t1.test.left, "context.history[-2:]", "expr") and isinstance(t1.test.ops[0], ast.Eq):
        pair = str_tuple(t1.test.comparators[0])
    if not pair or len(pair) != 2:
        fail(t1, "first test of is_inside_a_function")
    t2 = ib[1]
    cname = None
    if isinstance(t2, ast.If) and not t2.orelse and len(t2.body) == 1 and same(t2.body[0], "return True") and isinstance(t2.test, ast.Compare) \
            and same(t2.test.left, "context.scope.__class__.__name__.lower()", "expr") and isinstance(t2.test.ops[0], ast.Eq):
        cname = const_str(t2.test.comparators[0])
    if cname is None:
        fail(t2, "second test of is_inside_a_function")
    scan = ast.Module(body=ib[2:], type_ignores=[])
    fp = fingerprint(scan)
    if fp != SCAN_PIN:
        raise RulesError("the history scan of CheckComment.is_inside_a_function (modelled by hand in Model/NameBase.v) changed: now %s" % fp)
    return ("Definition comment_types : list str := [%s].\n"
            "Definition comment_trailing_ok : list str := [%s].\n"
            "Definition comment_func_pair : list str := [%s].\n"
            "Definition comment_func_class : str := %s.\n"
            "(* is_inside_a_function: hist newest first; cls_lower = type(context.scope).__name__.lower() *)\n"
            "Definition comment_inside_function (hist : list str) (cls_lower : str) : bool :=\n"
            "  strs_eqb (rev (firstn 2 hist)) comment_func_pair || str_eqb cls_lower comment_func_class || inside_function_scan hist.\n"
            "(* is_last_token(token, foward) *)\n"
            "Definition comment_is_last (forward : list token) : bool := forallb (fun it => str_in (t_type it) comment_trailing_ok) forward.\n"
            "(* run: the tokens of the first line of the statement after its blanks; for each comment among them *)\n"
            "Fixpoint comment_scan (inside : bool) (first : bool) (l : list token) : list em :=\n"
            "  match l with\n  | [] => []\n  | t :: r =>\n"
            "      (if str_in (t_type t) comment_types\n"
            "       then (if inside then [(%s, t_line t, t_col t)] else []) ++\n"
            "            (if first || comment_is_last r then [] else [(%s, t_line t, t_col t)])\n"
            "       else []) ++ comment_scan inside false r\n  end.\n"
            "Definition check_comment (toks : list token) (hist : list str) (cls_lower : str) : list em :=\n"
            "  comment_scan (comment_inside_function hist cls_lower) true (collect_line toks (skip_ws toks 0)).\n"
            "Definition check_comment_codes : list str := [%s; %s].\n"
            "Definition comment_scan_fingerprint : string := %s.\n" % (
                "; ".join(cstr(x) for x in types), "; ".join(cstr(x) for x in last_types), "; ".join(cstr(x) for x in pair), cstr(cname),
                cstr(c1), cstr(c2), cstr(c1), cstr(c2), lit(fp)))


SCAN_PIN = "011588dbaf448e717a66"


def gen_names(repo, L):
    return "".join(["From NV Require Import Model.Base Model.RuleChecks Model.NameBase.\n",
                    "(* third batch, by tools/translate_names.py *)\n\n(* CheckIdentifierName.run *)\n", tr_identifier(repo),
                    "\n(* CheckComment.run, is_last_token, is_inside_a_function *)\n", tr_comment(repo)])


GENERATORS = {"NameChecks": gen_names}


if __name__ == "__main__":
    import sys
    if len(sys.argv) > 2 and sys.argv[2] == "--pin":
        tree = parse(sys.argv[1], "norminette/rules/check_comment.py")
        ib = strip_doc(find_method(find_class(tree, "CheckComment"), "is_inside_a_function").body)
        print(fingerprint(ast.Module(body=ib[2:], type_ignores=[])))
    else:
        print(gen_names(sys.argv[1] if len(sys.argv) > 1 else "/repo", {}))
