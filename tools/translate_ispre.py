"""Gen/IsPreproc.v (property C14, file level): the MATCHER of IsPreprocessorStatement - what `run` returns
(True/False, jump) - for the directives ifndef / define / endif, translated statement by statement:
`run` (whole method, dispatch `getattr(self, f"check_{direc}")` resolved over the translated check_* methods),
check_ifndef, check_define, check_endif, _just_identifier, _just_eol, _just_token_string.

Result type option (bool * Z): Some (b, jump) = the method returns (b, jump); None = NOT DECIDED by the translation:
a `raise`, a loop (`while`: function-like macros, multi-line token strings), or a directive whose check_* method is not
translated.  Statements that only have effects on the context (new_error, preproc counters, macros.append, self.hash)
do not influence the returned pair and are skipped - each skipped shape is matched exactly, anything else raises
(fail closed).  corresponding_endif is only used as the test of such an effect-only `if`; it is checked to be free of
assignments to attributes and pinned by fingerprint."""
import ast
import hashlib
import os

from pyexpr import coq_str

WANTED = ("ifndef", "define", "endif")


class E(SyntaxError):
    pass


def fail(n, why):
    raise E("%s at line %s: %s" % (why, getattr(n, "lineno", "?"), ast.dump(n)[:140] if isinstance(n, ast.AST) else n))


def is_ctx(n, name):
    return (isinstance(n, ast.Call) and isinstance(n.func, ast.Attribute) and n.func.attr == name
            and isinstance(n.func.value, ast.Name) and n.func.value.id == "context")


def strip_doc(body):
    if body and isinstance(body[0], ast.Expr) and isinstance(body[0].value, ast.Constant) and isinstance(body[0].value.value, str):
        return body[1:]
    return body


class Tr:
    """env: python name -> (kind, coq) with kind in Z / bool / str / tok / opaque"""
    def __init__(self, helpers):
        self.helpers = helpers          # python method name -> coq function name (already translated)
        self.n = 0

    def fresh(self, base):
        self.n += 1
        return "%s_%d" % (base, self.n)

    # ---------------- expressions
    def z(self, n, env):
        if isinstance(n, ast.Constant) and isinstance(n.value, int) and not isinstance(n.value, bool):
            return "(%d)" % n.value
        if isinstance(n, ast.Name) and env.get(n.id, ("",))[0] == "Z":
            return env[n.id][1]
        if isinstance(n, ast.BinOp) and isinstance(n.op, ast.Add):
            return "(%s + %s)" % (self.z(n.left, env), self.z(n.right, env))
        if is_ctx(n, "skip_ws") and len(n.args) == 1:
            kw = {k.arg: k.value.value for k in n.keywords if isinstance(k.value, ast.Constant)}
            if len(kw) != len(n.keywords):
                fail(n, "skip_ws keyword")
            if not kw:
                return "(skip_ws toks %s)" % self.z(n.args[0], env)
            if kw == {"comment": True}:
                return "(skip_ws_c toks %s)" % self.z(n.args[0], env)
        fail(n, "integer expression")

    def tok(self, n, env):
        if isinstance(n, ast.Name) and env.get(n.id, ("",))[0] == "tok":
            return env[n.id][1]
        if is_ctx(n, "peek_token") and len(n.args) == 1 and not n.keywords:
            return "(peek toks %s)" % self.z(n.args[0], env)
        fail(n, "token expression")

    def s(self, n, env):
        if isinstance(n, ast.Constant) and isinstance(n.value, str):
            return coq_str(n.value)
        if isinstance(n, ast.Name) and env.get(n.id, ("",))[0] == "str":
            return env[n.id][1]
        if isinstance(n, ast.Attribute) and n.attr in ("type", "value"):
            return "(o%s %s)" % (n.attr, self.tok(n.value, env))
        if isinstance(n, ast.IfExp):
            return "(if %s then %s else %s)" % (self.b(n.test, env), self.s(n.body, env), self.s(n.orelse, env))
        if isinstance(n, ast.Call) and isinstance(n.func, ast.Attribute) and n.func.attr == "lower" and not n.args and not n.keywords:
            return "(py_lower %s)" % self.s(n.func.value, env)
        fail(n, "string expression")

    def b(self, n, env):
        if isinstance(n, ast.Constant) and isinstance(n.value, bool):
            return "true" if n.value else "false"
        if isinstance(n, ast.Name) and env.get(n.id, ("",))[0] == "bool":
            return env[n.id][1]
        if isinstance(n, ast.UnaryOp) and isinstance(n.op, ast.Not):
            return "(negb %s)" % self.b(n.operand, env)
        if isinstance(n, ast.BoolOp):
            return "(" + (" && " if isinstance(n.op, ast.And) else " || ").join(self.b(v, env) for v in n.values) + ")"
        if is_ctx(n, "check_token") and len(n.args) == 2 and not n.keywords:      # used as a truth value: None is falsy
            a = n.args[1]
            if isinstance(a, ast.Constant) and isinstance(a.value, str):
                return "(truthy (check1 toks %s %s))" % (self.z(n.args[0], env), coq_str(a.value))
            if isinstance(a, ast.Tuple) and all(isinstance(e, ast.Constant) and isinstance(e.value, str) for e in a.elts):
                return "(truthy (checkl toks %s [%s]))" % (self.z(n.args[0], env), "; ".join(coq_str(e.value) for e in a.elts))
            fail(n, "check_token argument")
        if isinstance(n, ast.Compare) and len(n.ops) == 1:
            op, a, c = n.ops[0], n.left, n.comparators[0]
            if isinstance(op, (ast.Is, ast.IsNot)) and isinstance(c, ast.Constant) and c.value is None:
                r = "(is_none %s)" % self.tok(a, env)
                return r if isinstance(op, ast.Is) else "(negb %s)" % r
            if isinstance(op, (ast.Eq, ast.NotEq)):
                r = "(str_eqb %s %s)" % (self.s(a, env), self.s(c, env))
                return r if isinstance(op, ast.Eq) else "(negb %s)" % r
        fail(n, "condition")

    # ---------------- statements
    def effect_only(self, st):
        """statements that cannot influence the returned pair; matched shape by shape"""
        if isinstance(st, ast.Expr):
            v = st.value
            if is_ctx(v, "new_error"):
                return True
            if isinstance(v, ast.Call) and ast.unparse(v.func) == "context.preproc.macros.append":
                return True
        if isinstance(st, ast.AugAssign) and isinstance(st.target, ast.Attribute) and ast.unparse(st.target).startswith("context.preproc.") \
                and isinstance(st.value, ast.Constant):
            return True
        if isinstance(st, ast.Assign) and len(st.targets) == 1 and ast.unparse(st.targets[0]) == "self.hash" \
                and is_ctx(st.value, "peek_token"):
            return True
        if isinstance(st, ast.If) and not st.orelse and all(isinstance(x, ast.Expr) and is_ctx(x.value, "new_error") for x in st.body):
            t = ast.unparse(st.test)
            if t in ("not self.corresponding_endif(context, index)", "context.preproc.indent == 0"):
                return True
        return False

    def returns(self, stmts):
        if not stmts:
            return False
        last = stmts[-1]
        if isinstance(last, (ast.Return, ast.Raise, ast.While, ast.For)):
            return True
        if isinstance(last, ast.If):
            return self.returns(last.body) and bool(last.orelse) and self.returns(last.orelse)
        return False

    def call_helper(self, v, env):
        """self._just_x("name", context, index) / self._just_x(..) -> coq application"""
        if isinstance(v, ast.Call) and isinstance(v.func, ast.Attribute) and isinstance(v.func.value, ast.Name) \
                and v.func.value.id == "self" and v.func.attr in self.helpers and not v.keywords:
            args = v.args
            if len(args) == 3 and (isinstance(args[0], ast.Constant) or (isinstance(args[0], ast.Name) and args[0].id == "directive")) and isinstance(args[1], ast.Name) and args[1].id == "context":
                return "(%s toks %s)" % (self.helpers[v.func.attr], self.z(args[2], env))
        return None

    def body(self, stmts, env, ind, dispatch=None):
        pad = "  " * ind
        if not stmts:
            raise E("a path ends without return")
        st, rest = stmts[0], stmts[1:]
        if self.effect_only(st):
            return self.body(rest, env, ind, dispatch)
        if isinstance(st, (ast.Raise, ast.While, ast.For)):
            return pad + "None"                                   # not decided here
        if isinstance(st, ast.Return):
            v = st.value
            h = self.call_helper(v, env)
            if h:
                return pad + h
            if isinstance(v, ast.Tuple) and len(v.elts) == 2 and isinstance(v.elts[0], ast.Constant) and isinstance(v.elts[0].value, bool):
                return pad + "Some (%s, %s)" % ("true" if v.elts[0].value else "false", self.z(v.elts[1], env))
            fail(st, "return value")
        if isinstance(st, ast.If):
            t = st.test
            env2 = dict(env)
            pre = ""
            if isinstance(t, ast.NamedExpr):
                # the dispatch of run(), or a boolean remembered for later
                if dispatch is not None and ast.unparse(t.value) == "getattr(self, f'check_{direc}', None)" and isinstance(t.target, ast.Name):
                    if not (len(st.body) == 1 and isinstance(st.body[0], ast.Return) and isinstance(st.body[0].value, ast.Call)
                            and isinstance(st.body[0].value.func, ast.Name) and st.body[0].value.func.id == t.target.id
                            and len(st.body[0].value.args) == 2 and not st.orelse):
                        fail(st, "dispatch shape")
                    idx = self.z(st.body[0].value.args[1], env)
                    d = env["direc"][1]
                    out = ""
                    for name, fn in dispatch:
                        out += "%sif str_eqb %s %s then %s toks %s else\n" % (pad, d, coq_str(name), fn, idx)
                    return out + pad + "None"                      # other directives / unknown directive (raise): not decided
                if isinstance(t.target, ast.Name):
                    nm = self.fresh("b_" + t.target.id)
                    pre = "%slet %s := %s in\n" % (pad, nm, self.b(t.value, env))
                    env2[t.target.id] = ("bool", nm)
                    cond = nm
                else:
                    fail(st, "walrus target")
            else:
                cond = self.b(t, env)
            thn = self.body(st.body if self.returns(st.body) else st.body + rest, dict(env2), ind + 1, dispatch)
            els_s = st.orelse if (st.orelse and self.returns(st.orelse)) else st.orelse + rest
            els = self.body(els_s, dict(env2), ind + 1, dispatch)
            return "%s%sif %s then\n%s\n%selse\n%s" % (pre, pad, cond, thn, pad, els)
        if isinstance(st, ast.AugAssign) and isinstance(st.target, ast.Name) and isinstance(st.op, ast.Add) \
                and env.get(st.target.id, ("",))[0] == "Z":
            nm = self.fresh(st.target.id)
            env = dict(env)
            e = "(%s + %s)" % (env[st.target.id][1], self.z(st.value, env))
            env[st.target.id] = ("Z", nm)
            return "%slet %s := %s in\n%s" % (pad, nm, e, self.body(rest, env, ind, dispatch))
        if isinstance(st, ast.Assign) and len(st.targets) == 1 and isinstance(st.targets[0], ast.Name):
            tg, v = st.targets[0].id, st.value
            env = dict(env)
            if isinstance(v, ast.Call) and ast.unparse(v.func) == "Macro.from_token":
                env[tg] = ("opaque", None)
                return self.body(rest, env, ind, dispatch)
            for kind, f in (("tok", self.tok), ("Z", self.z), ("str", self.s), ("bool", self.b)):
                try:
                    e = f(v, env)
                except E:
                    continue
                nm = self.fresh(tg)
                env[tg] = (kind, nm)
                return "%slet %s := %s in\n%s" % (pad, nm, e, self.body(rest, env, ind, dispatch))
            fail(st, "assignment")
        fail(st, "statement")


def fingerprint(node):
    node = ast.parse(ast.unparse(node))
    return hashlib.sha256(ast.dump(node, include_attributes=False).encode()).hexdigest()[:20]


def gen_ispreproc(repo, L):
    p = os.path.join(repo, "norminette", "rules", "is_preprocessor_statement.py")
    with open(p) as f:
        tree = ast.parse(f.read(), filename=p)
    cls = [n for n in ast.walk(tree) if isinstance(n, ast.ClassDef) and n.name == "IsPreprocessorStatement"]
    if len(cls) != 1:
        raise KeyError("class IsPreprocessorStatement")
    meth = {n.name: n for n in cls[0].body if isinstance(n, ast.FunctionDef)}
    o = "From NV Require Import Model.Base Model.Lexer Model.RuleChecks Model.GuardTok.\n\n"
    o += "(* Some (b, jump) = the method returns (b, jump);  None = not decided by this translation (raise / loop / other directive) *)\n"
    helpers = {}
    for name in ("_just_eol", "_just_identifier", "_just_token_string"):
        fn = meth[name]
        if [a.arg for a in fn.args.args] != ["self", "directive", "context", "index"] or fn.decorator_list:
            raise E("%s: signature" % name)
        tr = Tr(helpers)
        text = tr.body(strip_doc(fn.body), {"index": ("Z", "index")}, 1)
        cn = "ips" + name
        o += "Definition %s (toks : list token) (index : Z) : option (bool * Z) :=\n%s.\n\n" % (cn, text)
        helpers[name] = cn
    dispatch = []
    for d in WANTED:
        fn = meth["check_" + d]
        if [a.arg for a in fn.args.args] != ["self", "context", "index"] or fn.decorator_list:
            raise E("check_%s: signature" % d)
        tr = Tr(helpers)
        text = tr.body(strip_doc(fn.body), {"index": ("Z", "index")}, 1)
        cn = "ips_check_" + d
        o += "Definition %s (toks : list token) (index : Z) : option (bool * Z) :=\n%s.\n\n" % (cn, text)
        dispatch.append((d, cn))
    run = meth["run"]
    if [a.arg for a in run.args.args] != ["self", "context"] or run.decorator_list:
        raise E("run: signature")
    tr = Tr(helpers)
    text = tr.body(strip_doc(run.body), {}, 1, dispatch)
    o += "(* IsPreprocessorStatement.run, whole method; directives dispatched: %s *)\n" % ", ".join(WANTED)
    o += "Definition ispreproc_run (toks : list token) : option (bool * Z) :=\n%s.\n\n" % text
    ce = meth["corresponding_endif"]
    for n in ast.walk(ce):
        if isinstance(n, ast.Attribute) and isinstance(n.ctx, (ast.Store, ast.Del)):
            raise E("corresponding_endif assigns an attribute")
        if isinstance(n, ast.Call):
            fsrc = ast.unparse(n.func)
            if fsrc not in ("context.check_token", "context.skip_ws", "context.peek_token", "len") and not fsrc.endswith(".lower"):
                raise E("corresponding_endif calls %s" % fsrc)
    o += "Definition corresponding_endif_fingerprint : string := \"%s\"%%string.\n" % fingerprint(ce)
    o += "Definition ispreproc_dispatched : list str := [%s].\n" % "; ".join(coq_str(x) for x in WANTED)
    return o


GENERATORS = {"IsPreproc": gen_ispreproc}
