#!/bin/sh
# regenerate coq/_CoqProject file list + Makefile (file list = every .v under theories)
cd "$(dirname "$0")/../coq" || exit 2
{ printf '%s\n' '-R theories NV' '-arg -w -arg -notation-overridden,-deprecated-hint-without-locality,-deprecated-instance-without-locality,-unused-pattern-matching-variable'; find theories -name '*.v' | sort; } > _CoqProject.new
if ! cmp -s _CoqProject.new _CoqProject 2>/dev/null || [ ! -f Makefile ]; then
  mv _CoqProject.new _CoqProject
  coq_makefile -f _CoqProject -o Makefile >/dev/null
else
  rm -f _CoqProject.new
fi
