"""Gen/SelectCode.v: the file-selection part of norminette.__main__.main() translated STATEMENT BY STATEMENT into the
small imperative language of Model/PyStmt.v, over an abstract operating-system interface (pathlib / os.path / glob /
subprocess as Section variables).  Proofs/SelectCodeProofs.v proves the hand-written model (Model/Select.v) EQUAL to this
translation, so every theorem about the model is a theorem about the translated code.  Fail closed: any statement or
expression outside the recognised subset raises (a broken tie)."""
import ast
import os

from pyexpr import TranslateError, coq_str

STATE_LISTS = {"stack", "files", "tmp_targets"}


def lit(x):
    if not all(32 <= ord(c) < 127 for c in x):
        raise TranslateError("non-ASCII text in a Coq string literal: %r" % x)
    return '"' + x.replace('"', '""') + '"%string'


def fail(n, why):
    raise TranslateError("__main__.py main() selection: %s at line %s: %s" % (why, getattr(n, "lineno", "?"), ast.unparse(n)[:120]))


class C:
    def __init__(self):
        self.bodies = []          # (name, var, coq text) of the for-loop bodies, innermost first

    # ------------------------------------------------------------ expressions -> (coq, type)
    def ex(self, n, env):
        if isinstance(n, ast.Name):
            if n.id in env:
                return env[n.id]
            fail(n, "unknown name")
        if isinstance(n, ast.Constant) and type(n.value) is int:
            return "(%d)" % n.value, "Z"
        if isinstance(n, ast.Attribute):
            src = ast.unparse(n)
            if src == "args.file":
                return "args_file", "listT"
            if src == "args.use_gitignore":
                return "args_use_gitignore", "bool"
            v, t = self.ex(n.value, env)
            if t == "T" and n.attr in ("suffix", "name"):
                return "(os_%s %s)" % (n.attr, v), "str"
            if t == "T" and n.attr == "path":
                return "(os_file_path %s)" % v, "T"
            fail(n, "attribute")
        if isinstance(n, ast.UnaryOp) and isinstance(n.op, ast.Not):
            v, t = self.ex(n.operand, env)
            if t != "bool":
                fail(n, "not of a non-boolean")
            return "(negb %s)" % v, "bool"
        if isinstance(n, ast.Compare) and len(n.ops) == 1:
            a, ta = self.ex(n.left, env)
            op, c = n.ops[0], n.comparators[0]
            if isinstance(op, (ast.In, ast.NotIn)) and ta == "str" and isinstance(c, (ast.Tuple, ast.List)) \
                    and all(isinstance(e, ast.Constant) and isinstance(e.value, str) for e in c.elts):
                r = "(str_in %s [%s])" % (a, "; ".join(coq_str(e.value) for e in c.elts))
                return ("(negb %s)" % r if isinstance(op, ast.NotIn) else r), "bool"
            if isinstance(op, ast.Eq) and ta == "Z" and isinstance(c, ast.Constant) and type(c.value) is int:
                return "(Z.eqb %s (%d))" % (a, c.value), "bool"
            fail(n, "comparison")
        if isinstance(n, ast.IfExp):
            c, tc = self.ex(n.test, env)
            a, ta = self.ex(n.body, env)
            b, tb = self.ex(n.orelse, env)
            if tc != "listT" or ta != "listT" or tb != "listT":
                fail(n, "conditional expression")
            return "(match %s with [] => %s | _ :: _ => %s end)" % (c, b, a), "listT"      # truth value of a list
        if isinstance(n, ast.ListComp):
            g = n.generators
            if len(g) != 1 or g[0].is_async or len(g[0].ifs) != 1 or not isinstance(g[0].target, ast.Name) \
                    or not isinstance(n.elt, ast.Name) or n.elt.id != g[0].target.id:
                fail(n, "list comprehension")
            src, ts = self.ex(g[0].iter, env)
            if ts != "listT":
                fail(n, "comprehension over a non-list")
            v = "v_" + g[0].target.id
            cond, tcnd = self.ex(g[0].ifs[0], dict(env, **{g[0].target.id: (v, "T")}))
            if tcnd != "bool":
                fail(n, "comprehension filter")
            return "(filter (fun %s => %s) %s)" % (v, cond, src), "listT"
        if isinstance(n, ast.List):
            if not n.elts:
                return "[]", "listT"
            if all(isinstance(e, ast.Constant) and isinstance(e.value, str) for e in n.elts[:-1]):
                last, tl = self.ex(n.elts[-1], env)
                if tl == "T":
                    return "[%s]|%s" % ("; ".join(lit(e.value) for e in n.elts[:-1]), last), "cmd"
            fail(n, "list display")
        if isinstance(n, ast.JoinedStr):
            parts = []
            for v in n.values:
                if isinstance(v, ast.Constant) and isinstance(v.value, str):
                    parts.append(coq_str(v.value))
                elif isinstance(v, ast.FormattedValue) and v.format_spec is None:
                    e, te = self.ex(v.value, env)
                    conv = chr(v.conversion) if v.conversion != -1 else ""
                    if te == "T" and conv == "s":
                        parts.append("(os_str %s)" % e)
                    elif te == "T" and conv == "r":
                        parts.append("(os_repr %s)" % e)
                    elif te == "str" and conv == "r":
                        parts.append("(py_repr %s)" % e)
                    else:
                        fail(n, "f-string value of type %s with conversion %r" % (te, conv))
                else:
                    fail(n, "f-string part")
            return "(" + " ++ ".join(parts or ["[]"]) + ")", "str"
        if isinstance(n, ast.Call):
            f = ast.unparse(n.func)
            if f == "pathlib.Path" and len(n.args) == 1 and not n.keywords:
                v, t = self.ex(n.args[0], env)
                if t == "T":
                    return "(os_Path %s)" % v, "T"
            if f == "File" and len(n.args) == 1 and not n.keywords:
                v, t = self.ex(n.args[0], env)
                if t == "T":
                    return "(os_File %s)" % v, "T"
            if f == "os.path.isdir" and len(n.args) == 1 and not n.keywords:
                v, t = self.ex(n.args[0], env)
                if t == "T":
                    return "(os_path_isdir %s)" % v, "bool"
            if isinstance(n.func, ast.Attribute) and n.func.attr in ("exists", "is_file", "is_dir") and not n.args and not n.keywords:
                v, t = self.ex(n.func.value, env)
                if t == "T":
                    return "(os_%s %s)" % (n.func.attr, v), "bool"
            if f == "glob.glob" and len(n.args) == 1:
                rec = "false"
                for k in n.keywords:
                    if k.arg != "recursive" or not (isinstance(k.value, ast.Constant) and isinstance(k.value.value, bool)):
                        fail(n, "glob keyword")
                    rec = "true" if k.value.value else "false"
                p = n.args[0]
                if isinstance(p, ast.Constant) and isinstance(p.value, str):
                    return "(os_glob %s %s)" % (lit(p.value), rec), "listT"
                if isinstance(p, ast.BinOp) and isinstance(p.op, ast.Add) and is_str_of(p.left) and isinstance(p.right, ast.Constant) \
                        and isinstance(p.right.value, str):
                    v, t = self.ex(p.left.args[0], env)
                    if t == "T":
                        return "(os_glob_under %s %s %s)" % (v, lit(p.right.value), rec), "listT"
            fail(n, "call")
        if isinstance(n, ast.Attribute):
            fail(n, "attribute")
        fail(n, "expression outside the translated subset")

    def run_returncode(self, n, env):
        """subprocess.run(command, stdout=subprocess.PIPE, stderr=subprocess.PIPE).returncode"""
        if isinstance(n, ast.Attribute) and n.attr == "returncode" and isinstance(n.value, ast.Call) \
                and ast.unparse(n.value.func) == "subprocess.run" and len(n.value.args) == 1 \
                and sorted((k.arg, ast.unparse(k.value)) for k in n.value.keywords) == [("stderr", "subprocess.PIPE"), ("stdout", "subprocess.PIPE")]:
            c, t = self.ex(n.value.args[0], env)
            if t == "cmd":
                consts, last = c.split("|", 1)
                return "(os_run %s %s)" % (consts, last), "Z"
        return None

    # ------------------------------------------------------------ statements -> coq text of type `stmt T`
    def block(self, stmts, env, loop=None):
        if not stmts:
            return "s_skip"
        st, rest = stmts[0], stmts[1:]
        if isinstance(st, ast.Expr) and isinstance(st.value, ast.Constant) and isinstance(st.value.value, str):
            return self.block(rest, env, loop)                      # a string used as a comment
        if isinstance(st, ast.Assign) and len(st.targets) == 1 and isinstance(st.targets[0], ast.Name):
            name = st.targets[0].id
            if name in STATE_LISTS:
                if loop == name or (loop == "files" and name == "files"):
                    fail(st, "assignment to the list being iterated")
                if name == "stack" and ast.unparse(st.value) == "[]":
                    return self.seq("(s_stack_set [])", rest, env, loop)
                if name == "tmp_targets" and ast.unparse(st.value) == "[]":
                    return self.seq("(s_tmp_set [])", rest, env, loop)
                if name == "files" and ast.unparse(st.value) == "tmp_targets" and loop is None:
                    return self.seq("s_files_set_tmp", rest, env, loop)
                fail(st, "assignment to a work list")
            rc = self.run_returncode(st.value, env)
            v, t = rc if rc else self.ex(st.value, env)
            if t not in ("T", "Z", "cmd"):
                fail(st, "local variable of type %s" % t)
            if t == "cmd":
                return self.block(rest, dict(env, **{name: (v, "cmd")}), loop)     # inlined at its use
            return "(let v_%s := %s in %s)" % (name, v, self.block(rest, dict(env, **{name: ("v_" + name, t)}), loop))
        if isinstance(st, ast.AugAssign) and isinstance(st.op, ast.Add) and ast.unparse(st.target) == "stack":
            v, t = self.ex(st.value, env)
            if t != "listT":
                fail(st, "stack += <non-list>")
            return self.seq("(s_stack_extend %s)" % v, rest, env, loop)
        if isinstance(st, ast.Delete) and ast.unparse(st) == "del stack" and loop is None:
            return self.seq("(s_stack_set [])", rest, env, loop)
        if isinstance(st, ast.Pass):
            return self.seq("s_skip", rest, env, loop)
        if isinstance(st, ast.Expr) and isinstance(st.value, ast.Call) and not st.value.keywords and len(st.value.args) == 1:
            f, a = ast.unparse(st.value.func), st.value.args[0]
            if f == "print":
                v, t = self.ex(a, env)
                if t == "str":
                    return self.seq("(s_print %s)" % v, rest, env, loop)
            if f == "sys.exit" and isinstance(a, ast.Constant) and type(a.value) is int:
                return self.seq("(s_exit (%d))" % a.value, rest, env, loop)
            if f == "files.append" and loop != "files":
                v, t = self.ex(a, env)
                if t == "T":
                    return self.seq("(s_files_append %s)" % v, rest, env, loop)
            if f == "tmp_targets.append":
                v, t = self.ex(a, env)
                if t == "T":
                    return self.seq("(s_tmp_append %s)" % v, rest, env, loop)
            fail(st, "call statement")
        if isinstance(st, ast.If):
            c, t = self.ex(st.test, env)
            if t != "bool":
                fail(st, "condition of type %s" % t)
            return self.seq("(s_if %s %s %s)" % (c, self.block(st.body, env, loop), self.block(st.orelse, env, loop)), rest, env, loop)
        if isinstance(st, ast.For) and isinstance(st.target, ast.Name) and isinstance(st.iter, ast.Name) and not st.orelse \
                and loop is None and st.iter.id in ("stack", "files"):
            var = st.target.id
            body = self.block(st.body, dict(env, **{var: ("v_" + var, "T")}), st.iter.id)
            name = "body_for_%s_in_%s" % (var, st.iter.id)
            self.bodies.append((name, "v_" + var, body))
            comb = "(s_for_stack fuel %s)" % name if st.iter.id == "stack" else "(s_for_files %s)" % name
            return self.seq(comb, rest, env, loop)
        fail(st, "statement outside the translated subset")

    def seq(self, first, rest, env, loop):
        return "(s_seq %s %s)" % (first, self.block(rest, env, loop)) if rest else first


def is_str_of(n):
    return isinstance(n, ast.Call) and isinstance(n.func, ast.Name) and n.func.id == "str" and len(n.args) == 1 and not n.keywords


def pretty(text, width=118):
    """break the one-line term at ' (s_' boundaries (cosmetic only)"""
    out, line = [], ""
    for tok in text.replace(" (s_", "\n(s_").replace(" (let ", "\n(let ").split("\n"):
        if len(line) + len(tok) + 1 > width and line:
            out.append(line)
            line = "    " + tok
        else:
            line = (line + " " + tok) if line else "    " + tok
    out.append(line)
    return "\n".join(out)


def gen_selectcode(repo, L):
    path = os.path.join(repo, "norminette/__main__.py")
    with open(path) as f:
        tree = ast.parse(f.read(), filename=path)
    mains = [n for n in tree.body if isinstance(n, ast.FunctionDef) and n.name == "main"]
    if len(mains) != 1:
        raise TranslateError("exactly one top-level main() expected")
    body = mains[0].body
    sel = [n for n in body if isinstance(n, ast.If) and ast.unparse(n.test) == "args.cfile or args.hfile"]
    git = [n for n in body if isinstance(n, ast.If) and ast.unparse(n.test) == "args.use_gitignore"]
    if len(sel) != 1 or len(git) != 1 or body.index(git[0]) != body.index(sel[0]) + 1:
        raise TranslateError("anchors `if args.cfile or args.hfile: ... else:` directly followed by `if args.use_gitignore:` not found")
    before = [ast.unparse(x) for x in body[:body.index(sel[0])]]
    if before.count("files = []") != 1 or any(x.startswith("files") and x != "files = []" for x in before):
        raise TranslateError("`files = []` is not the only initialisation of files before the selection")
    c = C()
    sel_code = c.block(sel[0].orelse, {})
    git_code = c.block([git[0]], {})
    o = "From NV Require Import Model.Base Model.Select Model.PyStmt.\n\n"
    o += "(* main(), from `stack = []` to `files = tmp_targets`, statement by statement.  State: the lists stack / files /\n"
    o += "   tmp_targets and the printed lines (Model/PyStmt.v); `files = []` holds on entry; --cfile/--hfile not given. *)\n"
    o += "Section Code.\n"
    o += "  Variable T : Type.                                  (* work-list strings and File objects *)\n"
    o += "  Variable os_Path : T -> T.                          (* pathlib.Path(item) *)\n"
    o += "  Variables os_exists os_is_file os_is_dir : T -> bool.   (* path.exists() / is_file() / is_dir() *)\n"
    o += "  Variables os_suffix os_name os_str : T -> str.      (* path.suffix, path.name, str(path) *)\n"
    o += "  Variable os_File : T -> T.                          (* File(item) *)\n"
    o += "  Variable os_file_path : T -> T.                     (* file.path *)\n"
    o += "  Variable os_repr : T -> str.                        (* repr of a work-list string *)\n"
    o += "  Variable os_path_isdir : T -> bool.                 (* os.path.isdir(s) *)\n"
    o += "  Variable os_glob : string -> bool -> list T.        (* glob.glob(pattern, recursive=b) *)\n"
    o += "  Variable os_glob_under : T -> string -> bool -> list T.   (* glob.glob(str(path) + pattern, recursive=b) *)\n"
    o += "  Variable os_run : list string -> T -> Z.            (* subprocess.run(argv + [s], ...).returncode *)\n"
    o += "  Variable args_file : list T.\n  Variable args_use_gitignore : bool.\n"
    o += "  Variable fuel : nat.                                (* bound on the visits of `for item in stack` *)\n\n"
    for name, var, text in c.bodies:
        o += "  Definition %s (%s : T) : stmt T :=\n%s.\n\n" % (name, var, pretty(text))
    o += "  Definition selection_stmt : stmt T :=\n%s.\n\n" % pretty(sel_code)
    o += "  Definition gitignore_stmt : stmt T :=\n%s.\n\n" % pretty(git_code)
    o += "  Definition selection_code : res T := s_seq selection_stmt gitignore_stmt (mkst T [] [] [] []).\n"
    o += "End Code.\n"
    return o


GENERATORS = {"SelectCode": gen_selectcode}
