"""Gen/HeaderRe.v and Gen/HeaderSM.v: the 42-header check of norminette/rules/check_header.py.

HeaderRe: the regular expression compiled inside CheckHeader.check_header, parsed with Python's own
parser (re._parser) into the atom type of Model/HeaderRe.v, its flags and the method it is used with.
HeaderSM: CheckHeader.run / parse_header / check_header translated statement by statement into Gallina
functions over Model/HeaderState.v (flags, accumulated text, emitted codes), the initial values of the
three context attributes from Context.__init__, and the list of every other place in the package that
mentions those attributes or the INVALID_HEADER code.

Fail closed: every construct outside the small recognised subset raises TranslateError (a broken tie)."""
import ast
import glob
import hashlib
import os
import re

try:
    import re._parser as sre_parser
    import re._constants as sre_constants
except ImportError:                                  # Python < 3.11
    import sre_parse as sre_parser
    import sre_constants

from pyexpr import TranslateError, coq_str

RULE_FILE = "norminette/rules/check_header.py"
CONTEXT_FILE = "norminette/context.py"
SAMPLE_FILE = "tests/rules/samples/test_file_1012.c"
ALLOWED_FLAGS = re.DOTALL | re.UNICODE


def coq_string_lit(x):
    if not all(32 <= ord(c) < 127 for c in x):
        raise TranslateError("non-ASCII text in a Coq string literal")
    return '"' + x.replace('"', '""') + '"%string'


def parse(repo, rel):
    path = os.path.join(repo, rel)
    with open(path) as f:
        return ast.parse(f.read(), filename=path)


def find_method(repo, cls_name, meth):
    tree = parse(repo, RULE_FILE)
    cls = [n for n in tree.body if isinstance(n, ast.ClassDef) and n.name == cls_name]
    if len(cls) != 1:
        raise TranslateError("class %s not found in %s" % (cls_name, RULE_FILE))
    ms = [n for n in cls[0].body if isinstance(n, ast.FunctionDef) and n.name == meth]
    if len(ms) != 1:
        raise TranslateError("method %s.%s not found" % (cls_name, meth))
    m = ms[0]
    if [a.arg for a in m.args.args] != ["self", "context"] or m.args.vararg or m.args.kwarg or m.args.kwonlyargs \
            or m.decorator_list:
        raise TranslateError("%s.%s: unexpected signature" % (cls_name, meth))
    return cls[0], m


# ---------------------------------------------------------------------------------- the regular expression
def regex_site(repo):
    """-> (pattern text, flags int, method name): the single re.compile(...) of check_header and the single use
    of the compiled object."""
    _, fn = find_method(repo, "CheckHeader", "check_header")
    consts = {}
    for n in ast.walk(fn):
        if isinstance(n, ast.Assign) and len(n.targets) == 1 and isinstance(n.targets[0], ast.Name) \
                and isinstance(n.value, ast.Constant) and isinstance(n.value.value, str):
            if n.targets[0].id in consts:
                raise TranslateError("check_header: %s assigned twice" % n.targets[0].id)
            consts[n.targets[0].id] = n.value.value
    # any other use of the re module inside the class is outside the subset
    cls, _ = find_method(repo, "CheckHeader", "check_header")
    re_uses = [n for n in ast.walk(cls) if isinstance(n, ast.Attribute) and isinstance(n.value, ast.Name) and n.value.id == "re"]
    compiles = [n for n in ast.walk(fn) if isinstance(n, ast.Call) and ast.unparse(n.func) == "re.compile"]
    if len(compiles) != 1:
        raise TranslateError("check_header: expected exactly one re.compile call, found %d" % len(compiles))
    c = compiles[0]
    if c.keywords or not (1 <= len(c.args) <= 2):
        raise TranslateError("check_header: re.compile call shape")
    a0 = c.args[0]
    if isinstance(a0, ast.Name) and a0.id in consts:
        pattern = consts[a0.id]
    elif isinstance(a0, ast.Constant) and isinstance(a0.value, str):
        pattern = a0.value
    else:
        raise TranslateError("check_header: pattern is not a string constant")
    flags = 0
    n_flag_attrs = 0
    if len(c.args) == 2:
        def ev(e):
            nonlocal n_flag_attrs
            if isinstance(e, ast.BinOp) and isinstance(e.op, ast.BitOr):
                return ev(e.left) | ev(e.right)
            if isinstance(e, ast.Attribute) and isinstance(e.value, ast.Name) and e.value.id == "re" and e.attr.isupper():
                n_flag_attrs += 1
                return int(getattr(re, e.attr))
            raise TranslateError("check_header: flags expression %s" % ast.unparse(e))
        flags = ev(c.args[1])
    if len(re_uses) != 1 + n_flag_attrs:
        raise TranslateError("CheckHeader: the re module is used outside the single re.compile call")
    return pattern, flags


def cset(op, av, dotall):
    op = str(op)
    if op == "ANY":
        return "CAny" if dotall else "(CNot 10)"
    if op == "LITERAL":
        return "(CLit %d)" % av
    if op == "NOT_LITERAL":
        return "(CNot %d)" % av
    if op == "IN":
        # [x] and [^x] with a single literal member
        items = list(av)
        neg = False
        if items and str(items[0][0]) == "NEGATE":
            neg = True
            items = items[1:]
        if len(items) == 1 and str(items[0][0]) == "LITERAL":
            return ("(CNot %d)" if neg else "(CLit %d)") % items[0][1]
    raise TranslateError("regex: character class outside the subset: %s %r" % (op, av))


def atoms_of(data, dotall):
    out = []
    for op, av in data:
        k = str(op)
        if k in ("LITERAL", "ANY", "NOT_LITERAL", "IN"):
            out.append("One %s" % cset(op, av, dotall))
        elif k == "MAX_REPEAT":
            lo, hi, sub = av
            sub = list(sub)
            if len(sub) != 1:
                raise TranslateError("regex: repeat of a sequence/group is outside the subset")
            cs = cset(sub[0][0], sub[0][1], dotall)
            if lo > 1000 or (hi != sre_constants.MAXREPEAT and (hi > 1000 or hi < lo)):
                raise TranslateError("regex: repeat bounds")
            out.append("Rep %d %s %s" % (lo, "None" if hi == sre_constants.MAXREPEAT else "(Some %d%%nat)" % hi, cs))
        elif k == "SUBPATTERN":
            group, add_flags, del_flags, sub = av
            if group is None or add_flags or del_flags:
                raise TranslateError("regex: non-capturing / flagged group is outside the subset")
            out.append("Mark true %d" % group)
            out += atoms_of(sub, dotall)
            out.append("Mark false %d" % group)
        else:
            # MIN_REPEAT, POSSESSIVE_REPEAT, ATOMIC_GROUP, BRANCH, AT, GROUPREF, ASSERT, CATEGORY ...
            raise TranslateError("regex: construct outside the subset: %s" % k)
    return out


def sample_header(repo):
    with open(os.path.join(repo, SAMPLE_FILE)) as f:
        lines = f.read().split("\n")[:11]
    if len(lines) != 11 or not all(l.startswith("/*") and l.endswith("*/") and len(l) == 80 for l in lines):
        raise TranslateError("%s does not start with an 11-line header" % SAMPLE_FILE)
    return lines


def gen_header_re(repo, L):
    pattern, flags = regex_site(repo)
    compiled = re.compile(pattern, flags)
    if compiled.flags & ~ALLOWED_FLAGS:
        raise TranslateError("regex: flags %r outside the subset (only DOTALL)" % (re.RegexFlag(compiled.flags),))
    dotall = bool(compiled.flags & re.DOTALL)
    tree = sre_parser.parse(pattern, flags)
    atoms = atoms_of(tree.data, dotall)
    method = use_site(repo)[1]
    o = "From NV Require Import Model.Base Model.HeaderRe.\n\n"
    o += "Definition header_re_source : string :=\n  %s.\n" % coq_string_lit(pattern)
    o += "Definition header_re_flags : Z := %d.\n" % compiled.flags
    o += "Definition header_re_dotall : bool := %s.\n" % ("true" if dotall else "false")
    o += "Definition header_re_groups : nat := %d.\n" % compiled.groups
    o += "Definition header_re_method : string := %s.\n\n" % coq_string_lit(method)
    o += "Definition header_re : list atom :=\n  [%s].\n\n" % ";\n   ".join(atoms)
    o += "(* the first 11 lines of %s *)\n" % SAMPLE_FILE
    o += "Definition sample_header_1012 : list str :=\n  [%s].\n" % ";\n   ".join(coq_str(l) for l in sample_header(repo))
    return o


# ---------------------------------------------------------------------------------- the state machine
def use_site(repo):
    """-> (compiled-object variable, method, result variable) of `<r> = <regex>.<method>(context.header)`"""
    _, fn = find_method(repo, "CheckHeader", "check_header")
    found = []
    for n in ast.walk(fn):
        if isinstance(n, ast.Assign) and isinstance(n.value, ast.Call) and ast.unparse(n.value.func) == "re.compile":
            if len(n.targets) != 1 or not isinstance(n.targets[0], ast.Name):
                raise TranslateError("check_header: re.compile result target")
            found.append(n.targets[0].id)
    if len(found) != 1:
        raise TranslateError("check_header: the compiled expression must be bound to one local name")
    rx = found[0]
    uses = [n for n in ast.walk(fn) if isinstance(n, ast.Name) and n.id == rx and isinstance(n.ctx, ast.Load)]
    calls = [n for n in ast.walk(fn) if isinstance(n, ast.Call) and isinstance(n.func, ast.Attribute)
             and isinstance(n.func.value, ast.Name) and n.func.value.id == rx]
    if len(uses) != 1 or len(calls) != 1:
        raise TranslateError("check_header: the compiled expression must be used exactly once")
    c = calls[0]
    if c.func.attr not in ("search", "match") or c.keywords or len(c.args) != 1 or ast.unparse(c.args[0]) != "context.header":
        raise TranslateError("check_header: use of the compiled expression: %s" % ast.unparse(c))
    return rx, c.func.attr


FLAG_ATTRS = {"header_started": "started", "header_parsed": "parsed"}


class SM:
    """statement-by-statement translation; the state variable is rebound by `let st := ... in`"""

    def __init__(self, fname, regex_var=None, regex_method=None, methods=()):
        self.fname = fname
        self.regex_var = regex_var
        self.regex_method = regex_method
        self.methods = methods
        self.locals = {}          # python local -> ("str"|"regex"|"match", ...)

    def fail(self, node, why):
        raise TranslateError("%s line %s: %s: %s" % (self.fname, getattr(node, "lineno", "?"), why, ast.unparse(node)[:120]))

    # ---- expressions
    def strexpr(self, e):
        if isinstance(e, ast.Constant) and isinstance(e.value, str):
            return coq_str(e.value)
        if isinstance(e, ast.BinOp) and isinstance(e.op, ast.Add):
            return "(%s ++ %s)" % (self.strexpr(e.left), self.strexpr(e.right))
        src = ast.unparse(e)
        if src == "context.peek_token(0).value":
            return "(ev_tok_value ev)"
        if src == "context.header":
            return "(hs_header st)"
        self.fail(e, "string expression outside the subset")

    def const3(self, e):
        if isinstance(e, ast.Constant) and (e.value is True or e.value is False or e.value is None):
            return e.value
        self.fail(e, "expected True/False/None")

    def cond(self, e):
        if isinstance(e, ast.BoolOp):
            op = " && " if isinstance(e.op, ast.And) else " || "
            return "(" + op.join(self.cond(v) for v in e.values) + ")"
        if isinstance(e, ast.UnaryOp) and isinstance(e.op, ast.Not):
            return "(negb %s)" % self.cond(e.operand)
        if isinstance(e, ast.Attribute) and isinstance(e.value, ast.Name) and e.value.id == "context" and e.attr in FLAG_ATTRS:
            return "(hs_%s st)" % FLAG_ATTRS[e.attr]
        if isinstance(e, ast.Compare) and len(e.ops) == 1:
            op, left, right = e.ops[0], e.left, e.comparators[0]
            src = ast.unparse(left)
            pos = isinstance(op, (ast.Is, ast.Eq))
            if not pos and not isinstance(op, (ast.IsNot, ast.NotEq)):
                self.fail(e, "comparison operator")
            wrap = (lambda x: x) if pos else (lambda x: "(negb %s)" % x)
            if isinstance(left, ast.Attribute) and isinstance(left.value, ast.Name) and left.value.id == "context" \
                    and left.attr in FLAG_ATTRS:
                v = self.const3(right)
                if v is None:
                    self.fail(e, "flag compared with None")
                return wrap("(Bool.eqb (hs_%s st) %s)" % (FLAG_ATTRS[left.attr], "true" if v else "false"))
            if src == "context.history[-1]" and isinstance(op, (ast.Eq, ast.NotEq)) and isinstance(right, ast.Constant) \
                    and isinstance(right.value, str):
                return wrap("(str_eqb (ev_rule ev) %s)" % coq_str(right.value))
            if isinstance(left, ast.Call) and ast.unparse(left.func) == "context.check_token" and not left.keywords \
                    and len(left.args) == 2 and isinstance(left.args[0], ast.Constant) and left.args[0].value == 0 \
                    and type(left.args[0].value) is int and isinstance(left.args[1], ast.Constant) \
                    and isinstance(left.args[1].value, str) and isinstance(op, (ast.Is, ast.IsNot)):
                v = self.const3(right)
                f = {True: "is_True", False: "is_False", None: "is_None"}[v]
                return wrap("(%s (check_token0 ev %s))" % (f, coq_str(left.args[1].value)))
            if isinstance(left, ast.Name) and self.locals.get(left.id, (None,))[0] == "match" and isinstance(op, (ast.Is, ast.IsNot)) \
                    and self.const3(right) is None:
                # <match object> is None
                return ("(negb m_%s)" if pos else "m_%s") % left.id
        self.fail(e, "condition outside the subset")

    # ---- statements
    def block(self, stmts, returns_pair):
        if not stmts:
            return "st"
        st, rest = stmts[0], list(stmts[1:])
        if isinstance(st, ast.Expr) and isinstance(st.value, ast.Constant) and isinstance(st.value.value, str):
            return self.block(rest, returns_pair)                      # docstring
        if isinstance(st, ast.Return):
            if st.value is None:
                return "st"
            if returns_pair and ast.unparse(st.value) in ("(False, 0)", "False, 0"):
                return "st"
            self.fail(st, "return value")
        if isinstance(st, ast.If):
            c = self.cond(st.test)
            a = self.block(list(st.body) + rest, returns_pair)
            b = self.block(list(st.orelse) + rest, returns_pair)
            return "(if %s\n   then %s\n   else %s)" % (c, a, b)
        if isinstance(st, ast.Expr) and isinstance(st.value, ast.Call):
            c = st.value
            f = ast.unparse(c.func)
            if f == "context.new_error" and not c.keywords and len(c.args) == 2 and isinstance(c.args[0], ast.Constant) \
                    and isinstance(c.args[0].value, str) and ast.unparse(c.args[1]) == "context.peek_token(0)":
                return "(let st := emit %s st in %s)" % (coq_str(c.args[0].value), self.block(rest, returns_pair))
            if isinstance(c.func, ast.Attribute) and isinstance(c.func.value, ast.Name) and c.func.value.id == "self" \
                    and c.func.attr in self.methods and not c.keywords and len(c.args) == 1 and ast.unparse(c.args[0]) == "context":
                return "(let st := %s st ev in %s)" % (c.func.attr, self.block(rest, returns_pair))
            self.fail(st, "call outside the subset")
        if isinstance(st, ast.Assign) and len(st.targets) == 1:
            tg, v = st.targets[0], st.value
            if isinstance(tg, ast.Attribute) and isinstance(tg.value, ast.Name) and tg.value.id == "context":
                if tg.attr in FLAG_ATTRS and isinstance(v, ast.Constant) and (v.value is True or v.value is False):
                    return "(let st := set_%s %s st in %s)" % (FLAG_ATTRS[tg.attr], "true" if v.value else "false",
                                                                 self.block(rest, returns_pair))
                if tg.attr == "header":
                    return "(let st := set_header %s st in %s)" % (self.strexpr(v), self.block(rest, returns_pair))
                self.fail(st, "assignment to a context attribute outside the subset")
            if isinstance(tg, ast.Name):
                if isinstance(v, ast.Constant) and isinstance(v.value, str):
                    self.locals[tg.id] = ("str",)
                    return self.block(rest, returns_pair)
                if isinstance(v, ast.Call) and ast.unparse(v.func) == "re.compile" and tg.id == self.regex_var:
                    self.locals[tg.id] = ("regex",)
                    return self.block(rest, returns_pair)             # content checked by regex_site / use_site
                if isinstance(v, ast.Call) and isinstance(v.func, ast.Attribute) and isinstance(v.func.value, ast.Name) \
                        and v.func.value.id == self.regex_var and self.locals.get(self.regex_var) == ("regex",) \
                        and v.func.attr == self.regex_method and ast.unparse(v.args[0]) == "context.header":
                    self.locals[tg.id] = ("match",)
                    fn = {"search": "searchb", "match": "matchb"}[self.regex_method]
                    return "(let m_%s := %s header_re (hs_header st) in %s)" % (tg.id, fn, self.block(rest, returns_pair))
            self.fail(st, "assignment outside the subset")
        if isinstance(st, ast.AugAssign) and isinstance(st.op, ast.Add) and ast.unparse(st.target) == "context.header":
            return "(let st := set_header ((hs_header st) ++ %s) st in %s)" % (self.strexpr(st.value), self.block(rest, returns_pair))
        if isinstance(st, ast.Pass):
            return self.block(rest, returns_pair)
        self.fail(st, "statement outside the subset")


def context_init(repo):
    tree = parse(repo, CONTEXT_FILE)
    cls = [n for n in tree.body if isinstance(n, ast.ClassDef) and n.name == "Context"]
    if len(cls) != 1:
        raise TranslateError("class Context not found")
    init = [n for n in cls[0].body if isinstance(n, ast.FunctionDef) and n.name == "__init__"]
    if len(init) != 1:
        raise TranslateError("Context.__init__ not found")
    vals = {}
    for n in init[0].body:                 # top-level statements of __init__ only: unconditional
        if isinstance(n, ast.Assign) and len(n.targets) == 1 and ast.unparse(n.targets[0]) in (
                "self.header_started", "self.header_parsed", "self.header"):
            k = n.targets[0].attr
            if k in vals or not isinstance(n.value, ast.Constant):
                raise TranslateError("Context.__init__: %s" % ast.unparse(n))
            vals[k] = n.value.value
    if set(vals) != {"header_started", "header_parsed", "header"}:
        raise TranslateError("Context.__init__: header attributes not initialised unconditionally: %r" % (vals,))
    for k in ("header_started", "header_parsed"):
        if vals[k] is not True and vals[k] is not False:
            raise TranslateError("Context.__init__: %s is not a bool" % k)
    if not isinstance(vals["header"], str):
        raise TranslateError("Context.__init__: header is not a str")
    return vals


WATCHED = ("header_started", "header_parsed", "header")


def other_touchers(repo):
    """every place outside CheckHeader where the three attributes or the INVALID_HEADER code occur in code
    (attribute access on any object, or the string constant)"""
    out = []
    files = []
    for pat in ("norminette/*.py", "norminette/lexer/*.py", "norminette/rules/*.py", "norminette/tools/*.py"):
        files += glob.glob(os.path.join(repo, pat))
    for p in sorted(files):
        rel = os.path.relpath(p, repo)
        with open(p) as f:
            tree = ast.parse(f.read(), filename=p)
        skip = set()
        if rel == RULE_FILE:
            for n in tree.body:
                if isinstance(n, ast.ClassDef) and n.name == "CheckHeader":
                    skip = {id(x) for x in ast.walk(n)}
        doc_consts = set()
        for n in ast.walk(tree):
            if isinstance(n, (ast.FunctionDef, ast.ClassDef, ast.Module)) and n.body and isinstance(n.body[0], ast.Expr) \
                    and isinstance(n.body[0].value, ast.Constant):
                doc_consts.add(id(n.body[0].value))
        for n in ast.walk(tree):
            if id(n) in skip:
                continue
            if isinstance(n, ast.Attribute) and n.attr in WATCHED:
                what = ("writes " if isinstance(n.ctx, (ast.Store, ast.Del)) else "reads ") + ast.unparse(n)
                out.append((rel, what))
            elif isinstance(n, ast.Constant) and isinstance(n.value, str) and id(n) not in doc_consts:
                if n.value == "INVALID_HEADER":
                    out.append((rel, "constant INVALID_HEADER"))
                elif n.value in WATCHED:
                    out.append((rel, "constant " + n.value))     # getattr/setattr by name
    return sorted(set(out))


def gen_header_sm(repo, L):
    rx, method = use_site(repo)
    cls, run = find_method(repo, "CheckHeader", "run")
    _, ph = find_method(repo, "CheckHeader", "parse_header")
    _, ch = find_method(repo, "CheckHeader", "check_header")
    meths = [n.name for n in cls.body if isinstance(n, ast.FunctionDef)]
    if sorted(meths) != ["check_header", "parse_header", "run"] or len(cls.body) != 3:
        raise TranslateError("CheckHeader: unexpected class body %r" % (meths,))
    bases = [ast.unparse(b) for b in cls.bases]
    if bases != ["Rule", "Check"] or cls.keywords or cls.decorator_list:
        raise TranslateError("CheckHeader: unexpected bases/keywords %r" % (bases,))
    ini = context_init(repo)
    chk = [c for c in L["checks"] if c["name"] == "CheckHeader"]
    if len(chk) != 1:
        raise TranslateError("CheckHeader is not a registered check")
    o = "From NV Require Import Model.Base Model.HeaderRe Model.HeaderState Gen.HeaderRe.\n\n"
    b = lambda x: "true" if x else "false"  # noqa: E731
    o += "(* Context.__init__ *)\nDefinition ctx_init : hstate := mkhs %s %s %s [].\n\n" % (
        b(ini["header_started"]), b(ini["header_parsed"]), coq_str(ini["header"]))
    o += "(* how the registry schedules CheckHeader (live class attributes): depends_on, runs_on_start, runs_on_rule, runs_on_end *)\n"
    o += "Definition header_check_schedule : list str * bool * bool * bool :=\n  ([%s], %s, %s, %s).\n\n" % (
        "; ".join(coq_str(x) for x in chk[0]["depends_on"]), b(chk[0]["start"]), b(chk[0]["rule"]), b(chk[0]["end"]))
    # call graph allowed (no cycle): check_header calls nothing, parse_header may call check_header, run may call both
    o += "Definition check_header (st : hstate) (ev : hevent) : hstate :=\n  %s.\n\n" % SM(
        "check_header", regex_var=rx, regex_method=method).block(ch.body, False)
    o += "Definition parse_header (st : hstate) (ev : hevent) : hstate :=\n  %s.\n\n" % SM(
        "parse_header", methods=("check_header",)).block(ph.body, False)
    o += "Definition run_step (st : hstate) (ev : hevent) : hstate :=\n  %s.\n\n" % SM(
        "run", methods=("parse_header", "check_header")).block(run.body, True)
    dump = "\n".join(ast.dump(m, include_attributes=False) for m in (ph, ch, run))
    o += "Definition sm_fingerprint : string := %s.\n\n" % coq_string_lit(hashlib.sha1(dump.encode()).hexdigest())
    o += "(* (file, what): every other mention of the header attributes / of the INVALID_HEADER code in the package *)\n"
    o += "Definition header_other_mentions : list (string * string) :=\n  [%s].\n" % ";\n   ".join(
        "(%s, %s)" % (coq_string_lit(a), coq_string_lit(c)) for a, c in other_touchers(repo))
    return o


def _closed(fn):
    """anything unexpected inside a generator is a broken tie, not a translator crash"""
    def g(repo, L):
        try:
            return fn(repo, L)
        except (TranslateError, SyntaxError, OSError, KeyError):
            raise
        except Exception as e:  # noqa
            raise TranslateError("%s: %s" % (type(e).__name__, e))
    return g


GENERATORS = {"HeaderRe": _closed(gen_header_re), "HeaderSM": _closed(gen_header_sm)}
