"""Gen/Guard.v (property C14): CheckPreprocessorProtection.run translated statement by statement into a
Gallina function over the abstract context of Model/GuardBase.v, plus the tables the hand-written part of
the guard model (Model/Guard.v) takes from the source.

The translation is a small abstract interpretation of the method:
  * the index variable is tracked SYMBOLICALLY: it must walk the positions
        0 -skip_ws-> HASH -(+1)-> HASH1 -skip_ws-> DIR -(+1)-> DIR1 -skip_ws-> ARG
                                                          DIR1 -skip_ws(nl=True, comment=True)-> TRAIL
    `peek_token`/`check_token` at DIR, ARG, TRAIL become the fields v_dir, v_arg, v_trail of the view;
  * `context.new_error(CODE, tok)` appends CODE to the emitted list, `context.protected = True` rebinds
    the context; reads of context.file.type / .basename, context.preproc.indent, .has_macro_defined,
    context.protected, context.history become projections;
  * if / early return / assignments of strings are translated structurally (a branch that does not
    return continues with the rest of the body).
Every other shape raises (SyntaxError/KeyError): fail closed, the tie is then broken.

Tables: every HEADER_PROT literal; the (directive -> indent delta, appends a macro) table read off the
check_* methods of IsPreprocessorStatement; normalised AST fingerprints of the helpers the hand-written
model stands for; every syntactic write of .protected/.indent/.macros/.history in norminette/; live values of
str.upper on ASCII, of the guard expression and of os.path.splitext on sample names."""
import ast
import glob
import hashlib
import os

from pyexpr import coq_str


class GuardError(SyntaxError):
    pass


def fail(node, why):
    raise GuardError("%s at line %s: %s" % (why, getattr(node, "lineno", "?"), ast.dump(node)[:160] if isinstance(node, ast.AST) else node))


def parse(repo, rel):
    p = os.path.join(repo, rel)
    with open(p) as f:
        return ast.parse(f.read(), filename=p)


def find_class(tree, name):
    for n in ast.walk(tree):
        if isinstance(n, ast.ClassDef) and n.name == name:
            return n
    raise KeyError("class %s not found" % name)


def find_method(cls, name):
    for n in cls.body:
        if isinstance(n, ast.FunctionDef) and n.name == name:
            return n
    raise KeyError("method %s.%s not found" % (cls.name, name))


def strip_doc(fn):
    body = list(fn.body)
    if body and isinstance(body[0], ast.Expr) and isinstance(body[0].value, ast.Constant) and isinstance(body[0].value.value, str):
        body = body[1:]
    return body


def fingerprint(node):
    """sha256 of the AST dump without positions; docstrings of functions/classes removed."""
    node = ast.parse(ast.unparse(node))          # a private copy
    for n in ast.walk(node):
        if isinstance(n, (ast.FunctionDef, ast.ClassDef)):
            n.body = strip_doc(n) or [ast.Pass()]
    return hashlib.sha256(ast.dump(node, include_attributes=False).encode()).hexdigest()[:20]


def lit(x):
    if not all(32 <= ord(c) < 127 for c in x):
        raise GuardError("non-ASCII text in a Coq string literal")
    return '"' + x.replace('"', '""') + '"%string'


# ---------------------------------------------------------------------------- run() -> Gallina
NEXT_PLUS1 = {"HASH": "HASH1", "DIR": "DIR1"}
SKIP_PLAIN = {"ZERO": "HASH", "HASH1": "DIR", "DIR1": "ARG", "ARG": "ARG"}
VIEW = {"DIR": "(v_dir v)", "ARG": "(v_arg v)", "TRAIL": "(v_trail v)"}


def is_ctx_call(n, name):
    return (isinstance(n, ast.Call) and isinstance(n.func, ast.Attribute) and n.func.attr == name
            and isinstance(n.func.value, ast.Name) and n.func.value.id == "context")


class RunTr:
    def __init__(self):
        self.codes = []
        self.fresh = 0

    # ---- positions
    def pos_of(self, n, env):
        if isinstance(n, ast.Constant) and n.value == 0 and not isinstance(n.value, bool):
            return "ZERO"
        if isinstance(n, ast.Name) and n.id in env and env[n.id][0] == "pos":
            return env[n.id][1]
        fail(n, "index expression is not a tracked position")

    def skip_ws(self, call, env):
        if len(call.args) != 1:
            fail(call, "skip_ws arity")
        p = self.pos_of(call.args[0], env)
        kw = {}
        for k in call.keywords:
            if not (isinstance(k.value, ast.Constant) and isinstance(k.value.value, bool)):
                fail(call, "skip_ws keyword")
            kw[k.arg] = k.value.value
        if not kw:
            if p not in SKIP_PLAIN:
                fail(call, "skip_ws from position %s" % p)
            return SKIP_PLAIN[p]
        if kw == {"nl": True, "comment": True} and p == "DIR1":
            return "TRAIL"
        fail(call, "skip_ws(%s, %r)" % (p, kw))

    def tok(self, n, env):
        """-> coq expression of type option gtok, or the marker 'HASHTOK'"""
        if isinstance(n, ast.Name) and n.id in env and env[n.id][0] == "tok":
            return env[n.id][1]
        if is_ctx_call(n, "peek_token") and len(n.args) == 1 and not n.keywords:
            p = self.pos_of(n.args[0], env)
            if p == "HASH":
                return "HASHTOK"
            if p in VIEW:
                return VIEW[p]
            fail(n, "peek_token at position %s" % p)
        fail(n, "not a token expression")

    # ---- typed expressions
    def sexpr(self, n, env):
        """string-valued expression -> coq"""
        if isinstance(n, ast.Constant) and isinstance(n.value, str):
            return coq_str(n.value)
        if isinstance(n, ast.Name) and n.id in env and env[n.id][0] == "str":
            return env[n.id][1]
        if isinstance(n, ast.Attribute):
            src = ast.unparse(n)
            if src == "context.file.type":
                return "(g_ftype c)"
            if src == "context.file.basename":
                return "(g_basename c)"
            if n.attr in ("type", "value"):
                t = self.tok(n.value, env)
                if t == "HASHTOK":
                    fail(n, "attribute of the hash token")
                return "(tok_%s %s)" % (n.attr, t)
        if isinstance(n, ast.Call) and isinstance(n.func, ast.Attribute) and not n.keywords:
            if n.func.attr == "upper" and not n.args:
                return "(py_upper %s)" % self.sexpr(n.func.value, env)
            if n.func.attr == "replace" and len(n.args) == 2 and all(
                    isinstance(a, ast.Constant) and isinstance(a.value, str) and len(a.value) == 1 for a in n.args):
                return "(py_replace1 %d %d %s)" % (ord(n.args[0].value), ord(n.args[1].value), self.sexpr(n.func.value, env))
        fail(n, "string expression outside the translated subset")

    def is_str(self, n, env):
        try:
            self.sexpr(n, env)
            return True
        except GuardError:
            return False

    def zexpr(self, n, env):
        if isinstance(n, ast.Constant) and isinstance(n.value, int) and not isinstance(n.value, bool):
            return "(%d)" % n.value
        if isinstance(n, ast.Attribute) and ast.unparse(n) == "context.preproc.indent":
            return "(g_indent c)"
        fail(n, "integer expression outside the translated subset")

    def truth(self, n, env):
        if isinstance(n, ast.UnaryOp) and isinstance(n.op, ast.Not):
            return "(negb %s)" % self.truth(n.operand, env)
        if isinstance(n, ast.BoolOp):
            op = " && " if isinstance(n.op, ast.And) else " || "
            return "(" + op.join(self.truth(v, env) for v in n.values) + ")"      # both short-circuit, left to right
        if isinstance(n, ast.Name) and n.id in env and env[n.id][0] == "tok":
            if env[n.id][1] == "HASHTOK":
                fail(n, "truth of the hash token")
            return "(negb (tok_is_none %s))" % env[n.id][1]
        if isinstance(n, ast.Attribute) and ast.unparse(n) == "context.protected":
            return "(g_protected c)"
        if is_ctx_call(n, "check_token") and len(n.args) == 2 and not n.keywords \
                and isinstance(n.args[1], ast.Constant) and isinstance(n.args[1].value, str):
            p = self.pos_of(n.args[0], env)
            if p not in VIEW:
                fail(n, "check_token at position %s" % p)
            return "(check_token_truth %s %s)" % (VIEW[p], coq_str(n.args[1].value))
        if isinstance(n, ast.Call) and ast.unparse(n.func) == "context.preproc.has_macro_defined" and len(n.args) == 1 \
                and not n.keywords:
            return "(has_macro_defined c %s)" % self.sexpr(n.args[0], env)
        if isinstance(n, ast.Call) and isinstance(n.func, ast.Name) and n.func.id == "next" and len(n.args) == 2 \
                and isinstance(n.args[1], ast.Constant) and n.args[1].value is None \
                and isinstance(n.args[0], ast.Name) and env.get(n.args[0].id, ("",))[0] == "hist":
            return "(next_truthy %s)" % env[n.args[0].id][1]
        if isinstance(n, ast.Compare) and len(n.ops) == 1:
            op, a, b = n.ops[0], n.left, n.comparators[0]
            if isinstance(op, (ast.Is, ast.IsNot)) and isinstance(b, ast.Constant) and b.value is None:
                t = self.tok(a, env)
                if t == "HASHTOK":
                    fail(n, "None test of the hash token")
                r = "(tok_is_none %s)" % t
                return r if isinstance(op, ast.Is) else "(negb %s)" % r
            if isinstance(op, (ast.In, ast.NotIn)):
                if isinstance(b, ast.Tuple) and all(isinstance(e, ast.Constant) and isinstance(e.value, str) for e in b.elts):
                    xs = "[" + "; ".join(coq_str(e.value) for e in b.elts) + "]"
                elif isinstance(b, ast.Name) and env.get(b.id, ("",))[0] == "strs":
                    xs = env[b.id][1]
                else:
                    fail(n, "membership in something that is not a tuple of strings")
                r = "(str_in %s %s)" % (self.sexpr(a, env), xs)
                return r if isinstance(op, ast.In) else "(negb %s)" % r
            if isinstance(op, (ast.Eq, ast.NotEq)):
                if self.is_str(a, env) and self.is_str(b, env):
                    r = "(str_eqb %s %s)" % (self.sexpr(a, env), self.sexpr(b, env))
                else:
                    r = "(Z.eqb %s %s)" % (self.zexpr(a, env), self.zexpr(b, env))
                return r if isinstance(op, ast.Eq) else "(negb %s)" % r
        fail(n, "condition outside the translated subset")

    # ---- statements
    def returns(self, stmts):
        if not stmts:
            return False
        last = stmts[-1]
        if isinstance(last, ast.Return):
            return True
        if isinstance(last, ast.If):
            return self.returns(last.body) and bool(last.orelse) and self.returns(last.orelse)
        return False

    def body(self, stmts, env, ind):
        pad = "  " * ind
        if not stmts:
            raise GuardError("a path of run() ends without return")
        st, rest = stmts[0], stmts[1:]
        if isinstance(st, ast.Return):
            v = st.value
            if not (isinstance(v, ast.Tuple) and len(v.elts) == 2 and isinstance(v.elts[0], ast.Constant)
                    and v.elts[0].value is False and isinstance(v.elts[1], ast.Constant) and v.elts[1].value == 0):
                fail(st, "return value is not (False, 0)")
            return pad + "(c, em)"
        if isinstance(st, ast.If):
            c = self.truth(st.test, env)
            thn = self.body(st.body if self.returns(st.body) else st.body + rest, dict(env), ind + 1)
            els_stmts = st.orelse if (st.orelse and self.returns(st.orelse)) else st.orelse + rest
            els = self.body(els_stmts, dict(env), ind + 1)
            return "%sif %s then\n%s\n%selse\n%s" % (pad, c, thn, pad, els)
        if isinstance(st, ast.AugAssign):
            if isinstance(st.target, ast.Name) and isinstance(st.op, ast.Add) and isinstance(st.value, ast.Constant) \
                    and st.value.value == 1 and env.get(st.target.id, ("",))[0] == "pos" and env[st.target.id][1] in NEXT_PLUS1:
                env = dict(env)
                env[st.target.id] = ("pos", NEXT_PLUS1[env[st.target.id][1]])
                return self.body(rest, env, ind)
            fail(st, "augmented assignment")
        if isinstance(st, ast.Expr):
            v = st.value
            if is_ctx_call(v, "new_error") and len(v.args) == 2 and not v.keywords and isinstance(v.args[0], ast.Constant) \
                    and isinstance(v.args[0].value, str):
                self.tok(v.args[1], env)             # must be a token expression (its position is not modelled)
                self.codes.append(v.args[0].value)
                return "%slet em := em ++ [%s] in\n%s" % (pad, coq_str(v.args[0].value), self.body(rest, env, ind))
            fail(st, "expression statement")
        if isinstance(st, ast.Assign) and len(st.targets) == 1:
            tg, v = st.targets[0], st.value
            if isinstance(tg, ast.Attribute) and ast.unparse(tg) == "context.protected" and isinstance(v, ast.Constant) \
                    and isinstance(v.value, bool):
                return "%slet c := set_protected c %s in\n%s" % (pad, "true" if v.value else "false", self.body(rest, env, ind))
            if not isinstance(tg, ast.Name):
                fail(st, "assignment target")
            env = dict(env)
            if is_ctx_call(v, "skip_ws"):
                env[tg.id] = ("pos", self.skip_ws(v, env))
                return self.body(rest, env, ind)
            if is_ctx_call(v, "peek_token"):
                env[tg.id] = ("tok", self.tok(v, env))
                return self.body(rest, env, ind)
            if isinstance(v, ast.Tuple) and v.elts and all(isinstance(e, ast.Constant) and isinstance(e.value, str) for e in v.elts):
                env[tg.id] = ("strs", "[" + "; ".join(coq_str(e.value) for e in v.elts) + "]")
                return self.body(rest, env, ind)
            if ast.unparse(v) == "context.history[:-1]":
                env[tg.id] = ("hist", "(removelast (g_history c))")
                return self.body(rest, env, ind)
            if isinstance(v, ast.Call) and ast.unparse(v.func) == "itertools.filterfalse" and len(v.args) == 2 and not v.keywords:
                lam, src = v.args
                if not (isinstance(lam, ast.Lambda) and len(lam.args.args) == 1 and not lam.args.defaults
                        and isinstance(lam.body, ast.Compare) and len(lam.body.ops) == 1 and isinstance(lam.body.ops[0], ast.In)
                        and isinstance(lam.body.left, ast.Name) and lam.body.left.id == lam.args.args[0].arg
                        and isinstance(lam.body.comparators[0], ast.Name)
                        and env.get(lam.body.comparators[0].id, ("",))[0] == "strs"
                        and isinstance(src, ast.Name) and env.get(src.id, ("",))[0] == "hist"):
                    fail(st, "filterfalse shape")
                env[tg.id] = ("hist", "(filterfalse_in %s %s)" % (env[lam.body.comparators[0].id][1], env[src.id][1]))
                return self.body(rest, env, ind)
            e = self.sexpr(v, env)
            self.fresh += 1
            nm = "s_%s_%d" % (tg.id, self.fresh)
            env[tg.id] = ("str", nm)
            return "%slet %s := %s in\n%s" % (pad, nm, e, self.body(rest, env, ind))
        fail(st, "statement outside the translated subset")


def translate_run(repo):
    tree = parse(repo, "norminette/rules/check_preprocessor_protection.py")
    cls = find_class(tree, "CheckPreprocessorProtection")
    run = find_method(cls, "run")
    if [a.arg for a in run.args.args] != ["self", "context"] or run.args.vararg or run.args.kwarg or run.decorator_list:
        raise GuardError("CheckPreprocessorProtection.run: unexpected signature")
    others = [n.name for n in cls.body if isinstance(n, ast.FunctionDef) and n.name != "run"]
    if others:
        raise GuardError("CheckPreprocessorProtection has helper methods %r: not translated" % others)
    for n in ast.walk(run):
        if isinstance(n, (ast.While, ast.For, ast.Try, ast.With, ast.Global, ast.Nonlocal, ast.Yield, ast.Await, ast.Raise)):
            fail(n, "control construct outside the translated subset")
    tr = RunTr()
    text = tr.body(strip_doc(run), {}, 1)
    dep = None
    for n in cls.body:
        if isinstance(n, ast.Assign) and len(n.targets) == 1 and ast.unparse(n.targets[0]) == "depends_on":
            dep = [e.value for e in n.value.elts]
    if dep is None:
        raise GuardError("CheckPreprocessorProtection.depends_on not found")
    bases = [ast.unparse(b) for b in cls.bases] + ["%s=%s" % (k.arg, ast.unparse(k.value)) for k in cls.keywords]
    return text, tr.codes, dep, bases, run


# ---------------------------------------------------------------------------- IsPreprocessorStatement tables
def directive_table(repo):
    tree = parse(repo, "norminette/rules/is_preprocessor_statement.py")
    cls = find_class(tree, "IsPreprocessorStatement")
    rows = []
    for fn in cls.body:
        if not (isinstance(fn, ast.FunctionDef) and fn.name.startswith("check_")):
            continue
        delta, macro = 0, False
        top = set(id(x) for x in fn.body)
        for n in ast.walk(fn):
            tg = None
            if isinstance(n, ast.AugAssign):
                tg = n.target
            elif isinstance(n, ast.Assign):
                tg = n.targets[0] if len(n.targets) == 1 else fail(n, "multiple assignment")
            elif isinstance(n, ast.NamedExpr):
                tg = n.target
            if tg is not None and isinstance(tg, ast.Attribute) and tg.attr in ("indent", "_indent", "macros", "protected", "history"):
                if not (isinstance(n, ast.AugAssign) and ast.unparse(tg) == "context.preproc.indent" and id(n) in top
                        and isinstance(n.op, (ast.Add, ast.Sub)) and isinstance(n.value, ast.Constant) and n.value.value == 1):
                    fail(n, "%s: write of .%s that is not a top-level `context.preproc.indent +=/-= 1`" % (fn.name, tg.attr))
                delta += 1 if isinstance(n.op, ast.Add) else -1
            if isinstance(n, ast.Call) and isinstance(n.func, ast.Attribute) and isinstance(n.func.value, ast.Attribute) \
                    and n.func.value.attr in ("macros", "history"):
                if not (ast.unparse(n.func) == "context.preproc.macros.append" and len(n.args) == 1 and not macro
                        and any(isinstance(x, ast.Expr) and x.value is n for x in fn.body)):
                    fail(n, "%s: unexpected call on .macros/.history" % fn.name)
                macro = True
        rows.append((fn.name[len("check_"):], delta, macro))
    if not rows:
        raise GuardError("no check_* method in IsPreprocessorStatement")
    return rows, cls


def state_writers(repo):
    """every syntactic write (assignment, augmented assignment, mutator call, del) of an attribute named
    protected / indent / _indent / macros / history anywhere in the package"""
    names = {"protected", "indent", "_indent", "macros", "history"}
    muts = {"append", "extend", "pop", "remove", "clear", "insert", "sort", "reverse"}
    out = []
    files = sorted(glob.glob(os.path.join(repo, "norminette", "**", "*.py"), recursive=True))
    for p in files:
        rel = os.path.relpath(p, repo)
        with open(p) as f:
            tree = ast.parse(f.read(), filename=p)

        def visit(node, where):
            for n in ast.iter_child_nodes(node):
                w = where
                if isinstance(n, (ast.FunctionDef, ast.AsyncFunctionDef, ast.ClassDef)):
                    w = (where + "." if where else "") + n.name
                tgs = []
                if isinstance(n, ast.Assign):
                    tgs = n.targets
                elif isinstance(n, (ast.AugAssign, ast.AnnAssign, ast.NamedExpr)):
                    tgs = [n.target]
                elif isinstance(n, ast.Delete):
                    tgs = n.targets
                for t in tgs:
                    for x in ast.walk(t):
                        if isinstance(x, ast.Attribute) and x.attr in names and isinstance(x.ctx, (ast.Store, ast.Del)):
                            out.append((rel, w, "%s %s" % (type(n).__name__, ast.unparse(x))))
                        if isinstance(x, ast.Subscript) and isinstance(x.value, ast.Attribute) and x.value.attr in names:
                            out.append((rel, w, "%s %s" % (type(n).__name__, ast.unparse(x))))
                if isinstance(n, ast.Call) and isinstance(n.func, ast.Attribute) and n.func.attr in muts \
                        and isinstance(n.func.value, ast.Attribute) and n.func.value.attr in names:
                    out.append((rel, w, "call %s" % ast.unparse(n.func)))
                if isinstance(n, ast.Call) and isinstance(n.func, ast.Name) and n.func.id in ("setattr", "delattr", "exec", "eval"):
                    raise GuardError("%s: dynamic construct %s() in %s" % (rel, n.func.id, w))
                visit(n, w)
        visit(tree, "")
    return sorted(set(out))


def gen_guard(repo, L):
    text, codes, dep, bases, run = translate_run(repo)
    rows, ips = directive_table(repo)
    o = "From NV Require Import Model.Base Model.GuardBase.\n\n"
    o += "(* CheckPreprocessorProtection.run, translated statement by statement.  v = view of the current\n"
    o += "   preprocessor statement, c = context when the check runs (after IsPreprocessorStatement's own effects\n"
    o += "   and after run_rules appended the rule to context.history); result = context afterwards, codes emitted *)\n"
    o += "Definition prot_run (v : gview) (c : gctx) : gctx * list str :=\n  let em : list str := [] in\n%s.\n\n" % text
    o += "Definition prot_codes : list str := [%s].\n" % "; ".join(coq_str(x) for x in codes)
    o += "Definition prot_depends_on : list str := [%s].\n" % "; ".join(coq_str(x) for x in dep)
    o += "Definition prot_class_bases : list string := [%s].\n\n" % "; ".join(lit(x) for x in bases)
    o += "(* IsPreprocessorStatement.check_<directive>: (directive, net change of context.preproc.indent, appends to context.preproc.macros) *)\n"
    o += "Definition directive_table : list (str * (Z * bool)) :=\n  [%s].\n\n" % ";\n   ".join(
        "(%s, (%d, %s))" % (coq_str(n), d, "true" if m else "false") for n, d, m in rows)
    # helpers the hand-written model stands for: pinned by fingerprint
    ctx = parse(repo, "norminette/context.py")
    reg = parse(repo, "norminette/registry.py")
    rule = parse(repo, "norminette/rules/rule.py")
    fil = parse(repo, "norminette/file.py")
    rcls = find_class(rule, "Rule")
    for n in rcls.body:
        if isinstance(n, ast.FunctionDef) and n.name in ("__bool__", "__len__"):
            raise GuardError("Rule defines %s: `if next(history, None)` is no longer an emptiness test" % n.name)
    fps = [("IsPreprocessorStatement.run", fingerprint(find_method(ips, "run")))]
    for fn in ips.body:
        if isinstance(fn, ast.FunctionDef) and fn.name.startswith("check_") and fn.name[6:] in (
                "define", "if", "ifdef", "ifndef", "elif", "else", "endif"):
            fps.append(("IsPreprocessorStatement." + fn.name, fingerprint(fn)))
    fps.append(("context.PreProcessors", fingerprint(find_class(ctx, "PreProcessors"))))
    fps.append(("context.Macro", fingerprint(find_class(ctx, "Macro"))))
    fps.append(("context.Context.skip_ws", fingerprint(find_method(find_class(ctx, "Context"), "skip_ws"))))
    fps.append(("context.Context.peek_token", fingerprint(find_method(find_class(ctx, "Context"), "peek_token"))))
    fps.append(("context.Context.check_token", fingerprint(find_method(find_class(ctx, "Context"), "check_token"))))
    fps.append(("registry.Registry.run_rules", fingerprint(find_method(find_class(reg, "Registry"), "run_rules"))))
    fps.append(("rule.Rule.__eq__", fingerprint(find_method(rcls, "__eq__"))))
    fps.append(("file.File.__init__", fingerprint(find_method(find_class(fil, "File"), "__init__"))))
    o += "(* normalised AST fingerprints (sha256 of ast.dump without positions/docstrings) of the helpers modelled by hand *)\n"
    o += "Definition helper_fingerprints : list (string * string) :=\n  [%s].\n\n" % ";\n   ".join(
        "(%s, %s)" % (lit(a), lit(b)) for a, b in fps)
    o += "Definition ctx_init_preproc_state : list string := [%s].\n\n" % "; ".join(lit(x) for x in init_lines(ctx))
    o += "(* every syntactic write of an attribute named protected/indent/_indent/macros/history in norminette/ *)\n"
    o += "Definition state_writers : list (string * string * string) :=\n  [%s].\n\n" % ";\n   ".join(
        "(%s, %s, %s)" % (lit(a), lit(b), lit(c)) for a, b, c in state_writers(repo))
    # live values
    ups = [chr(i).upper() for i in range(128)]
    o += "(* chr(i).upper() for i in range(128), computed by the running interpreter *)\n"
    o += "Definition live_ascii_upper : list str :=\n  [%s].\n\n" % "; ".join(
        "[" + "; ".join("%d%%N" % ord(ch) for ch in u) + "]" for u in ups)
    gexpr = None
    for n in ast.walk(run):
        if isinstance(n, ast.Assign) and len(n.targets) == 1 and isinstance(n.targets[0], ast.Name) and n.targets[0].id == "guard":
            gexpr = n.value
    if gexpr is None:
        raise GuardError("run(): assignment to `guard` not found")
    code = compile(ast.Expression(gexpr), "<guard>", "eval")

    class _F:
        pass
    samples = ["a.h", "libft.h", "get_next_line.h", "a.b.h", "a..h", ".a.h", "_.h", "z9_.x.h", "ft_printf_bonus.h", "h.h",
               "abcdefghijklmnopqrstuvwxyz0123456789_.h", "a.h.h", "x", "...a.h", "0.h", "push_swap.h"]
    vals = []
    for b in samples:
        cx, fl = _F(), _F()
        fl.basename = b
        cx.file = fl
        vals.append((b, eval(code, {"context": cx})))
    if not all(isinstance(v, str) for _, v in vals):
        raise GuardError("guard expression does not evaluate to a string")
    o += "(* the source's guard expression `%s` evaluated on sample base names *)\n" % ast.unparse(gexpr)
    o += "Definition live_guard_samples : list (str * str) :=\n  [%s].\n\n" % ";\n   ".join(
        "(%s, %s)" % (coq_str(a), coq_str(b)) for a, b in vals)
    names = samples + [".h", "..h", "a.", "a", ".", "", "a.c", "a.hh", "a.h.", "..a", "a.b.c", ".a", "a..", "....h", ".a..h"]
    o += "(* os.path.splitext(name)[1] (= File.type for a base name) on sample names *)\n"
    o += "Definition live_splitext_samples : list (str * str) :=\n  [%s].\n" % ";\n   ".join(
        "(%s, %s)" % (coq_str(a), coq_str(os.path.splitext(a)[1])) for a in names)
    return o


def init_lines(ctx):
    """the initial values: self.protected / self.history in Context.__init__, self.indent / self.macros in PreProcessors.__init__"""
    out = []
    for cname, fields in (("Context", ("protected", "history")), ("PreProcessors", ("indent", "macros"))):
        init = find_method(find_class(ctx, cname), "__init__")
        for n in init.body:
            if isinstance(n, ast.Assign) and len(n.targets) == 1 and isinstance(n.targets[0], ast.Attribute) \
                    and n.targets[0].attr in fields:
                out.append("%s: %s" % (cname, ast.unparse(n)))
    return out


GENERATORS = {"Guard": gen_guard}
