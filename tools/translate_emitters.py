"""Static emission sites (Gen/Emitters.v): every syntactic place of <repo>/norminette that can create or record a
diagnostic (`new_error`, `new_warning`, `Error.from_name`, `Error(...)`, `<...errors>.add/append`).

Three tables:
  emitters          (file, function, code, level)    every site; code = literal or `<dynamic: expr>`
  emitter_patterns  (file, function, prefix, suffix) f-string codes: any  prefix ++ x ++ suffix
  emitter_opaque    (file, function, expr)           code unknown statically (the Coq theorems fail when non-empty)
Fail closed: anything unexpected is a SyntaxError (recorded by translate.py; the proofs then cannot build).
"""
import ast
import os

# wrapper definitions: (file, qualified function) whose body forwards a code received as a parameter
WRAPPERS = {
    ("norminette/context.py", "Context.new_error"),
    ("norminette/context.py", "Context.new_warning"),
    ("norminette/errors.py", "Errors.add"),
    ("norminette/errors.py", "Error.from_name"),
}
EMIT_ATTRS = ("new_error", "new_warning", "from_name")


class Shape(SyntaxError):
    pass


def lit(x):
    if not isinstance(x, str) or not all(32 <= ord(c) < 127 for c in x):
        raise Shape("non-ASCII or non-printable text in an emitter entry: %r" % (x,))
    return '"' + x.replace('"', '""') + '"%string'


def py_files(repo):
    root = os.path.join(repo, "norminette")
    if not os.path.isdir(root):
        raise Shape("no norminette package under %s" % repo)
    out = []
    for d, dirs, files in os.walk(root):
        dirs.sort()
        for f in files:
            if f.endswith(".py"):
                out.append(os.path.join(d, f))
    return sorted(out)


def params_of(fn):
    a = fn.args
    names = {x.arg for x in a.posonlyargs + a.args + a.kwonlyargs}
    if a.vararg:
        names.add(a.vararg.arg)
    if a.kwarg:
        names.add(a.kwarg.arg)
    return names


def own_nodes(fn):
    """nodes of the body of `fn`, not descending into nested function / class definitions"""
    stack = list(fn.body) if hasattr(fn, "body") else []
    while stack:
        n = stack.pop()
        yield n
        if isinstance(n, (ast.FunctionDef, ast.AsyncFunctionDef, ast.ClassDef)):
            continue
        stack.extend(ast.iter_child_nodes(n))


def bindings(fn):
    """name -> list of value expressions it is bound from in this function (None = a binding of unknown origin)"""
    b = {}

    def unknown(target):
        for x in ast.walk(target):
            if isinstance(x, ast.Name):
                b.setdefault(x.id, []).append(None)

    for n in own_nodes(fn):
        if isinstance(n, ast.Assign):
            for t in n.targets:
                if isinstance(t, ast.Name):
                    b.setdefault(t.id, []).append(n.value)
                else:
                    unknown(t)
        elif isinstance(n, ast.AnnAssign):
            if isinstance(n.target, ast.Name) and n.value is not None:
                b.setdefault(n.target.id, []).append(n.value)
            elif n.value is not None:
                unknown(n.target)
        elif isinstance(n, (ast.AugAssign, ast.NamedExpr)):
            unknown(n.target)
        elif isinstance(n, (ast.For, ast.AsyncFor, ast.comprehension)):
            unknown(n.target)
        elif isinstance(n, (ast.With, ast.AsyncWith)):
            for it in n.items:
                if it.optional_vars is not None:
                    unknown(it.optional_vars)
        elif isinstance(n, ast.ExceptHandler) and n.name:
            b.setdefault(n.name, []).append(None)
        elif isinstance(n, (ast.Import, ast.ImportFrom)):
            for a in n.names:
                b.setdefault((a.asname or a.name).split(".")[0], []).append(None)
        elif isinstance(n, (ast.Global, ast.Nonlocal)):
            for x in n.names:
                b.setdefault(x, []).append(None)
        elif isinstance(n, (ast.FunctionDef, ast.AsyncFunctionDef, ast.ClassDef)):
            b.setdefault(n.name, []).append(None)
        elif hasattr(ast, "Match") and isinstance(n, getattr(ast, "Match")):
            raise Shape("match statement in a function with emitters is not supported")
    return b


def classify(call, in_error_class):
    """kind of emission site of a Call, or None"""
    f = call.func
    if isinstance(f, ast.Attribute):
        if f.attr in ("new_error", "new_warning"):
            return f.attr
        if f.attr == "from_name":
            return "from_name"
        if f.attr in ("add", "append") and ast.unparse(f.value).endswith("errors"):
            return "add"
    elif isinstance(f, ast.Name):
        if f.id == "Error":
            return "Error"
        if f.id == "cls" and in_error_class:
            return "Error"
    return None


def level_of(call, kind, is_wrapper, where):
    lvl = "Notice" if kind == "new_warning" else "Error"
    for kw in call.keywords:
        if kw.arg is None:
            if not is_wrapper:
                raise Shape("%s: **kwargs at an emission site outside the wrapper definitions" % (where,))
            lvl = "<forwarded>"
        elif kw.arg == "level":
            if isinstance(kw.value, ast.Constant) and kw.value.value in ("Error", "Notice"):
                lvl = kw.value.value
            elif is_wrapper:
                lvl = "<forwarded>"
            else:
                raise Shape("%s: level= is not a literal Error/Notice" % (where,))
    if kind == "Error" and len(call.args) >= 3:
        a = call.args[2]
        if isinstance(a, ast.Constant) and a.value in ("Error", "Notice"):
            lvl = a.value
        elif is_wrapper:
            lvl = "<forwarded>"
        else:
            raise Shape("%s: positional level is not a literal" % (where,))
    return lvl


def analyse_file(repo, path, sites, patterns, opaque):
    rel = os.path.relpath(path, repo).replace(os.sep, "/")
    with open(path, encoding="utf-8") as f:
        tree = ast.parse(f.read(), filename=path)

    def forwarded(expr, fn, binds, depth=0):
        """inside a wrapper definition: is `expr` one of the function's own parameters (possibly through
        a local that is only bound from such expressions / subscripts of them)?"""
        if depth > 4 or fn is None:
            return False
        pars = params_of(fn)
        if isinstance(expr, ast.Starred):
            return forwarded(expr.value, fn, binds, depth + 1)
        if isinstance(expr, ast.Subscript):
            return forwarded(expr.value, fn, binds, depth + 1)
        if isinstance(expr, ast.Name):
            if expr.id in pars and expr.id not in binds:
                return True
            vals = binds.get(expr.id)
            if not vals:
                return False
            ok = True
            for v in vals:
                if v is None:
                    return False
                if isinstance(v, ast.Constant) and v.value is None:
                    continue  # `error = None` initialisation
                if isinstance(v, ast.Call) and classify(v, in_error) is not None:
                    continue  # rebinding to an object built at another recorded site
                if not forwarded(v, fn, binds, depth + 1):
                    ok = False
            return ok
        return False

    def built_here(name, binds):
        vals = binds.get(name)
        if not vals:
            return False
        built = 0
        for v in vals:
            if isinstance(v, ast.Constant) and v.value is None:
                continue  # `error = None` initialisation (adding None is an AssertionError, not an emission)
            if v is None or not isinstance(v, ast.Call):
                return False
            if classify(v, in_error) not in ("from_name", "Error"):
                return False
            built += 1
        return built > 0

    def visit_scope(scope, qual, fn):
        """scope: Module / ClassDef / FunctionDef;  qual: qualified name;  fn: enclosing function node or None"""
        nonlocal in_error
        where_name = qual or "<module>"
        is_wrapper = (rel, where_name) in WRAPPERS
        binds = bindings(scope) if fn is not None else {}
        pars = params_of(fn) if fn is not None else set()
        nodes = own_nodes(scope)
        calls = []
        called_funcs = set()
        all_nodes = []
        for n in nodes:
            all_nodes.append(n)
            if isinstance(n, ast.Call):
                calls.append(n)
                called_funcs.add(id(n.func))
        # decorators / default values of nested definitions belong to this scope: own_nodes yields the def node only,
        # so look at them explicitly
        for n in list(all_nodes):
            if isinstance(n, (ast.FunctionDef, ast.AsyncFunctionDef)):
                extra = list(n.decorator_list) + list(n.args.defaults) + [d for d in n.args.kw_defaults if d is not None]
            elif isinstance(n, ast.ClassDef):
                extra = list(n.decorator_list) + list(n.bases) + [k.value for k in n.keywords]
            else:
                continue
            for e in extra:
                for x in ast.walk(e):
                    all_nodes.append(x)
                    if isinstance(x, ast.Call):
                        calls.append(x)
                        called_funcs.add(id(x.func))
        calls.sort(key=lambda c: (c.lineno, c.col_offset))
        for c in calls:
            kind = classify(c, in_error)
            if kind is None:
                continue
            where = "%s:%d (%s)" % (rel, c.lineno, where_name)
            level = level_of(c, kind, is_wrapper, where)
            if not c.args:
                kwcode = [kw for kw in c.keywords if kw.arg in ("name", "errno")]
                if kind == "add" and not c.keywords:
                    # e.g. some_set_named_errors.add() - not an emission
                    raise Shape("%s: emission call without arguments" % where)
                if len(kwcode) == 1:
                    arg = kwcode[0].value
                elif is_wrapper and any(kw.arg is None for kw in c.keywords):
                    sites.append((rel, c.lineno, c.col_offset, where_name, "<dynamic: **%s>" % ast.unparse(
                        [kw for kw in c.keywords if kw.arg is None][0].value), level))
                    continue
                else:
                    raise Shape("%s: emission call without a code argument" % where)
            else:
                arg = c.args[0]
            if isinstance(arg, ast.Constant) and isinstance(arg.value, str):
                sites.append((rel, c.lineno, c.col_offset, where_name, arg.value, level))
                continue
            text = "<dynamic: %s>" % ast.unparse(arg)
            sites.append((rel, c.lineno, c.col_offset, where_name, text, level))
            if isinstance(arg, ast.JoinedStr):
                vals = arg.values
                pre = ""
                i = 0
                while i < len(vals) and isinstance(vals[i], ast.Constant) and isinstance(vals[i].value, str):
                    pre += vals[i].value
                    i += 1
                suf = ""
                j = len(vals)
                while j > i and isinstance(vals[j - 1], ast.Constant) and isinstance(vals[j - 1].value, str):
                    suf = vals[j - 1].value + suf
                    j -= 1
                if i == len(vals):
                    raise Shape("%s: f-string without a hole as a code" % where)
                if pre == "" and suf == "":
                    opaque.append((rel, c.lineno, c.col_offset, where_name, ast.unparse(arg)))
                else:
                    patterns.append((rel, c.lineno, c.col_offset, where_name, pre, suf))
                continue
            # recognised forwarding shapes
            if is_wrapper and forwarded(arg, fn, binds):
                continue
            if kind == "add" and isinstance(arg, ast.Name) and arg.id not in pars and built_here(arg.id, binds):
                continue
            opaque.append((rel, c.lineno, c.col_offset, where_name, ast.unparse(arg)))
        # references to the emitting functions that are not direct calls (aliasing): unknown code source
        for n in all_nodes:
            if isinstance(n, ast.Attribute) and n.attr in EMIT_ATTRS and id(n) not in called_funcs:
                opaque.append((rel, n.lineno, n.col_offset, where_name, "reference: " + ast.unparse(n)))
            if isinstance(n, ast.Constant) and isinstance(n.value, str) and n.value in EMIT_ATTRS:
                opaque.append((rel, n.lineno, n.col_offset, where_name, "name as a string: " + n.value))
        # nested scopes
        for n in all_nodes:
            if isinstance(n, (ast.FunctionDef, ast.AsyncFunctionDef)):
                visit_scope(n, (qual + "." if qual else "") + n.name, n)
            elif isinstance(n, ast.ClassDef):
                saved = in_error
                in_error = (n.name == "Error")
                visit_scope(n, (qual + "." if qual else "") + n.name, None)
                in_error = saved

    in_error = False
    visit_scope(tree, "", None)


def check_wrappers(repo, sites, opaque):
    """the wrapper definitions must exist with the expected forwarding shape, otherwise calls to them mean
    something else: record that as opaque (the theorems then fail)"""
    have = {}
    for (f, _l, _c, fn, code, lvl) in sorted(sites):
        if (f, fn) in WRAPPERS:
            have.setdefault((f, fn), []).append((code, lvl))
    expect = {
        ("norminette/context.py", "Context.new_error"): [("<dynamic: errno>", "Error"), ("<dynamic: error>", "Error")],
        ("norminette/context.py", "Context.new_warning"): [("<dynamic: errno>", "Notice"), ("<dynamic: error>", "Error")],
        ("norminette/errors.py", "Error.from_name"): [("<dynamic: name>", "<forwarded>")],
        ("norminette/errors.py", "Errors.add"): [("<dynamic: error>", "<forwarded>"), ("<dynamic: *args>", "<forwarded>")],
    }
    for k in sorted(WRAPPERS):
        if have.get(k) != expect[k]:
            opaque.append((k[0], 0, 0, k[1], "wrapper definition missing or of another shape: %r" % (have.get(k),)))


def gen_emitters_inner(repo):
    sites, patterns, opaque = [], [], []
    for p in py_files(repo):
        analyse_file(repo, p, sites, patterns, opaque)
    check_wrappers(repo, sites, opaque)
    if not sites:
        raise Shape("no emission site found")
    # deterministic source order; the line/column only serve as the sort key
    sites = [(t[0],) + tuple(t[3:]) for t in sorted(sites)]
    patterns = [(t[0],) + tuple(t[3:]) for t in sorted(patterns)]
    opaque = [(t[0],) + tuple(t[3:]) for t in sorted(opaque)]
    o = "From NV Require Import Model.Base.\n\n"
    o += "(* every static emission site of norminette/: (file, function, code, level) *)\n"
    o += "Definition emitters : list (string * string * string * string) :=\n  [%s].\n\n" % ";\n   ".join(
        "(%s, %s, %s, %s)" % tuple(lit(x) for x in t) for t in sites)
    o += "(* f-string codes: (file, function, constant prefix, constant suffix) -\n"
    o += "   a site that can produce any code  prefix ++ x ++ suffix *)\n"
    o += "Definition emitter_patterns : list (string * string * string * string) :=\n  [%s].\n\n" % ";\n   ".join(
        "(%s, %s, %s, %s)" % tuple(lit(x) for x in t) for t in patterns)
    o += "(* sites whose code is neither a literal nor an f-string with a constant prefix or suffix,\n"
    o += "   and not a recognised forwarding shape: (file, function, expr) *)\n"
    o += "Definition emitter_opaque : list (string * string * string) :=\n  [%s].\n" % ";\n   ".join(
        "(%s, %s, %s)" % tuple(lit(x) for x in t) for t in opaque)
    return o


def gen_emitters(repo, L):
    try:
        return gen_emitters_inner(repo)
    except (SyntaxError, OSError, KeyError):
        raise
    except Exception as e:  # fail closed, never crash the shared translator
        raise SyntaxError("Emitters generator: unexpected %s: %s" % (type(e).__name__, e))


GENERATORS = {"Emitters": gen_emitters}

if __name__ == "__main__":
    import sys
    sys.stdout.write(gen_emitters(sys.argv[1], {}))
