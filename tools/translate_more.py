"""Gen/MoreChecks.v (property C02, second batch): further check methods translated statement by statement with the machinery of
translate_rules.py, extended here (fail closed as before) by

  * `return` inside a `while`: such a loop becomes a Fixpoint returning (option <return value>, state); after the loop the
    method ends with that value or goes on;
  * helper methods of a check (`self.check_nest(context, i)`) as functions of their own, called in `if self.helper(..) == -1:`;
  * `while C: x += 1; y += 1`;  `tok = context.peek_token(i)` as a local, `tok.type`, f-string codes `f"FORBIDDEN_{tok.type}"`,
    `context.file.type`, `context.scope not in ("A", "B")` (Scope.__eq__ compares the class name - pinned);
  * slices: only the statements up to a marker are translated when the rest of the method is out of reach; the codes the slice can
    emit are listed so that the correspondence compares exactly those.

Translated: CheckUtypeDeclaration.run up to the FORBIDDEN_<type> test (T01-T04), CheckExpressionStatement.run (S11, O07),
CheckControlStatement.run + check_nest (S01, S02, S06)."""
import ast

import translate_rules as TR
from translate_rules import RulesError, MethodTr, WhileCtx, parse, find_class, find_method, strip_doc, fingerprint, cstr, is_ctx_call, ctx_attr, is_ctx
from translate_scope import same, lit
from translate_counters import ArgsTr, stores_names

TR.COQTY.setdefault("opttok", "option token")


def fail(node, why):
    raise RulesError("%s at line %s: %s" % (why, getattr(node, "lineno", "?"), ast.dump(node)[:200] if isinstance(node, ast.AST) else node))


class RunTop:
    """top level of a check's run(): the value it returns is ignored by Registry.run_rules"""
    kind = "top"
    rv_type = "unit"

    def fall(self, tr):
        return "Ok (E, v)"

    def check_return(self, st, env):
        v = st.value
        if v is None:
            return
        if isinstance(v, ast.Tuple) and len(v.elts) == 2 and isinstance(v.elts[0], ast.Constant) and isinstance(v.elts[0].value, bool) \
                and (isinstance(v.elts[1], ast.Constant) or (isinstance(v.elts[1], ast.Name) and env.get(v.elts[1].id) == "Z")):
            return
        fail(st, "return value of run")

    def retval(self, st):
        return "tt"

    def finish(self, rv):
        return "Ok (E, v)"

    def ret(self, tr):
        return "Ok (E, v)"

    def cont(self, tr):
        fail("continue", "continue outside a loop")

    brk = cont


class HelperTop:
    """a helper whose callers only test `== -1`: the value is the boolean `returned -1`"""
    kind = "top"
    rv_type = "bool"

    def fall(self, tr):
        return "Ok (false, E)"

    def check_return(self, st, env):
        v = st.value
        if v is None or (isinstance(v, ast.UnaryOp) and isinstance(v.op, ast.USub) and isinstance(v.operand, ast.Constant) and v.operand.value == 1):
            return
        fail(st, "return value of a helper")

    def retval(self, st):
        return "false" if st.value is None else "true"

    def finish(self, rv):
        return "Ok (%s, E)" % rv

    def ret(self, tr):
        return "Ok (%s, E)" % self.retval(tr.cur_return)

    def cont(self, tr):
        fail("continue", "continue outside a loop")

    brk = cont


class WhileRetCtx:
    kind = "while"

    def __init__(self, name, state, outer):
        self.name, self.state, self.outer = name, state, outer

    def fall(self, tr):
        return "%s f toks scope %s E v" % (self.name, " ".join(tr.cn(x) for x, _ in self.state)) if self.state else "%s f toks scope E v" % self.name

    cont = fall

    def brk(self, tr):
        return "Ok (None, %s)" % tr.tuple_of(self.state)

    def ret(self, tr):
        return "Ok (Some %s, %s)" % (self.outer.retval(tr.cur_return), tr.tuple_of(self.state))

    def check_return(self, st, env):
        self.outer.check_return(st, env)


class MoreTr(ArgsTr):
    def __init__(self, clsname, coqname, module_tree, cls_node, params=()):
        ArgsTr.__init__(self, clsname, coqname, module_tree)
        self.cls_node = cls_node
        self.params = dict(params)        # python expression source -> (coq name, type)
        self.helpers = {}                 # name -> coq function name
        self.cur_return = None

    # ---- expressions
    def attribute(self, n, env):
        src = ast.unparse(n)
        if src in self.params:
            return self.params[src]
        if n.attr == "type" and not is_ctx(n.value):
            o, to = self.ex(n.value, env)
            if to == "tok":
                return ("(t_type %s)" % o, "str")
            if to == "opttok":
                return ("(t_type %s)" % self.need("tok", o, n), "str")
        return ArgsTr.attribute(self, n, env)

    def compare(self, n, env):
        # context.scope [not] in ("A", "B"): Scope.__eq__(str) compares the class name
        if len(n.ops) == 1 and isinstance(n.ops[0], (ast.In, ast.NotIn)) and ctx_attr(n.left, "scope"):
            consts = self.str_consts(n.comparators[0])
            if not consts:
                fail(n, "scope membership")
            t = "(str_in (v_scope_name v) %s)" % consts
            return (t if isinstance(n.ops[0], ast.In) else "(negb %s)" % t, "bool")
        return ArgsTr.compare(self, n, env)

    # ---- statements
    def assign(self, st, env, ctx, after, depth):
        if len(st.targets) == 1 and isinstance(st.targets[0], ast.Name) and not is_ctx_call(st.value, "skip_nest"):
            name = st.targets[0].id
            tdepth = self.__dict__.setdefault("tdepth", {})
            if name not in env:
                tdepth[name] = depth
            elif name not in [x for x, _ in self.state] and tdepth.get(name) == depth and depth > 0:
                # a block-local name re-assigned in the block that introduced it
                val, wrap = self.with_pre(lambda: self.ex(st.value, env))
                if val[1] != env[name]:
                    fail(st, "local changes its type")
                return wrap("let %s := %s in\n%s" % (self.cn(name), val[0], after(env)))
        return ArgsTr.assign(self, st, env, ctx, after, depth)

    def block(self, stmts, env, ctx, tail, depth):
        if stmts:
            st = stmts[0]
            if isinstance(st, ast.Return):
                ctx.check_return(st, env)
                self.cur_return = st
                return ctx.ret(self)
            # new_error(f"PREFIX_{tok.type}", tok)
            if isinstance(st, ast.Expr) and is_ctx_call(st.value, "new_error") and len(st.value.args) == 2 and isinstance(st.value.args[0], ast.JoinedStr):
                js = st.value.args[0]
                if not (len(js.values) == 2 and isinstance(js.values[0], ast.Constant) and isinstance(js.values[1], ast.FormattedValue)
                        and js.values[1].conversion == -1 and js.values[1].format_spec is None):
                    fail(st, "f-string code")
                rest = stmts[1:]

                def build():
                    c, tc = self.ex(js.values[1].value, env)
                    if tc != "str":
                        fail(st, "f-string code part")
                    self.in_error_arg = True
                    try:
                        a, ta = self.ex(st.value.args[1], env)
                    finally:
                        self.in_error_arg = False
                    if ta == "tok":
                        a = "(Some %s)" % a
                    elif ta != "opttok":
                        fail(st, "new_error token argument")
                    return c, a
                (c, a), wrap = self.with_pre(build)
                self.codes.append(js.values[0].value + "*")
                return wrap("bind (emit (%s ++ %s) %s E) (fun E =>\n%s)" % (cstr(js.values[0].value), c, a, self.block(rest, env, ctx, tail, depth)))
        return ArgsTr.block(self, stmts, env, ctx, tail, depth)

    def if_(self, st, rest, env, ctx, tail, depth):
        # if self.helper(context, e) == -1:
        t = st.test
        if isinstance(t, ast.Compare) and len(t.ops) == 1 and isinstance(t.ops[0], ast.Eq) and isinstance(t.left, ast.Call) \
                and isinstance(t.left.func, ast.Attribute) and isinstance(t.left.func.value, ast.Name) and t.left.func.value.id == "self":
            h = t.left.func.attr
            c = t.comparators[0]
            if h not in self.helpers or not (isinstance(c, ast.UnaryOp) and isinstance(c.op, ast.USub) and isinstance(c.operand, ast.Constant) and c.operand.value == 1):
                fail(st, "helper call")
            if len(t.left.args) != 2 or not is_ctx(t.left.args[0]) or t.left.keywords:
                fail(st, "helper call arguments")
            a, ta = self.ex(t.left.args[1], env)
            if ta != "Z":
                fail(st, "helper call argument")
            fresh = self.new("hr")
            new_if = ast.If(test=ast.Name(id="__helper_result__", ctx=ast.Load()), body=st.body, orelse=st.orelse)
            ast.copy_location(new_if, st)
            env2 = dict(env)
            env2["__helper_result__"] = "bool"
            self._hr = fresh
            inner = ArgsTr.if_(self, new_if, rest, env2, ctx, tail, depth)
            return "bind (%s toks scope v %s E) (fun hr => let '(%s, E) := hr in\n%s)" % (self.helpers[h], a, self.cn("__helper_result__"), inner)
        # `A and B ...` where B reads an attribute of a possibly missing token: B is only evaluated when A holds
        if isinstance(t, ast.BoolOp) and isinstance(t.op, ast.And) and len(t.values) >= 2:
            saved = (list(self.aux), list(self.codes), self.fresh, list(self.state))
            try:
                return ArgsTr.if_(self, st, rest, env, ctx, tail, depth)
            except RulesError as e:
                if "partial read" not in str(e):
                    raise
                self.aux, self.codes, self.fresh, self.state = saved
                restt = t.values[1] if len(t.values) == 2 else ast.BoolOp(op=ast.And(), values=t.values[1:])
                inner = ast.copy_location(ast.If(test=restt, body=st.body, orelse=st.orelse), st)
                outer = ast.copy_location(ast.If(test=t.values[0], body=[inner], orelse=st.orelse), st)
                return self.if_(outer, rest, env, ctx, tail, depth)
        return ArgsTr.if_(self, st, rest, env, ctx, tail, depth)

    def while_(self, st, env, ctx, after, depth):
        if st.orelse:
            fail(st, "while-else")
        b = st.body
        # while C: x += 1; y += 1
        if len(b) == 2 and all(isinstance(s, ast.AugAssign) and isinstance(s.target, ast.Name) and isinstance(s.op, ast.Add)
                               and isinstance(s.value, ast.Constant) and s.value.value == 1 and env.get(s.target.id) == "Z" for s in b) \
                and b[0].target.id != b[1].target.id and not any(isinstance(n, ast.Name) and n.id == b[1].target.id for n in ast.walk(st.test)):
            x, y = b[0].target.id, b[1].target.id
            if not TR.stops_at_end(st.test):
                fail(st, "`while C: x += 1; y += 1` whose condition does not turn false at the end of the tokens")
            saved = (self.pre, self.pre_ok)
            self.pre, self.pre_ok = None, False
            try:
                c = self.truth(st.test, env)
            finally:
                self.pre, self.pre_ok = saved
            nx, ny = self.cn(x), self.cn(y)
            return "let %s := %s + (skip_while toks (fun %s => %s) %s - %s) in\nlet %s := skip_while toks (fun %s => %s) %s in\n%s" % (
                ny, ny, nx, c, nx, nx, nx, nx, c, nx, after(env))
        has_ret = any(isinstance(n, ast.Return) for n in ast.walk(st))
        if not has_ret:
            return ArgsTr.while_(self, st, env, ctx, after, depth)
        if ctx.kind != "top" or depth != 0:
            fail(st, "while loop with a return below the top level of the method")
        state = list(self.state)
        name = "%s_loop%d" % (self.coqname, len(self.aux) + 1)
        lctx = WhileRetCtx(name, state, ctx)
        saved = (self.pre, self.pre_ok)
        self.pre, self.pre_ok = None, False
        try:
            c = self.truth(st.test, env)
        finally:
            self.pre, self.pre_ok = saved
        body = self.block(st.body, env, lctx, None, 1)
        tup, tty = self.tuple_of(state), self.tuple_ty(state)
        self.aux.append(
            "Fixpoint %s (fuel : nat) (toks : list token) (scope : Z) %s (E : list em) (v : view) {struct fuel}\n  : outcome (option %s * %s) :=\n"
            "match fuel with\n| O => Hang\n| S f =>\nif %s\nthen (%s)\nelse Ok (None, %s)\nend.\n" % (
                name, self.params_of(state), ctx.rv_type, tty, c, body, tup))
        call = "%s (loop_fuel toks) toks scope %s E v" % (name, " ".join(self.cn(x) for x, _ in state))
        return ("bind (%s) (fun rs => let '(ret, st) := rs in let '%s := st in\nmatch ret with\n| Some rv => %s\n| None =>\n%s\nend)" % (
            call, tup, ctx.finish("rv"), after(env)))


def class_and_run(repo, rel, clsname):
    tree = parse(repo, rel)
    cls = find_class(tree, clsname)
    fn = find_method(cls, "run")
    if [a.arg for a in fn.args.args] != ["self", "context"]:
        fail(fn, "signature of run")
    return tree, cls, fn


def depends(cls):
    dep = [n for n in cls.body if isinstance(n, ast.Assign) and same(n.targets[0], "depends_on", "expr")]
    if not (dep and isinstance(dep[0].value, ast.Tuple) and all(isinstance(e, ast.Constant) for e in dep[0].value.elts)):
        fail(cls, "depends_on")
    return [e.value for e in dep[0].value.elts]


def module_list(tree, name):
    for n in tree.body:
        if isinstance(n, ast.Assign) and same(n.targets[0], name, "expr") and isinstance(n.value, ast.List) \
                and all(isinstance(e, ast.Constant) and isinstance(e.value, str) for e in n.value.elts):
            return [e.value for e in n.value.elts]
    fail(tree, "module list %s" % name)


def codes_def(name, codes):
    return "Definition %s_codes : list str := [%s].\n" % (name, "; ".join(cstr(c) for c in dict.fromkeys(codes)))


# ------------------------------------------------------------------------------------------------ CheckUtypeDeclaration (slice)
def tr_utype(repo):
    tree, cls, fn = class_and_run(repo, "norminette/rules/check_utype_declaration.py", "CheckUtypeDeclaration")
    body = strip_doc(fn.body)
    k2 = None
    for k, st in enumerate(body):
        if isinstance(st, ast.If) and any(isinstance(n, ast.JoinedStr) for n in ast.walk(st)):
            k2 = k
            break
    if k2 is None:
        fail(fn, "CheckUtypeDeclaration.run: the FORBIDDEN_<type> test")
    sl = body[:k2 + 1]
    tr = MoreTr("CheckUtypeDeclaration", "check_utype_forbidden", tree, cls, params={"context.file.type": ("ftype", "str")})
    text_body = tr.block(sl, {}, RunTop(), None, 0)
    # the rest of the method must not emit a code of the slice
    slice_codes = [c for c in tr.codes]
    for st in body[k2 + 1:]:
        for n in ast.walk(st):
            if is_ctx_call(n, "new_error") and isinstance(n.args[0], ast.JoinedStr):
                fail(n, "a second f-string diagnostic in CheckUtypeDeclaration.run")
            if is_ctx_call(n, "new_error") and isinstance(n.args[0], ast.Constant) and n.args[0].value in slice_codes:
                fail(n, "the rest of CheckUtypeDeclaration.run emits a code of the translated slice")
    text = "".join(a + "\n" for a in tr.aux)
    text += ("Definition check_utype_forbidden (toks : list token) (scope : Z) (ftype : str) (v : view) : result :=\nlet E : list em := [] in\n%s.\n" % text_body)
    text += "Definition check_utype_forbidden_codes : list str := [%s].\n" % "; ".join(cstr(c.rstrip("*")) for c in dict.fromkeys(slice_codes))
    text += "Definition check_utype_depends : list str := [%s].\n" % "; ".join(cstr(d) for d in depends(cls))
    return text


# ------------------------------------------------------------------------------------------------ CheckExpressionStatement (whole run)
def tr_expression(repo):
    tree, cls, fn = class_and_run(repo, "norminette/rules/check_expression_statement.py", "CheckExpressionStatement")
    kw = module_list(tree, "kw")
    tr = MoreTr("CheckExpressionStatement", "check_expression_statement", tree, cls)
    # the module-level list `kw` as a constant list
    orig_call = tr.call

    def call(n, env):
        if is_ctx_call(n, "check_token") and len(n.args) == 2 and isinstance(n.args[1], ast.Name) and n.args[1].id == "kw" and not n.keywords:
            p, tp = tr.ex(n.args[0], env)
            if tp != "Z":
                fail(n, "check_token position")
            return ("(checkl toks %s expression_kw)" % p, "optbool")
        if is_ctx_call(n, "skip_nest"):
            fail(n, "skip_nest outside `x = context.skip_nest(e) [+ 1]`")
        return orig_call(n, env)
    tr.call = call
    # tmp = context.skip_nest(tmp) + 1  ->  tmp = context.skip_nest(tmp); tmp += 1
    body = []

    class Split(ast.NodeTransformer):
        def visit_Assign(self, st):
            v = st.value
            if isinstance(v, ast.BinOp) and isinstance(v.op, ast.Add) and is_ctx_call(v.left, "skip_nest") and isinstance(v.right, ast.Constant) and v.right.value == 1:
                a = ast.Assign(targets=st.targets, value=v.left)
                b = ast.AugAssign(target=ast.Name(id=st.targets[0].id, ctx=ast.Store()), op=ast.Add(), value=ast.Constant(value=1))
                return [ast.copy_location(a, st), ast.copy_location(b, st)]
            return st
    fn2 = ast.fix_missing_locations(Split().visit(ast.parse(ast.unparse(fn)).body[0]))
    body = strip_doc(fn2.body)
    text_body = tr.block(body, {}, RunTop(), None, 0)
    text = "Definition expression_kw : list str := [%s].\n" % "; ".join(cstr(k) for k in kw)
    text += "".join(a + "\n" for a in tr.aux)
    text += ("Definition check_expression_statement (toks : list token) (scope : Z) (v : view) : result :=\nlet E : list em := [] in\n%s.\n" % text_body)
    text += codes_def("check_expression_statement", tr.codes)
    text += "Definition check_expression_statement_depends : list str := [%s].\n" % "; ".join(cstr(d) for d in depends(cls))
    return text


# ------------------------------------------------------------------------------------------------ CheckControlStatement (run to the end of its first loop, check_nest)
def tr_control(repo):
    tree, cls, fn = class_and_run(repo, "norminette/rules/check_control_statement.py", "CheckControlStatement")
    forbidden = module_list(tree, "forbidden_cs")
    assigns = module_list(tree, "assigns")
    lists = {"forbidden_cs": "control_forbidden_cs", "assigns": "control_assigns"}

    def with_lists(tr):
        orig_call = tr.call

        def call(n, env):
            if is_ctx_call(n, "check_token") and len(n.args) == 2 and isinstance(n.args[1], ast.Name) and n.args[1].id in lists and not n.keywords:
                p, tp = tr.ex(n.args[0], env)
                if tp != "Z":
                    fail(n, "check_token position")
                return ("(checkl toks %s %s)" % (p, lists[n.args[1].id]), "optbool")
            return orig_call(n, env)
        tr.call = call
    # the helper
    h = find_method(cls, "check_nest")
    if [a.arg for a in h.args.args] != ["self", "context", "i"]:
        fail(h, "signature of check_nest")
    htr = MoreTr("CheckControlStatement", "check_control_nest", tree, cls)
    with_lists(htr)
    htr.state = [("i", "Z")]
    hbody = htr.block(strip_doc(h.body), {"i": "Z"}, HelperTop(), None, 0)
    text = "Definition control_forbidden_cs : list str := [%s].\nDefinition control_assigns : list str := [%s].\n" % (
        "; ".join(cstr(k) for k in forbidden), "; ".join(cstr(k) for k in assigns))
    text += "".join(a + "\n" for a in htr.aux)
    text += ("Definition check_control_nest (toks : list token) (scope : Z) (v : view) (x_i : Z) (E : list em) : outcome (bool * list em) :=\n%s.\n" % hbody)
    # run: up to and including the first while loop; the rest only reports the indentation of a `;` body
    body = strip_doc(fn.body)
    k1 = next((k for k, st in enumerate(body) if isinstance(st, ast.While)), None)
    if k1 is None:
        fail(fn, "CheckControlStatement.run: the scanning loop")
    tr = MoreTr("CheckControlStatement", "check_control_statement", tree, cls)
    with_lists(tr)
    tr.helpers = {"check_nest": "check_control_nest"}
    text_body = tr.block(body[:k1 + 1], {}, RunTop(), None, 0)
    rest_codes = []
    for st in body[k1 + 1:]:
        for n in ast.walk(st):
            if is_ctx_call(n, "new_error"):
                if not isinstance(n.args[0], ast.Constant):
                    fail(n, "diagnostic of the rest of CheckControlStatement.run")
                rest_codes.append(n.args[0].value)
    slice_codes = list(dict.fromkeys(tr.codes + htr.codes))
    if set(rest_codes) & set(slice_codes):
        fail(fn, "the rest of CheckControlStatement.run emits a code of the translated slice")
    text += "".join(a + "\n" for a in tr.aux)
    text += ("Definition check_control_statement (toks : list token) (scope : Z) (v : view) : result :=\nlet E : list em := [] in\n%s.\n" % text_body)
    text += codes_def("check_control_statement", slice_codes)
    text += "Definition check_control_statement_left_out : list str := [%s].\n" % "; ".join(cstr(c) for c in dict.fromkeys(rest_codes))
    text += "Definition check_control_statement_depends : list str := [%s].\n" % "; ".join(cstr(d) for d in depends(cls))
    return text


SCOPE_EQ_PIN = None


def gen_more(repo, L):
    sc_eq = fingerprint(find_method(find_class(parse(repo, "norminette/scope.py"), "Scope"), "__eq__"))
    out = ["From NV Require Import Model.Base Model.RuleChecks Model.CounterBase.\n",
           "(* second batch of translated checks, by tools/translate_more.py *)\n",
           "Definition scope_eq_fingerprint : string := %s.\n" % lit(sc_eq),
           "\n(* CheckUtypeDeclaration.run, up to the FORBIDDEN_<type> test; ftype = context.file.type *)\n", tr_utype(repo),
           "\n(* CheckExpressionStatement.run *)\n", tr_expression(repo),
           "\n(* CheckControlStatement.check_nest (value: `returned -1`) and run up to the end of its scanning loop *)\n", tr_control(repo)]
    return "".join(out)


GENERATORS = {"MoreChecks": gen_more}


if __name__ == "__main__":
    import sys
    print(gen_more(sys.argv[1] if len(sys.argv) > 1 else "/repo", {}))
