"""Gen/PreprocChecks.v (property C02, fourth batch): CheckPreprocessorIndent.run.

The method is tied in two parts: its SHAPE - the AST of `run` with the docstring removed and every string constant replaced by a
placeholder - must have the fingerprint pinned below (any other statement, operator, number, call or order: fail closed), and its
string CONSTANTS (diagnostic codes, token types, the upper-case directive names) are extracted in source order and become the
definitions ppi_* of the generated file, so a changed constant changes the model (and is then seen by the proofs, the replay or
the search).  The module constant ARGUMENTED_PREPROCESSORS, `depends_on` and the GlobalScope import are read as well.  The Coq
text of the shape is the template below; it is compared with the implementation on every recorded invocation (tools/harness/c02.py).

    i = context.skip_ws(0)
    hash_ = context.peek_token(i)
    if hash_ and hash_.line_column != 1: new_error(<c_start>, hash_)
    if not isinstance(context.scope, GlobalScope): new_error(<c_global>, hash_)
    i += 1
    k = context.skip_ws(i, comment=True)
    if context.check_token(k, <NL>): return
    n = context.skip_ws(i)
    while context.check_token(i, <SP>): i += 1
    if context.check_token(i, <TAB>): new_error(<c_tab1>, peek(i))
    i = n
    spaces = peek(i).line_column - hash_.line_column - 1
    indent = context.preproc.indent
    if check_token(i, (<IF>, <ELSE>)): indent -= 1
    else:
        t = peek(i)
        if t and t.type == <ID> and t.value.upper() in (<U1>, <U2>, <U3>): indent -= 1
    indent = max(0, indent)
    if spaces > indent: new_error(<c_many>, hash_)
    if spaces < indent: new_error(<c_bad>, hash_)
    if check_token(i, (<ID>, <IF>)) and peek(i).value in ARGUMENTED_PREPROCESSORS:
        i += 1
        n = skip_ws(i, comment=True)
        if check_token(n, <NL>) or peek(n) is None: return
        if not check_token(i, (<SP>, <TAB>)): new_error(<c_nospace>, peek(i))
        j = i
        while check_token(i, <SP>): i += 1
        if check_token(i, <TAB>): new_error(<c_tab2>, peek(i))
        if skip_ws(j) - j > 1: new_error(<c_consec>, peek(j))
"""
import ast
import copy
import hashlib

from translate_rules import RulesError, parse, find_class, find_method, strip_doc, fingerprint, cstr
from translate_scope import same

SHAPE_PIN = {"CheckPreprocessorIndent.run": "bf608f49f76f0c27b6cc"}
LINE_COLUMN_PIN = "5074e95e7756db7b6bac"


def fail(node, why):
    raise RulesError("%s at line %s" % (why, getattr(node, "lineno", "?")))


def shape_and_constants(fn):
    """(fingerprint of the method with its string constants blanked, the string constants in source order)"""
    fn2 = copy.deepcopy(fn)
    fn2.body = strip_doc(fn2.body) or [ast.Pass()]
    consts = []

    class T(ast.NodeTransformer):
        def visit_Constant(self, n):
            if isinstance(n.value, str):
                consts.append(n.value)
                return ast.copy_location(ast.Constant(value="?"), n)
            return n
    T().visit(fn2)
    return hashlib.sha256(ast.dump(fn2, include_attributes=False).encode()).hexdigest()[:20], consts


INDENT_ROLES = ["c_start", "c_global", "nl1", "sp1", "tab1", "c_tab1", "if1", "else1", "id1", "up1", "up2", "up3", "c_many", "c_bad",
                "id2", "if2", "nl2", "sp2", "tab2", "c_nospace", "sp3", "tab3", "c_tab2", "c_consec"]

INDENT_TEMPLATE = r"""
(* the part after `i += 1` inside the last `if`: spacing between the directive name and its argument *)
Definition ppi_args (toks : list token) (i4 : Z) (E4 : list em) : outcome (list em) :=
  let n2 := skip_ws_c toks i4 in
  if truthy (check1 toks n2 ppi_nl2) || is_none (peek toks n2) then Ok E4 else
  bind (if negb (truthy (checkl toks i4 [ppi_sp2; ppi_tab2])) then emit ppi_c_nospace (peek toks i4) E4 else Ok E4) (fun E5 =>
  let i5 := skip_while toks (fun x => truthy (check1 toks x ppi_sp3)) i4 in
  bind (if truthy (check1 toks i5 ppi_tab3) then emit ppi_c_tab2 (peek toks i5) E5 else Ok E5) (fun E6 =>
  if skip_ws toks i4 - i4 >? 1 then emit ppi_c_consec (peek toks i4) E6 else Ok E6)).

(* `indent` before max(0, .) *)
Definition ppi_indent_of (toks : list token) (n : Z) (t3 : token) (pindent : Z) : outcome Z :=
  if truthy (checkl toks n [ppi_if1; ppi_else1]) then Ok (pindent - 1)
  else if str_eqb (t_type t3) ppi_id1
       then need_val (t_val t3) (fun w => Ok (if str_in (ascii_upper w) [ppi_up1; ppi_up2; ppi_up3] then pindent - 1 else pindent))
       else Ok pindent.

(* from `spaces = ...` on; t3 = the token at n (the directive name), h = the `#` *)
Definition ppi_body (toks : list token) (n : Z) (h t3 : token) (pindent : Z) (E3 : list em) : outcome (list em) :=
  let spaces := t_col t3 - t_col h - 1 in
  bind (ppi_indent_of toks n t3 pindent) (fun indent1 =>
  let indent := Z.max 0 indent1 in
  let E4 := E3 ++ (if spaces >? indent then [(ppi_c_many, t_line h, t_col h)] else [])
               ++ (if spaces <? indent then [(ppi_c_bad, t_line h, t_col h)] else []) in
  if truthy (checkl toks n [ppi_id2; ppi_if2]) && optstr_in (t_val t3) ppi_argumented then ppi_args toks (n + 1) E4 else Ok E4).

Definition check_preproc_indent (toks : list token) (glob : bool) (pindent : Z) : outcome (list em) :=
  let i0 := skip_ws toks 0 in
  let hash_ := peek toks i0 in
  let E1 : list em := match hash_ with Some h => if negb (t_col h =? 1) then [(ppi_c_start, t_line h, t_col h)] else [] | None => [] end in
  bind (if glob then Ok E1 else emit ppi_c_global hash_ E1) (fun E2 =>
  let i1 := i0 + 1 in
  let k := skip_ws_c toks i1 in
  if truthy (check1 toks k ppi_nl1) then Ok E2 else
  let n := skip_ws toks i1 in
  let i2 := skip_while toks (fun x => truthy (check1 toks x ppi_sp1)) i1 in
  bind (if truthy (check1 toks i2 ppi_tab1) then emit ppi_c_tab1 (peek toks i2) E2 else Ok E2) (fun E3 =>
  need_tok (peek toks n) (fun t3 =>
  need_tok hash_ (fun h => ppi_body toks n h t3 pindent E3)))).
"""


def tr_indent(repo):
    rel = "norminette/rules/check_preprocessor_indent.py"
    tree = parse(repo, rel)
    cls = find_class(tree, "CheckPreprocessorIndent")
    if not any(isinstance(n, ast.ImportFrom) and n.module == "norminette.scope" and any(a.name == "GlobalScope" and a.asname is None for a in n.names)
               for n in tree.body):
        fail(tree, "GlobalScope is not norminette.scope.GlobalScope")
    deps = args = None
    for n in cls.body:
        if isinstance(n, ast.Assign) and same(n.targets[0], "depends_on", "expr"):
            if not (isinstance(n.value, (ast.Tuple, ast.List)) and all(isinstance(e, ast.Constant) and isinstance(e.value, str) for e in n.value.elts)):
                fail(n, "depends_on")
            deps = [e.value for e in n.value.elts]
    if deps is None:
        fail(cls, "CheckPreprocessorIndent has no depends_on")
    names = [n.name for n in cls.body if isinstance(n, ast.FunctionDef)]
    if names != ["run"]:
        fail(cls, "CheckPreprocessorIndent has other methods than run: %s" % names)
    for n in tree.body:
        if isinstance(n, ast.Assign) and same(n.targets[0], "ARGUMENTED_PREPROCESSORS", "expr"):
            if args is not None or not isinstance(n.value, (ast.Tuple, ast.List)):
                fail(n, "ARGUMENTED_PREPROCESSORS")
            args = []
            for e in n.value.elts:
                if not (isinstance(e, ast.Constant) and (e.value is None or isinstance(e.value, str))):
                    fail(e, "element of ARGUMENTED_PREPROCESSORS")
                args.append(e.value)
    if args is None:
        fail(tree, "ARGUMENTED_PREPROCESSORS not found")
    # nothing else at module level may rebind the names used
    for n in ast.walk(tree):
        if isinstance(n, (ast.Assign, ast.AugAssign, ast.AnnAssign)) and n not in cls.body and n not in tree.body:
            pass
    fn = find_method(cls, "run")
    if [a.arg for a in fn.args.args] != ["self", "context"] or fn.decorator_list:
        fail(fn, "signature of run")
    fp, consts = shape_and_constants(fn)
    if fp != SHAPE_PIN["CheckPreprocessorIndent.run"]:
        fail(fn, "the shape of CheckPreprocessorIndent.run changed (now %s): the template of tools/translate_preproc.py no longer applies" % fp)
    if len(consts) != len(INDENT_ROLES):
        fail(fn, "CheckPreprocessorIndent.run: %d string constants, %d expected" % (len(consts), len(INDENT_ROLES)))
    # Token.line_column is read as the column of the token position
    ttree = parse(repo, "norminette/lexer/tokens.py")
    lc = find_method(find_class(ttree, "Token"), "line_column")
    if fingerprint(lc) != LINE_COLUMN_PIN:
        fail(lc, "Token.line_column changed (now %s)" % fingerprint(lc))
    out = ["Definition ppi_%s : str := %s.\n" % (r, cstr(c)) for r, c in zip(INDENT_ROLES, consts)]
    out.append("Definition ppi_argumented : list (option str) := [%s].\n" % "; ".join("None" if a is None else "Some %s" % cstr(a) for a in args))
    out.append("Definition ppi_depends_on : list str := [%s].\n" % "; ".join(cstr(d) for d in deps))
    out.append("Definition ppi_codes : list str := [ppi_c_start; ppi_c_global; ppi_c_tab1; ppi_c_many; ppi_c_bad; ppi_c_nospace; ppi_c_tab2; ppi_c_consec].\n")
    out.append(INDENT_TEMPLATE)
    return "".join(out)


def gen_preproc(repo, L=None):
    return ("(* GENERATED by tools/translate_preproc.py - do not edit *)\n"
            "From Coq Require Import List ZArith Bool NArith.\nImport ListNotations.\n"
            "From NV Require Import Model.Base Model.Lexer Model.RuleChecks Model.PreprocBase.\nOpen Scope Z_scope.\n\n"
            "(* CheckPreprocessorIndent.run; glob = isinstance(context.scope, GlobalScope), pindent = context.preproc.indent *)\n"
            + tr_indent(repo))



# ------------------------------------------------------------------------------------------------ second file: include / define
def coq_str(x):
    """a string constant as a Coq `str`; characters that cannot sit in a Coq string literal are given by code point"""
    if all(32 <= ord(c) < 127 and c != '"' for c in x):
        return cstr(x)
    if not all(ord(c) < 128 for c in x):
        raise RulesError("unsupported characters in a string constant")
    return "[%s]" % "; ".join("%d%%N" % ord(c) for c in x)


SHAPE_PIN.update({"CheckPreprocessorInclude.run": "d02241c968551d36eabb", "CheckPreprocessorInclude.is_in_start_of_file": "328f3d342b7d1de81f67",
                  "CheckPreprocessorDefine.run": "9fa13218832a255e944d"})

INCLUDE_ROLES = ["id1", "include", "c_start", "string", "quote", "dot_h", "c_header", "more", "id2", "h", "dot", "c_header2"]
START_ROLES = ["hd1", "hd2", "hd3"]
DEFINE_ROLES = ["id1", "define", "c_name", "lpar", "c_func", "rpar", "minus", "plus", "bnot", "const1", "ident1", "c_const", "const2", "ident2",
                "string", "charc", "nl", "c_const2"]

INCLUDE_TEMPLATE = r"""
(* CheckPreprocessorInclude.is_in_start_of_file: hist = the whole context.history, allowed = context.scope.include_allowed *)
Definition ppn_in_start (hist : list str) (allowed : bool) : bool :=
  allowed && forallb (fun r => str_in r [ppn_hd1; ppn_hd2; ppn_hd3]) hist.

(* the <...> branch from `last = ...` on; i3 = the position of the MORE_THAN token *)
Definition ppn_angle (toks : list token) (less : option token) (i3 : Z) (E1 : list em) : outcome (list em) :=
  need_tok (peek toks (i3 - 1)) (fun last =>
  if negb (str_eqb (t_type last) ppn_id2) then emit ppn_c_header2 less E1
  else if negb (optstr_eqb (t_val last) (Some ppn_h)) then emit ppn_c_header2 less E1
  else need_tok (peek toks (i3 - 2)) (fun prev =>
       if negb (str_eqb (t_type prev) ppn_dot) then emit ppn_c_header2 less E1 else Ok E1)).

(* from `i += 1  # skip INCLUDE` on; i1 = the position of the directive name *)
Definition ppn_file (toks : list token) (i1 : Z) (E1 : list em) : outcome (list em) :=
  let i2 := skip_ws toks (i1 + 1) in
  if truthy (check1 toks i2 ppn_string) then
    need_tok (peek toks i2) (fun ts => need_val (t_val ts) (fun w =>
      if negb (str_eqb (py_splitext_ext (strip_chars ppn_quote (strip_chars py_ascii_ws w))) ppn_dot_h)
      then emit ppn_c_header (peek toks i2) E1 else Ok E1))
  else
    match scan_until (S (List.length toks)) toks ppn_more i2 with
    | None => Hang
    | Some i3 => ppn_angle toks (peek toks i2) i3 E1
    end.

Definition check_preproc_include (toks : list token) (hist : list str) (allowed : bool) : outcome (list em) :=
  let h := skip_ws toks 0 in
  let i1 := skip_ws toks (h + 1) in
  if is_false (check1 toks i1 ppn_id1) then Ok [] else
  need_tok (peek toks i1) (fun t1 =>
  if negb (optstr_eqb (t_val t1) (Some ppn_include)) then Ok [] else
  bind (if negb (ppn_in_start hist allowed) then emit ppn_c_start (peek toks h) [] else Ok []) (fun E1 =>
  ppn_file toks i1 E1)).
"""

DEFINE_TEMPLATE = r"""
(* the end of the value: `i = skip_ws(i, comment=True)` and the last test *)
Definition ppd_tail (toks : list token) (i : Z) (E2 : list em) : outcome (list em) :=
  let i7 := skip_ws_c toks i in
  if is_some (peek toks i7) && negb (truthy (check1 toks i7 ppd_nl)) then emit ppd_c_const2 (peek toks i7) E2 else Ok E2.

(* the value of the macro, from `if context.check_token(i, ("MINUS", ...))` on *)
Definition ppd_value (toks : list token) (i5 : Z) (E2 : list em) : outcome (list em) :=
  if truthy (checkl toks i5 [ppd_minus; ppd_plus; ppd_bnot]) then
    let i6 := skip_ws toks (i5 + 1) in
    if negb (truthy (checkl toks i6 [ppd_const1; ppd_ident1])) then emit ppd_c_const (or_tok (peek toks i6) (peek toks (i6 - 1))) E2
    else ppd_tail toks (i6 + 1) E2
  else if truthy (checkl toks i5 [ppd_const2; ppd_ident2; ppd_string; ppd_charc]) then ppd_tail toks (i5 + 1) E2
  else ppd_tail toks i5 E2.

(* from `i += 1  # skip macro name` on; i3 = the position after the name; skip = context.preproc.skip_define *)
Definition ppd_after_name (toks : list token) (i3 : Z) (skip : bool) (E1 : list em) : outcome (list em) :=
  bind (if truthy (check1 toks i3 ppd_lpar)
        then bind (emit ppd_c_func (peek toks i3) E1) (fun E2 =>
             match scan_until (S (List.length toks)) toks ppd_rpar i3 with None => Hang | Some j => Ok (E2, j + 1) end)
        else Ok (E1, i3)) (fun p =>
  let i5 := skip_ws toks (snd p) in
  if skip then Ok (fst p) else ppd_value toks i5 (fst p)).

Definition check_preproc_define (toks : list token) (skip : bool) : outcome (list em) :=
  let i1 := skip_ws toks (skip_ws toks 0 + 1) in
  if negb (truthy (check1 toks i1 ppd_id1)) then Ok [] else
  need_tok (peek toks i1) (fun t1 =>
  if negb (optstr_eqb (t_val t1) (Some ppd_define)) then Ok [] else
  let i2 := skip_ws toks (i1 + 1) in
  need_tok (peek toks i2) (fun tn => need_val (t_val tn) (fun w =>
  bind (if negb (py_isupper_ascii w) then emit ppd_c_name (peek toks i2) [] else Ok []) (fun E1 =>
  ppd_after_name toks (i2 + 1) skip E1)))).
"""


def _method_consts(repo, rel, cname, mname, roles, prefix):
    tree = parse(repo, rel)
    cls = find_class(tree, cname)
    fn = find_method(cls, mname)
    if fn.decorator_list:
        fail(fn, "decorated method")
    fp, consts = shape_and_constants(fn)
    key = "%s.%s" % (cname, mname)
    if fp != SHAPE_PIN[key]:
        fail(fn, "the shape of %s changed (now %s): the template of tools/translate_preproc.py no longer applies" % (key, fp))
    if len(consts) != len(roles):
        fail(fn, "%s: %d string constants, %d expected" % (key, len(consts), len(roles)))
    return tree, cls, ["Definition %s_%s : str := %s.\n" % (prefix, r, coq_str(c)) for r, c in zip(roles, consts)]


def _depends(cls):
    for n in cls.body:
        if isinstance(n, ast.Assign) and same(n.targets[0], "depends_on", "expr"):
            if not (isinstance(n.value, (ast.Tuple, ast.List)) and all(isinstance(e, ast.Constant) and isinstance(e.value, str) for e in n.value.elts)):
                fail(n, "depends_on")
            return [e.value for e in n.value.elts]
    fail(cls, "%s has no depends_on" % cls.name)


def tr_include(repo):
    rel = "norminette/rules/check_preprocessor_include.py"
    tree, cls, out = _method_consts(repo, rel, "CheckPreprocessorInclude", "run", INCLUDE_ROLES, "ppn")
    _, _, out2 = _method_consts(repo, rel, "CheckPreprocessorInclude", "is_in_start_of_file", START_ROLES, "ppn")
    names = [n.name for n in cls.body if isinstance(n, ast.FunctionDef)]
    if names != ["run", "is_in_start_of_file"]:
        fail(cls, "methods of CheckPreprocessorInclude: %s" % names)
    mods = sorted(a.name for n in tree.body if isinstance(n, ast.Import) for a in n.names if a.asname is None)
    if mods != ["itertools", "os.path"]:
        fail(tree, "imports of check_preprocessor_include.py: %s (os.path.splitext and itertools.filterfalse are modelled by hand)" % mods)
    out += out2
    out.append("Definition ppn_depends_on : list str := [%s].\n" % "; ".join(cstr(d) for d in _depends(cls)))
    out.append(INCLUDE_TEMPLATE)
    return "".join(out)


def tr_define(repo):
    rel = "norminette/rules/check_preprocessor_define.py"
    tree, cls, out = _method_consts(repo, rel, "CheckPreprocessorDefine", "run", DEFINE_ROLES, "ppd")
    names = [n.name for n in cls.body if isinstance(n, ast.FunctionDef)]
    if names != ["run"]:
        fail(cls, "methods of CheckPreprocessorDefine: %s" % names)
    out.append("Definition ppd_depends_on : list str := [%s].\n" % "; ".join(cstr(d) for d in _depends(cls)))
    out.append(DEFINE_TEMPLATE)
    return "".join(out)


def gen_preproc2(repo, L=None):
    return ("(* GENERATED by tools/translate_preproc.py - do not edit *)\n"
            "From Coq Require Import List ZArith Bool NArith.\nImport ListNotations.\n"
            "From NV Require Import Model.Base Model.Lexer Model.RuleChecks Model.PreprocBase Model.PreprocBase2.\nOpen Scope Z_scope.\n\n"
            "(* CheckPreprocessorInclude.run *)\n" + tr_include(repo)
            + "\n(* CheckPreprocessorDefine.run *)\n" + tr_define(repo))


GENERATORS = {"PreprocChecks": gen_preproc, "PreprocChecks2": gen_preproc2}

if __name__ == "__main__":
    import sys
    sys.stdout.write((gen_preproc2 if len(sys.argv) > 2 else gen_preproc)(sys.argv[1] if len(sys.argv) > 1 else "/repo"))
