"""C01 - Norm-conforming files are accepted.

1. build: translate (Gen/Emitters.v = every static emission site of /repo, and everything Props/C01.v composes) +
   Props/C01.vo + Print Assumptions.  Props/C01.v holds the partial theorem C01_partial_K (header / guard / lexical codes /
   verdict+exit), the Emitters ties (only check_header.py emits INVALID_HEADER, ...) and C01_accepted_K1.
2. search = the property itself on the implementation: conforming programs of the family G (tools/harness/family.py, .c and
   .h), one third of them boundary programs sitting exactly on a limit (family_ext.py), each analysed by /repo's code
   (impl.analyse: Lexer + Registry.run as main() does) and a tenth also through the real command line (main() with the file on
   disk: verdict line `<name>: OK!`, exit status 0).  Required: the analysis ends normally, no Error-level diagnostic, status OK.
   Any Error on a conforming program is a VIOLATION with the (structurally shrunk) program as replay - unless every Error of
   the program is matched by the narrow matcher of one of the four known findings K1..K4.
3. the four known families are generated on purpose inside otherwise conforming programs, confirmed on the real tool,
   and their exact boundary is located by grids (operator x operand kind x preceding token); the grids are evidence.
4. evidence: histogram of the constructs actually generated, measured on the implementation's own tokens."""
import collections
import json
import multiprocessing as mp
import os
import random
import shutil
import time

import common
import family
import family_ext as fx
import impl

TMP = os.path.join(common.BUILD, "c01_tmp")


def errors_of(res):
    return [d for d in res.get("diags", []) if d[2] != "Notice"]


def judge(name, src, res):
    """-> (verdict, details).  verdict: 'ok' | 'known:<K>' | 'violation:<what>'"""
    if res["kind"] != "ok":
        return "violation:analysis-" + res["kind"], {"exc": res.get("exc"), "frame": res.get("frame"), "msg": res.get("msg")}
    errs = errors_of(res)
    if not errs and res.get("status") == "OK":
        return "ok", None
    if not errs:
        return "violation:status-not-OK-without-error", {"status": res.get("status")}
    lines = src.split("\n")
    fams = []
    for d in errs:
        ln, col = d[3][0][0], d[3][0][1]
        fam = fx.classify(d[0], lines[ln - 1] if 0 < ln <= len(lines) else "", col)
        fams.append(fam)
    if all(fams):
        return "known:" + sorted(set(fams))[0], {"families": sorted(set(fams)), "errors": [(d[0], d[3][0][0], d[3][0][1]) for d in errs]}
    bad = [d for d, f in zip(errs, fams) if not f]
    return "violation:error-on-conforming-program", {"errors": [(d[0], d[1], d[3][0][0], d[3][0][1]) for d in bad[:5]],
                                                     "line": lines[bad[0][3][0][0] - 1] if 0 < bad[0][3][0][0] <= len(lines) else None}


CANDIDATES = {"n": 0, "samples": []}


def report_family(run, g, data):
    """a false positive of a classified family: KNOWN-FINDING when KNOWN_FINDINGS.jsonl lists it.  K5 is not one of the four
    families this check was asked to record: until the integrator lists it, it is counted and shown as a candidate (evidence +
    a CANDIDATE-FINDING line), it does not fail the run."""
    fid = fx.K_IDS[g]
    if g == "K1":
        fid = None          # K1 is repaired in the source (INT_LITERAL_PATTERN): a recurrence is a VIOLATION, never suppressed
    if g == "K5" and not run.known(fid):
        CANDIDATES["n"] += 1
        if len(CANDIDATES["samples"]) < 4:
            CANDIDATES["samples"].append({"statement": data.get("statement"), "errors": data.get("errors"), "name": data.get("name")})
        return False
    return run.violation("false-positive-" + g, data, finding_id=fid)


def cli_check(name, src):
    """the real command line on the file: -> None when `<name>: OK!` is printed and the exit status is 0, else a description"""
    d = os.path.join(TMP, "%d" % os.getpid())
    os.makedirs(d, exist_ok=True)
    p = os.path.join(d, name)
    with open(p, "w") as f:
        f.write(src)
    try:
        code, out, err, exc = impl.run_main([name], cwd=d)
    finally:
        try:
            os.remove(p)
        except OSError:
            pass
    out = impl.strip_colors(out)
    lines = out.split("\n")
    # the verdict line, then only Notice lines (Notices do not make a file erroneous)
    if exc is None and code == 0 and lines[0] == name + ": OK!" and lines[-1] == "" and all(l.startswith("Notice: ") for l in lines[1:-1]):
        return None
    return {"exit": code, "stdout": out[:600], "stderr": err[-300:], "exc": exc}


def sane(src):
    """cheap conformance filter for shrunk candidates (the shrinker only deletes, this catches a clumsy cut)"""
    for l in src.split("\n")[11:]:
        t = l.lstrip("\t")
        if "  " in t or l != l.rstrip() or "( " in t or " )" in t or " ;" in t.replace("return ;", "").replace("break ;", "").replace(
                "continue ;", "") or fx.width(l) > 80 or " ," in t or t.endswith(("= ;", "(;")):
            return False
        if t.count("(") != t.count(")") and not t.startswith(("#", "/*", "*")):
            return False
    return True


def gen_case(seed, i):
    """case i of the search: every random choice from Random(seed, i)"""
    r = random.Random("%d/%d" % (seed, i))
    if i % 3 == 2:
        name, src, tag = fx.boundary_program(r)
        return name, src, "boundary:" + tag
    name, src = family.program(r)
    return name, src, "family:" + name.rsplit(".", 1)[1]


def work(task):
    seed, i = task
    name, src, tag = gen_case(seed, i)
    res = impl.analyse(src, name)
    verdict, det = judge(name, src, res)
    cli = None
    if i % 10 == 0 and verdict == "ok":
        cli = cli_check(name, src)
    lx = impl.lex(src, name)
    hist = fx.histogram(src, lx.get("tokens", [])) if lx["kind"] == "ok" else {}
    out = {"i": i, "name": name, "tag": tag, "verdict": verdict, "det": det, "hist": hist, "cli": (i % 10 == 0 and verdict == "ok"),
           "cli_bad": cli, "notices": sum(1 for d in res.get("diags", []) if d[2] == "Notice"), "nlines": src.count("\n")}
    if verdict != "ok" or cli:
        out["src"] = src
    return out


def shrink_violation(name, src, want):
    """shrink while an Error with the same code is reported and no K matcher explains all errors"""
    def still(c):
        if not sane(c):
            return False
        r = impl.analyse(c, name)
        v, det = judge(name, c, r)
        if want.startswith("violation:analysis"):
            return v == want
        return v == want and det and any(e[0] == CODE[0] for e in det["errors"])
    CODE = [None]
    r0 = impl.analyse(src, name)
    v0, d0 = judge(name, src, r0)
    if v0 != want:
        return src, 0
    if d0 and d0.get("errors"):
        CODE[0] = d0["errors"][0][0]
    try:
        return fx.shrink(name, src, still)
    except Exception:       # the shrinker is a convenience: never lose the finding because of it
        return src, -1


# ---------------------------------------------------------------------------------------------- the known families
def probe_work(task):
    seed, j, stmt = task
    r = random.Random("%d/K/%d" % (seed, j))
    name, src = fx.k_host(r, stmt)
    res = impl.analyse(src, name)
    v, det = judge(name, src, res)
    return j, name, src, v, det


def k_probes(seed, rnd, tier):
    """the probes of the four grids: [(family, table, cell, statement lines)]"""
    reps = 1 if tier == "quick" else 4
    P = []
    consts = fx.k1_constants(rnd, 40 if tier == "quick" else 400) + ["0xb3ba", "0XBB98Bl", "0xb1", "0xB0", "0xb0u", "0xbB9f", "0xb1f", "0xb1l",
                                                                   "0xab1", "0x0b1", "0xbb", "0xba", "0xb", "0xBb1"]
    for c in consts:
        P.append(("K1", "K1", c, ["\ta = %s;" % c]))
    ops = ["-", "+", "~", "!", "*", "&"]
    core_prev = ("and", "or", "assign", "eq", "mult", "lpar", "and-in-if")
    core_opd = ("ident", "int", "char", "sizeof-type", "paren", "neg")
    for rep in range(reps):
        for prev in fx.PREVS:
            for op in ops:
                for ok_, operand in fx.OPERANDS.items():
                    if op in "*&" and ok_ not in ("ident", "index", "member", "paren"):
                        continue                      # not compilable
                    if op == "&" and ok_ == "paren":
                        continue
                    if ok_ in ("neg", "pos") and op in "+-" and operand[0] == op:
                        continue                      # -- and ++ are other tokens
                    if ok_ == "addr" or (ok_ == "deref" and op in "*&"):
                        continue
                    if prev in ("not", "bnot", "cast") and ok_ in ("neg", "pos", "not", "bnot", "cast", "deref"):
                        continue                      # two unary operators at most
                    if tier == "quick" and rnd.random() < 0.6 and not (prev in core_prev and ok_ in core_opd):
                        continue
                    P.append(("K2" if prev in ("and", "or", "and-in-if") else "K3", "K2K3", "%s | %s%s" % (prev, op, ok_),
                              fx.k_statement(prev, op + operand)))
    for rep in range(reps):
        for ty in fx.CAST_TYPES:
            for ok_, operand in list(fx.OPERANDS.items()) + [("string", '"s"')]:
                for prev in ("assign", "plus", "and", "callarg", "return", "ifcond"):
                    if tier == "quick" and prev not in ("assign", "ifcond") and rnd.random() < 0.8:
                        continue
                    P.append(("K4", "K4", "(%s) %s" % ("T*" if "*" in ty else "T", ok_), fx.k_statement(prev, "(" + ty + ")" + operand)))
    return P


def k_grids(run, seed, tier, pool):
    """Generate K1..K4 on purpose inside conforming hosts, confirm each on the real tool, locate the boundary of each family.
    Returns (tables, found_violation)."""
    found = False
    rnd = random.Random("%d/Kgrid" % seed)
    P = k_probes(seed, rnd, tier)
    T = {"K1": {}, "K2K3": {}, "K4": {}}
    nviol = 0
    results = pool.map(probe_work, [(seed, j, p[3]) for j, p in enumerate(P)], chunksize=16)
    k1_in = k1_out = 0
    for (fam, tab, cell, stmt), (j, name, src, v, det) in zip(P, results):
        run.count("known-family probes (%s)" % tab, 1, 1)
        table = T[tab]
        if v == "ok":
            got = "accepted"
        elif v.startswith("known:"):
            got = "flagged"
            for g in det["families"]:
                found |= report_family(run, g, {"name": name, "src": src, "family": g, "errors": det["errors"], "statement": stmt, "cell": cell})
            if det["families"] != [fam] and tab != "K2K3":
                got += " (as %s)" % ",".join(det["families"])
        else:
            got = "OTHER"
            nviol += 1
            if nviol <= 5:
                s2, _ = shrink_violation(name, src, v)
                found |= run.violation(v.split(":", 1)[1], {"name": name, "src": s2, "original_src": src, "details": det,
                                                            "from": "known-family grid %s, cell %s" % (tab, cell)})
        old = table.get(cell)
        table[cell] = got if old in (None, got) else "MIXED"
        if tab == "K1":
            exp = False         # K1 repaired: no hexadecimal constant of the neighbourhood is flagged (fx.k1_expected = the old boundary)
            k1_in += exp
            k1_out += (not exp)
            flagged_k1 = v.startswith("known:") and "K1" in det["families"]     # the host may also hold a K2 instance of its own
            if got != "OTHER" and flagged_k1 != exp:
                found |= run.violation("K1-boundary-differs", {"name": name, "src": src, "constant": cell, "expected_flagged": exp, "observed": got})
    show = ("0xb3ba", "0XBB98Bl", "0xb1", "0xb1f", "0xb1l", "0xb0u", "0xab1", "0x0b1", "0xbb", "0xba", "0xBb1", "0xbB9f")
    t4 = T["K4"]
    tables = {
        "K1": {"rule": "repaired: every hexadecimal constant 0[xX][bB]+[0-9]+T of the neighbourhood of the former finding K1 is accepted "
                       "(before the repair it was flagged INVALID_SUFFIX iff T was not one of the tool's integer suffixes)",
               "expected_flagged": k1_in, "expected_accepted": k1_out, "cells": {c: T["K1"][c] for c in show if c in T["K1"]}},
        "K2K3": summarise_unary(T["K2K3"]),
        "K4": {"flagged": sorted(k for k, v in t4.items() if v.startswith("flagged")),
               "accepted": sorted(k for k, v in t4.items() if v == "accepted"),
               "mixed_or_other": {k: v for k, v in t4.items() if not (v.startswith("flagged") or v == "accepted")}},
    }
    return tables, found


def summarise_unary(t):
    """cells 'prev | op operand' -> per (op, operand) the set of preceding tokens that trigger / do not trigger"""
    by = collections.defaultdict(lambda: {"flagged": [], "accepted": [], "other": []})
    for cell, v in t.items():
        prev, x = cell.split(" | ")
        by[x]["flagged" if v.startswith("flagged") else "accepted" if v == "accepted" else "other"].append(prev + ("" if v in ("flagged", "accepted") else ":" + v))
    out = {}
    for x, d in sorted(by.items()):
        if d["flagged"] or d["other"]:
            out[x] = {k: sorted(v) for k, v in d.items() if v}
    never = sorted(x for x, d in by.items() if not d["flagged"] and not d["other"])
    return {"operand forms that are flagged after some token (flagged / accepted by preceding token)": out,
            "operand forms never flagged": never, "cells": len(t)}


# ---------------------------------------------------------------------------------------------- the check
RULE = ("programs of the conforming family G (family.program: .c and .h units; one third boundary programs of family_ext on a limit: 25 body "
        "lines, 5 functions, 4 parameters, 5 variables, lines of exactly 80 columns in statement / condition / function header / prototype / "
        "#define), each analysed by /repo's Lexer + Registry.run, a tenth also through main() on a file on disk (verdict line, exit status); "
        "required: analysis ends normally, no Error-level diagnostic, status OK, `<name>: OK!`, exit 0.  Plus runs of several files in ONE invocation "
        "(subprocess, --no-colors and -f json): conforming .c / .h files before, between and after files with Errors and after Notice-only files; every "
        "conforming file must be `<name>: OK!` / status OK without errors in every position, exit 0 iff no file has an Error.  Plus the grids of the four known "
        "false-positive families inside conforming hosts.  non-trivial = distinct source texts that contain at least one function body or "
        "prototype (every generated program); distinct = by source text")


def run(run, tier, seed, replay=None):
    b = common.build(["C01"], need_driver=False)
    run.build = b
    found = False
    os.makedirs(TMP, exist_ok=True)
    try:
        if replay is not None:
            d = replay["data"]
            if "src" in d:
                name, src = d["name"], d["src"]
                res = impl.analyse(src, name)
                v, det = judge(name, src, res)
                cli = cli_check(name, src) if v == "ok" else None
                run.count("replayed program", 1, 1)
                run.sample({"name": name, "verdict": v, "details": det})
                if v.startswith("known:"):
                    for g in det["families"]:
                        found |= report_family(run, g, dict(d, errors=det["errors"]))
                elif v != "ok":
                    found |= run.violation(v.split(":", 1)[1], dict(d, details=det))
                elif cli:
                    found |= run.violation("cli-verdict-or-exit", dict(d, cli=cli))
            elif "files" in d:
                files = [tuple(f) for f in d["files"]]
                problems, classes = multi_run(files, "replay")
                run.count("replayed multi-file run", 1, 1)
                run.sample({"files": [f[1] for f in files], "classes": classes, "problems": problems[:3]})
                if problems:
                    found |= run.violation("multi-file-run", dict(d, problems=problems[:6], classes=classes))
            else:
                run.count("replayed obligation", 1, 0)
            common.broken_obligations(run, b, found)
            return finish(run, b, {}, {}, collections.Counter())
        n = 400 if tier == "quick" else 20000
        t_search = time.time()
        tasks = [(seed, i) for i in range(n)]
        hist = collections.Counter()
        tags = collections.Counter()
        seen = set()
        ncli = 0
        bad = []
        with mp.get_context("fork").Pool(common.NPROC) as pool:
            for out in pool.imap_unordered(work, tasks, chunksize=8):
                hist.update(out["hist"])
                tags[out["tag"]] += 1
                key = (out["name"], out["nlines"], tuple(sorted(out["hist"].items())))
                nt = key not in seen
                seen.add(key)
                run.count("conforming programs (%s)" % out["tag"].split(":")[0], 1, 1 if nt else 0)
                if out["cli"]:
                    ncli += 1
                    run.count("of which also through the command line", 1, 0)
                if out["verdict"] != "ok" or out["cli_bad"]:
                    bad.append(out)
                elif out["i"] in (0, 1, 2):
                    run.sample({"name": out["name"], "kind": out["tag"], "lines": out["nlines"], "verdict": "OK, no Error, exit 0" if out["cli"] else "OK, no Error",
                                "notices": out["notices"]})
        bad.sort(key=lambda o: o["i"])
        nviol = 0
        for out in bad:
            v, det = out["verdict"], out["det"]
            if v.startswith("known:"):
                for g in det["families"]:
                    found |= report_family(run, g, {"name": out["name"], "src": out["src"], "family": g, "errors": det["errors"], "case": out["i"]})
                continue
            nviol += 1
            if nviol > 8:
                continue
            if out["cli_bad"] and v == "ok":
                found |= run.violation("cli-verdict-or-exit", {"name": out["name"], "src": out["src"], "cli": out["cli_bad"], "case": out["i"], "kind": out["tag"]})
                continue
            s2, steps = shrink_violation(out["name"], out["src"], v)
            r2 = impl.analyse(s2, out["name"])
            _, det2 = judge(out["name"], s2, r2)
            found |= run.violation(v.split(":", 1)[1], {"name": out["name"], "src": s2, "details": det2 or det, "case": out["i"], "kind": out["tag"],
                                                        "original_src": out["src"], "shrink_steps": steps,
                                                        "expected": "%s: OK!, no Error-level diagnostic, exit 0" % out["name"]})
        with mp.get_context("fork").Pool(common.NPROC) as pool:
            ktables, f2 = k_grids(run, seed, tier, pool)
            f3, multi_pos = multi_files(run, seed, tier, pool)
        found |= f2 | f3
        common.broken_obligations(run, b, found)
        return finish(run, b, {"programs": n, "by_kind": dict(tags), "through_cli": ncli, "failing_programs": len(bad),
                               "positions_of_conforming_files_in_multi_file_runs": multi_pos,
                               "build_wall_s (includes waiting for the shared build lock)": round(b.wall, 1),
                               "search_wall_s": round(time.time() - t_search, 1)}, ktables, hist)
    finally:
        shutil.rmtree(TMP, ignore_errors=True)


PROVED_WHOLE = ["CheckHeader (C13, given trace)", "CheckPreprocessorProtection (C14, given trace)", "CheckTernary (token kinds)",
                "CheckLabel (token kinds)", "CheckLineLen (columns <= 81)", "CheckManyInstructions (statement starts in column 1)",
                "CheckEmptyLine (view: statements and empty lines; scope name derived from the scope-trace model)",
                "CheckFunctionsCount (trace model, <= 5 definitions)",
                "CheckLineIndent (view: skipped / plain / `}` / `{` lines; indentation = depth of the scope chain)",
                "CheckExpressionStatement (expr_pos_ok at every position, return_ok after `return`)",
                "CheckSpacing (sp_ok at every position of the statement)",
                "CheckIdentifierName (names over [a-z0-9_], functions at global scope)",
                "CheckComment (no comment token; or outside functions every comment first on its line / followed by blanks only)",
                "CheckLineCount (unconditional: its guard names a rule no primary has)",
                "CheckPreprocessorIndent (ppi_line_ok: `#` in column 1, global scope, name at the expected indentation, one space before the argument)"]
PROVED_PARTIAL = {"CheckControlStatement": "translated part (WRONG_SCOPE, EXP_NEWLINE, FORBIDDEN_CS, ASSIGN_IN_CONTROL): cs_pos_ok at every position, "
                                           "every `(` closed before the line end, indentation >= 1 (scope-trace model)",
                  "CheckUtypeDeclaration": "translated part (TYPE_NOT_GLOBAL / FORBIDDEN_<type>), in headers",
                  "CheckBrace": "TOO_MANY_LINES at <= 25 body lines (scope-trace model)",
                  "CheckVariableDeclaration": "TOO_MANY_VARS_FUNC at <= 5 declarations (counter model)",
                  "CheckFuncDeclaration": "TOO_MANY_ARGS at <= 4 parameters (token-level counter)"}
TESTED_ONLY = ["CheckAssignation", "CheckAssignationIndent", "CheckBlockStart", "CheckBrace", "CheckCommentLineLen",
               "CheckControlStatement", "CheckDeclaration", "CheckEnumVarDecl", "CheckFuncArgumentsName",
               "CheckFuncDeclaration", "CheckFuncSpacing", "CheckGeneralSpacing", "CheckGlobalNaming", "CheckInHeader",
               "CheckNestLineIndent", "CheckNewlineIndent", "CheckOperatorsSpacing",
               "CheckPreprocessorDefine", "CheckPreprocessorInclude", "CheckPrototypeIndent",
               "CheckStructNaming", "CheckUtypeDeclaration", "CheckVariableDeclaration", "CheckVariableIndent"]


def registry_checks():
    """the check classes of the CURRENT source (rules/check_*.py): the three lists above must partition them"""
    import glob
    import re
    out = []
    for p in sorted(glob.glob(os.path.join(common.REPO, "norminette", "rules", "check_*.py"))):
        with open(p) as f:
            out += re.findall(r"^class (Check\w+)\(", f.read(), flags=re.M)
    return sorted(out)


# ---------------------------------------------------------------------------------------------- several files in one invocation
BAD_FILES = [("bad_ret.c", impl.HDR + "\nint\tmain(void)\n{\n\treturn 0;\n}\n"),
             ("bad_spc.c", impl.HDR + "\nint\tmain(void)\n{\n\tint\ta;\n\n\ta  = 1;\n\treturn (a);\n}\n"),
             ("bad_guard.h", impl.HDR + "\n#ifndef WRONG_H\n# define WRONG_H\n\nint\tf(void);\n\n#endif\n"),
             ("bad_tern.c", impl.HDR + "\nint\tmain(int ac)\n{\n\treturn (ac ? 1 : 0);\n}\n")]
NOTICE_FILES = [("note_g.c", impl.HDR + "\nint\tg_v = 1;\n\nint\tmain(void)\n{\n\treturn (g_v);\n}\n")]
MULTI_PATTERNS = [["bad", "good", "good"], ["good", "bad", "good"], ["good", "good", "bad"], ["notice", "good"], ["good", "notice", "good"],
                  ["bad", "notice", "good"], ["notice", "bad", "good", "bad", "good"], ["good", "good", "good"], ["bad", "bad", "good"],
                  ["bad", "good"], ["good"], ["notice", "notice", "good", "bad"]]


def multi_case(seed, k):
    """run k: the file classes in argument order and the files [(class, name, source)]"""
    r = random.Random("%d/multi/%d" % (seed, k))
    pat = MULTI_PATTERNS[k] if k < len(MULTI_PATTERNS) else [r.choice(["good", "good", "bad", "notice"]) for _ in range(r.randint(2, 6))]
    if "good" not in pat:
        pat.insert(r.randrange(len(pat) + 1), "good")
    files = []
    for cls in pat:
        if cls == "good":
            for _ in range(40):
                name, src = family.program(r, kind=r.choice(["c", "c", "h"])) if r.random() < 0.7 else fx.boundary_program(r)[:2]
                res = impl.analyse(src, name)
                if judge(name, src, res)[0] == "ok" and not any(d[2] == "Notice" for d in res["diags"]):
                    break
            else:
                name, src = "plain.c", impl.HDR + "\nint\tmain(void)\n{\n\treturn (0);\n}\n"
        elif cls == "bad":
            name, src = r.choice(BAD_FILES)
        else:
            name, src = r.choice(NOTICE_FILES)
        files.append((cls, name, src))
    return files


def multi_run(files, tag):
    """the files in one invocation, humanized and JSON; -> list of problems (empty = fine)"""
    d = os.path.join(TMP, "m%d_%s" % (os.getpid(), tag))
    shutil.rmtree(d, ignore_errors=True)
    paths = []
    for i, (cls, name, src) in enumerate(files):
        sub = os.path.join(d, "d%d" % i)
        os.makedirs(sub, exist_ok=True)
        with open(os.path.join(sub, name), "w") as f:
            f.write(src)
        paths.append(os.path.join("d%d" % i, name))
    problems = []
    classes = []
    for cls, name, src in files:                 # the class of a fixed file is re-established on the tree under test
        res = impl.analyse(src, name)
        errs = errors_of(res) if res["kind"] == "ok" else None
        classes.append("fatal" if errs is None else "bad" if errs else "notice" if res["diags"] else "good")
    if "fatal" in classes:
        shutil.rmtree(d, ignore_errors=True)
        return [], classes
    want_exit = 1 if "bad" in classes else 0
    try:
        code, out, err, exc = impl.run_main_subprocess(["--no-colors"] + paths, cwd=d)
        try:
            rep = impl.parse_human(out) if exc is None else None
        except ValueError as e:
            rep, exc = None, ("unparsable", str(e))
        if rep is None or len(rep) != len(files):
            problems.append({"format": "humanized", "what": "report does not hold one verdict per file", "stdout": out[:1500], "stderr": err[-400:], "exc": exc})
        else:
            for i, ((cls, name, src), k, (base, verdict, lines)) in enumerate(zip(files, classes, rep)):
                if base != name:
                    problems.append({"format": "humanized", "position": i, "what": "verdict line names %r, expected %r" % (base, name)})
                elif k in ("good", "notice") and (verdict != "OK" or any(x[0] == "Error" for x in lines)):
                    problems.append({"format": "humanized", "position": i, "file": name, "classes": classes,
                                     "what": "%s file printed `%s: %s!` (%d diagnostic lines) - expected `%s: OK!`" % (
                                         "conforming" if k == "good" else "Notice-only", base, verdict, len(lines), name)})
                elif k == "bad" and verdict != "Error":
                    problems.append({"format": "humanized", "position": i, "file": name, "classes": classes, "what": "file with an Error printed OK!"})
            if code != want_exit:
                problems.append({"format": "humanized", "what": "exit status %r, expected %d" % (code, want_exit), "classes": classes})
        code, out, err, exc = impl.run_main_subprocess(["-f", "json"] + paths, cwd=d)
        try:
            js = json.loads(out)["files"] if exc is None else None
        except (ValueError, KeyError, TypeError):
            js = None
        if js is None or len(js) != len(files):
            problems.append({"format": "json", "what": "report does not hold one entry per file", "stdout": out[:1500], "stderr": err[-400:], "exc": exc})
        else:
            for i, ((cls, name, src), k, e) in enumerate(zip(files, classes, js)):
                nerr = sum(1 for x in e.get("errors", []) if x.get("level") != "Notice")
                if os.path.basename(e.get("path", "")) != name:
                    problems.append({"format": "json", "position": i, "what": "entry is for %r, expected %r" % (e.get("path"), name)})
                elif k in ("good", "notice") and (e.get("status") != "OK" or nerr):
                    problems.append({"format": "json", "position": i, "file": name, "classes": classes,
                                     "what": "conforming file has status %r and %d errors - expected OK and none" % (e.get("status"), nerr)})
                elif k == "bad" and e.get("status") != "Error":
                    problems.append({"format": "json", "position": i, "file": name, "classes": classes, "what": "file with an Error has status OK"})
            if code != want_exit:
                problems.append({"format": "json", "what": "exit status %r, expected %d" % (code, want_exit), "classes": classes})
    finally:
        shutil.rmtree(d, ignore_errors=True)
    return problems, classes


def multi_work(task):
    seed, k = task
    files = multi_case(seed, k)
    problems, classes = multi_run(files, "k%d" % k)
    return k, files, classes, problems


def multi_files(run, seed, tier, pool):
    """conforming files before, between and after violating and Notice-only files, in ONE invocation"""
    found = False
    n = 24 if tier == "quick" else 300
    pos = collections.Counter()
    shown = 0
    for k, files, classes, problems in pool.imap_unordered(multi_work, [(seed, k) for k in range(n)], chunksize=2):
        ngood = classes.count("good")
        run.count("several files in one invocation (humanized + json)", 1, 1 if ngood and len(files) > 1 else 0)
        for i, c in enumerate(classes):
            if c == "good":
                before = set(classes[:i])
                pos["conforming file %s" % ("first" if i == 0 else "after " + "+".join(sorted(before)))] += 1
        if problems and shown < 5:
            shown += 1
            found |= run.violation("multi-file-run", {"files": [list(f) for f in files], "classes": classes, "problems": problems[:6],
                                                      "expected": "every conforming file `<name>: OK!` / status OK without errors, exit 0 iff no file has an Error",
                                                      "command": "python -m norminette --no-colors <files in this order>  and  -f json"})
        elif k == 0:
            run.sample({"files_in_one_invocation": [f[1] for f in files], "classes": classes, "verdicts": "as expected in both formats"})
    return found, dict(pos)


def group(hist, prefix):
    return {k[len(prefix):]: v for k, v in sorted(hist.items()) if k.startswith(prefix)}


def finish(run, b, sizes, ktables, hist):
    disc = sum(1 for t in b.theorems if t not in b.open_assumptions) if b.make_ok else 0
    have = registry_checks()
    claimed = sorted([x.split(" ")[0] for x in PROVED_WHOLE] + TESTED_ONLY)
    if have != claimed:
        run.notes.append("the check classes of the source differ from the lists of this check: only in source %s, only in lists %s"
                         % (sorted(set(have) - set(claimed)), sorted(set(claimed) - set(have))))
    if CANDIDATES["n"]:
        print("CANDIDATE-FINDING: property=C01 a cast to a typedef name directly before unary * & ~ ((t_x)*p) gets SPC_BFR_OPERATOR/SPC_AFTER_OPERATOR "
              "[%s; seen %d times in this run; not listed in KNOWN_FINDINGS.jsonl]" % (fx.K_IDS["K5"], CANDIDATES["n"]))
    extra = {
        "search_sizes": sizes,
        "construct_histogram": {"statement_and_line_forms": group(hist, "stmt:"), "binary_operators": group(hist, "binary:"),
                                "unary_operators": group(hist, "unary:"), "unary_operator_preceded_by": group(hist, "unary-after:"),
                                "expression_forms": group(hist, "expr:"), "constant_kinds": group(hist, "const:"), "identifier_kinds": group(hist, "ident:"),
                                "max_tab_nesting_depth_per_program": group(hist, "nesting-depth:"), "max_paren_depth_per_program": group(hist, "paren-depth:")},
        "known_family_boundaries": ktables,
        "candidate_new_family_K5 (typedef-name cast directly before unary * & ~; not in KNOWN_FINDINGS.jsonl, reported to the integrator)": dict(CANDIDATES),
        "proved_code_set_K": ["INVALID_HEADER", "HEADER_PROT_*", "lexical codes (lexer.py)"],
        "checks_proved_silent_as_a_whole": PROVED_WHOLE,
        "checks_with_partial_silence_theorems": PROVED_PARTIAL,
        "checks_tested_not_proved": TESTED_ONLY,
        "tested_not_proved": "the %d checks of checks_tested_not_proved (of 39): their silence on G is established by the search above only (testing, "
                             "labelled as testing); %d of them have the partial theorems of checks_with_partial_silence_theorems" % (
                                 len(TESTED_ONLY), len(PROVED_PARTIAL)),
    }
    return run.finish(max(len(b.theorems), 1), disc, RULE, extra=extra,
                      assumptions=["C01_statement (all 39 checks silent on all of G) is NOT proved and is false of the current tree (K1..K4)",
                                   "C01_partial_K: 15 of 39 checks proved silent as a whole on conforming statements (5 more partially), under shape / given-history "
                                   "hypotheses (scope name and indentation derived from the scope-trace model); the code set {INVALID_HEADER} + HEADER_PROT_* + lexical codes; the tokenizer on conforming "
                                   "texts of any number of lines (tabs, identifiers, single spaces, simple operators, brackets, the atoms of Spec/Conforming.v, line ends)",
                                   "K2..K4 are established on the implementation only (CheckOperatorsSpacing is not modelled)"])
