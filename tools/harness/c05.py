"""C05 - every input gets an answer: no hang, no internal error."""
import os
import random

import common
import family
import lexcorr
import pipeline


def finding_id(r):
    if r["kind"] == "timeout":
        return "C05-hang"
    fr = r.get("frame")
    return "C05-exc:%s@%s" % (r.get("exc"), "%s:%s" % tuple(fr) if fr else "?")


def cases_for(rnd, nprog, nprefix, nedit):
    out = []
    for _ in range(nprog):
        name, src = family.program(rnd)
        sp = pipeline.token_spans(src, name)
        if sp is None:
            continue
        out.append((src, name, 0))
        for p in pipeline.prefixes(src, sp, rnd, nprefix):
            out.append((p, name, 0))
        for e in pipeline.edits(src, sp, rnd, nedit):
            out.append((e, name, 0))
        # a second edit on top of a first one
        for e in pipeline.edits(src, sp, rnd, max(1, nedit // 4)):
            sp2 = pipeline.token_spans(e, name)
            if sp2:
                out.extend((e2, name, 0) for e2 in pipeline.edits(e, sp2, rnd, 1))
    return out


def run(run, tier, seed, replay=None):
    b = common.build(["C05"])
    run.build = b
    found = False
    have_drv = b.driver_ok and os.path.exists(os.path.join(common.BUILD, "nvdriver"))
    rnd = random.Random(seed)
    if replay is not None and "src" in replay["data"] and "name" not in replay["data"]:
        found |= lexcorr.run_lexical_check(run, tier, seed, "c05", ("lexer-not-total",), replay)
    else:
        # ---- (a) the tokenizer is total
        if have_drv and replay is None:
            found |= lexcorr.run_lexical_check(run, tier, seed, "c05", ("lexer-not-total",))
        # ---- (b) the pipeline: programs, token prefixes, token edits
        if replay is not None:
            cases = [(replay["data"]["src"], replay["data"]["name"], replay["data"].get("debug", 0))]
        elif tier == "quick":
            cases = cases_for(rnd, 50, 25, 25)
        else:
            cases = cases_for(rnd, 1200, 60, 60)
        drv = common.Driver() if have_drv else None
        kinds = {}
        fails = []
        ncorr = 0
        badjump = 0
        for src, name, debug, r in pipeline.run_many(cases):
            k = r["kind"] if r["kind"] != "exc" else "exc"
            kinds[k] = kinds.get(k, 0) + 1
            if r["kind"] in ("exc", "timeout"):
                fails.append((len(src), src, name, r))
            # hypothesis of the loop theorems, observed: a matching primary consumes >= 1 token
            for ev in r["events"]:
                if ev[0] == "match" and not (isinstance(ev[2], int) and ev[2] >= 1):
                    badjump += 1
                    found |= run.violation("primary-matched-without-consuming", {"src": src, "name": name, "event": ev})
            # the generic loop model against this run
            if drv is not None and r["ntokens"] is not None and r["kind"] in ("ok", "fatal"):
                e, exp = pipeline.engine_request(r, debug)
                why = pipeline.engine_compare(drv.call("engine", e), r, exp)
                ncorr += 1
                if why:
                    found |= run.violation("correspondence-registry-loop", {"src": src, "name": name, "why": why})
        fails.sort(key=lambda t: (t[0], t[1]))
        for _, src, name, r in fails:
            found |= run.violation("internal-error" if r["kind"] == "exc" else "hang",
                                   {"src": src, "name": name, "exc": r.get("exc"), "frame": r.get("frame"), "msg": r.get("msg")},
                                   finding_id=finding_id(r))
        if drv:
            drv.close()
        run.count("pipeline: programs, token prefixes, 1-2 token edits", len(cases), kinds.get("ok", 0) + kinds.get("fatal", 0))
        run.cov["pipeline_outcomes"] = kinds
        run.cov["registry_loop_runs_compared_with_model"] = ncorr
        run.cov["matches_with_jump_below_1"] = badjump
        if cases:
            run.sample({"name": cases[1][1], "src_tail": cases[1][0][-160:]})
    common.broken_obligations(run, b, found)
    disc = sum(1 for t in b.theorems if t not in b.open_assumptions) if b.make_ok else 0
    return run.finish(max(len(b.theorems), 4), disc,
                      "tokenizer: every string up to a length bound over reduced alphabets + structured/malformed/long-run strings "
                      "(exceptions and timeouts observed, model compared); pipeline: conforming programs of the family G (.c and .h), "
                      "every sampled token prefix and 1-2 token edits (delete/insert/replace/swap), each under a 2 s limit, exceptions "
                      "classified by class + innermost norminette frame; the recorded main-loop events of every run are replayed in "
                      "the extracted loop model; non-trivial = the run ended with a verdict or a controlled fatal error",
                      assumptions=["the hypothesis `a matching primary consumes >= 1 token` of the loop theorems is observed on every run, not proved per rule"])
