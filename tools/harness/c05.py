"""C05 - every input gets an answer: no hang, no internal error."""
import os
import random

import common
import family
import lexcorr
import pipeline


def finding_id(r):
    if r["kind"] == "timeout":
        return "C05-hang"
    fr = r.get("frame")
    return "C05-exc:%s@%s" % (r.get("exc"), "%s:%s" % tuple(fr) if fr else "?")


SNIPPETS = [
    "#define A(x) ((x) + 1)\n", "#define MAX(a, b) ((a) > (b) ? (a) : (b))\n", "#define EMPTY()\n", "# define V(a, ...) f(a, __VA_ARGS__)\n",
    "#if defined(A) && (B > 2 || !C)\n# define D 1\n#elif X\n#else\n#endif\n", "#ifdef A\n#ifndef B\n#endif\n#endif\n",
    "#include <a.h>\n#include \"b.h\"\n", "#pragma once\n#undef A\n#error stop\n#warning w\n#line 3\n",
    "#define LONG 1 + \\\n\t2\n", "typedef struct s_a\n{\n\tint\ta;\n\tchar\t*b[3];\n}\tt_a;\n",
    "typedef int\t(*t_f)(int a, char *b);\n", "int\t(*f(int a))(int);\n", "enum e_a\n{\n\tA = 1,\n\tB\n};\n",
    "union u_a\n{\n\tint\ta;\n};\n", "struct s_b\tg_b = {.a = 1, .b = {1, 2}};\n", "static const char\t*g_t[] = {\"a\", \"b\"};\n",
    "void\tf(void) __attribute__((noreturn));\n", "extern int\tg_e;\n", "int\tg(int a[static 3], ...);\n",
    "int\tmain(int argc, char **argv)\n{\n\tint\ti;\n\n\tfor (i = 0; i < 3; i++)\n\t\tfoo(i);\n\tswitch (argc)\n\t{\n\t\tcase 1:\n"
    "\t\t\tbreak ;\n\t\tdefault:\n\t\t\tbreak ;\n\t}\n\tdo\n\t{\n\t\ti--;\n\t} while (i > 0);\n\tgoto end;\nend:\n\treturn (argc ? i : 0);\n}\n",
    "int\tf(void)\n{\n\tt_a\tx;\n\n\tx = (t_a){1, 2};\n\tx.a = sizeof(t_a) * sizeof x;\n\treturn ((int)x.a->b[2](3));\n}\n",
    "int\tf(void)\n{\n\tchar\t*s;\n\n\ts = \"a\" \"b\";\n\tif (s)\n\t{\n\t\twhile (*s)\n\t\t\ts++;\n\t}\n\telse if (!s)\n\t\treturn (1);\n\telse\n\t\treturn (2);\n\treturn (0);\n}\n",
    "int\tf(void)\n{\n\treturn (a && -b || ~c);\n}\n", "/* c */ int\ta; // d\n/*\n** e\n*/\n",
    "typedef struct s_toto\tt_toto;\nunion u_toto\t\t\t\tvar;\nint\t\t\t\t\t\t\tg_int, g_b, *g_c[2];\n",
    "int\tf(void)\n{\n\tint\ta, b;\n\tchar\t*c, **d;\n\n\treturn (0);\n}\n",
    # keywords where a macro name is expected (value-less tokens in directive arguments)
    "#ifndef NULL\n# define NULL 0\n#endif\n", "#define inline\n#define const\n#undef int\n#ifdef while\n#endif\n",
    "#ifndef A_H\n# define A_H\n# ifndef NULL\n#  define NULL 0\n# endif\n#endif\n", "#if defined(NULL) && !defined(int)\n#endif\n",
]


def corpus(rnd, nprog, nsamples):
    """base programs: the conforming family G plus the repository's rule samples (constructs outside G:
    function-like macros, for/switch/goto, struct/enum in .c files, attributes, function pointers, ...)"""
    import glob
    progs = [family.program(rnd) for _ in range(nprog)]
    paths = sorted(glob.glob(os.path.join(common.REPO, "tests", "rules", "samples", "*.[ch]")))
    rnd.shuffle(paths)
    for p in paths[:nsamples]:
        try:
            with open(p) as f:
                progs.append((os.path.basename(p), f.read()))
        except (OSError, UnicodeDecodeError):
            pass
    return progs


def cases_for(rnd, nprog, nprefix, nedit, nsamples=0, all_prefix_below=0):
    out = []
    for name, src in corpus(rnd, nprog, nsamples):
        sp = pipeline.token_spans(src, name)
        if sp is None:
            continue
        out.append((src, name, 0))
        for p in pipeline.prefixes(src, sp, rnd, 10 ** 6 if len(sp) <= all_prefix_below else nprefix):
            out.append((p, name, 0))
        for e in pipeline.edits(src, sp, rnd, nedit):
            out.append((e, name, 0))
        # a second edit on top of a first one
        for e in pipeline.edits(src, sp, rnd, max(1, nedit // 4)):
            sp2 = pipeline.token_spans(e, name)
            if sp2:
                out.extend((e2, name, 0) for e2 in pipeline.edits(e, sp2, rnd, 1))
    # minimised past failures (corpus/C05/*.json) run first on every tier
    import glob as _glob
    import json as _json
    for pth in sorted(_glob.glob(os.path.join(common.VERIF, "corpus", "C05", "*.json"))):
        with open(pth) as f:
            d = _json.load(f)
        out.insert(0, (d["src"], d["name"], 0))
    # constructs outside the family G: every token prefix of each snippet, as .c and as .h, with and without header
    import impl
    for sn in SNIPPETS:
        for name in ("a.c", "a.h"):
            for text in (sn, impl.HDR + "\n" + sn):
                sp = pipeline.token_spans(text, name)
                if sp is None:
                    continue
                cuts = sorted(set(hi for _, hi, _ in sp))
                if text is not sn:
                    cuts = [c for c in cuts if c > len(impl.HDR)]
                out.extend((text[:c], name, 0) for c in cuts)
    return out


def run(run, tier, seed, replay=None):
    b = common.build(["C05"])
    run.build = b
    found = False
    have_drv = b.driver_ok and os.path.exists(os.path.join(common.BUILD, "nvdriver"))
    rnd = random.Random(seed)
    if replay is not None and "src" in replay["data"] and "name" not in replay["data"]:
        found |= lexcorr.run_lexical_check(run, tier, seed, "c05", ("lexer-not-total",), replay)
    else:
        # ---- (a) the tokenizer is total
        if have_drv and replay is None:
            found |= lexcorr.run_lexical_check(run, tier, seed, "c05", ("lexer-not-total",))
        # ---- (b) the pipeline: programs, token prefixes, token edits
        if replay is not None:
            cases = [(replay["data"]["src"], replay["data"]["name"], replay["data"].get("debug", 0))]
        elif tier == "quick":
            cases = cases_for(rnd, 40, 25, 20, nsamples=60, all_prefix_below=250)
        else:
            cases = cases_for(rnd, 1200, 60, 60, nsamples=1000, all_prefix_below=3000)
        drv = common.Driver() if have_drv else None
        kinds = {}
        fails = []
        ncorr = 0
        badjump = 0
        for src, name, debug, r in pipeline.run_many(cases):
            k = r["kind"] if r["kind"] != "exc" else "exc"
            kinds[k] = kinds.get(k, 0) + 1
            if r["kind"] in ("exc", "timeout"):
                fails.append((len(src), src, name, r))
            # hypothesis of the loop theorems, observed: a matching primary consumes >= 1 token
            for ev in r["events"]:
                if ev[0] == "match" and not (isinstance(ev[2], int) and ev[2] >= 1):
                    badjump += 1
                    found |= run.violation("primary-matched-without-consuming", {"src": src, "name": name, "event": ev})
            # the generic loop model against this run
            if drv is not None and r["ntokens"] is not None and r["kind"] in ("ok", "fatal"):
                e, exp = pipeline.engine_request(r, debug)
                why = pipeline.engine_compare(drv.call("engine", e), r, exp)
                ncorr += 1
                if why:
                    found |= run.violation("correspondence-registry-loop", {"src": src, "name": name, "why": why})
        fails.sort(key=lambda t: (t[0], t[1]))
        for _, src, name, r in fails:
            found |= run.violation("internal-error" if r["kind"] == "exc" else "hang",
                                   {"src": src, "name": name, "exc": r.get("exc"), "frame": r.get("frame"), "msg": r.get("msg")},
                                   finding_id=finding_id(r))
        if drv:
            drv.close()
        # ---- (c) the command line wrapper: every outcome class through main() itself, given as a path
        import shutil
        import tempfile
        import impl
        byk = {}
        for src, name, debug in cases:
            pass
        tmp = tempfile.mkdtemp(prefix="nvc05_")
        try:
            sample = cases[:: max(1, len(cases) // (120 if tier == "quick" else 1500))]
            ncli = 0
            for k, (src, name, debug) in enumerate(sample):
                d = os.path.join(tmp, "c%d" % k)
                os.makedirs(d)
                with open(os.path.join(d, name), "w") as f:
                    f.write(src)
                code, out, err, exc = impl.run_main(["--no-colors", name], cwd=d, limit=5.0)
                shutil.rmtree(d, ignore_errors=True)
                ncli += 1
                r = {"kind": "timeout"} if exc and exc[0] == "Timeout" else {"kind": "exc", "exc": exc[0], "frame": exc[1]} if exc else None
                if r is not None:
                    found |= run.violation("cli-internal-error" if r["kind"] == "exc" else "cli-hang",
                                           {"src": src, "name": name, "exc": exc}, finding_id=finding_id(r))
                    continue
                lines = [x for x in out.split("\n") if x]
                fatal = len(lines) >= 1 and lines[0] == name + ": Error!" and len(lines) == 2 and lines[1].startswith("\t")
                verdict = len(lines) >= 1 and lines[0] in (name + ": OK!", name + ": Error!") and not fatal
                if not ((fatal and code not in (0, None)) or (verdict and code in (0, 1))):
                    found |= run.violation("cli-neither-verdict-nor-fatal-line", {"src": src, "name": name, "exit": code, "stdout": out[-400:], "stderr": err[-400:]})
            run.count("command line: main() on a path, every outcome class", ncli, ncli)
        finally:
            shutil.rmtree(tmp, ignore_errors=True)
        run.count("pipeline: programs, token prefixes, 1-2 token edits", len(cases), kinds.get("ok", 0) + kinds.get("fatal", 0))
        run.cov["pipeline_outcomes"] = kinds
        run.cov["registry_loop_runs_compared_with_model"] = ncorr
        run.cov["matches_with_jump_below_1"] = badjump
        if cases:
            k = min(1, len(cases) - 1)
            run.sample({"name": cases[k][1], "src_tail": cases[k][0][-160:]})
    common.broken_obligations(run, b, found)
    disc = sum(1 for t in b.theorems if t not in b.open_assumptions) if b.make_ok else 0
    return run.finish(max(len(b.theorems), 4), disc,
                      "tokenizer: every string up to a length bound over reduced alphabets + structured/malformed/long-run strings "
                      "(exceptions and timeouts observed, model compared); pipeline: conforming programs of the family G (.c and .h), "
                      "every sampled token prefix and 1-2 token edits (delete/insert/replace/swap), each under a 2 s limit, exceptions "
                      "classified by class + innermost norminette frame; the recorded main-loop events of every run are replayed in "
                      "the extracted loop model; non-trivial = the run ended with a verdict or a controlled fatal error",
                      assumptions=["the hypothesis `a matching primary consumes >= 1 token` of the loop theorems is observed on every run, not proved per rule"])
