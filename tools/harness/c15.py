"""C15 - exactly the requested C sources are checked.

Random directory trees in a scratch directory x argument lists, run through the real main() (in-process, a tenth in a
subprocess).  Search: the multiset of verdict-line base names (or absolute paths with -f json) must equal `wanted`,
computed by an independent re-implementation of the property's SPECIFICATION on the generated tree (never on the
code's glob); rejected arguments must be reported and not checked; a missing path must end with a non-zero status;
with --use-gitignore the files git lists as ignored must be left out.  Correspondence: the same tree (entries in
os.scandir order) and arguments through Model/Select.v (`Eval vm_compute`), compared item by item and in order."""
import json
import os
import random
import re
import shutil
import subprocess
import tempfile
import time
from collections import Counter
from concurrent.futures import ThreadPoolExecutor

import common
import impl

F_DOT = "C15-dot-names-skipped"

CONTENT = {
    "ok": impl.HDR + "\nint\tmain(void)\n{\n\treturn (0);\n}\n",
    "err": "int main(){return 0;}\n",
    "empty": "",
    "hdr": impl.HDR + "\n#ifndef A_H\n# define A_H\n\nint\tft_a(void);\n\n#endif\n",
    "text": "not C at all {{{ ((\n",
}
STEMS = ["a", "main", "ft_x", "b b", "x.y", "lib", "t e s t", "été", "it's", "n-1", "v2.0", "UP", "c", "h", "a.c", "q.h",
         "we ird  name", "0", "_", "a..b"]
SRC_SUFFIX = [".c", ".h"]
LOOKALIKE = [".cc", ".hh", ".C", ".H", ".c.bak", ".h.txt", "", ".txt", ".o", ".cpp", ".c ", ".ch", ".c.h.x", "c", ".c~", ".h.gch"]
DIRS = ["src", "inc", "d", "sub dir", "x.y", "deep", "obj", "A", "lib", "t.d", "incl udes"]
MAGIC = set("*?[]/\\\n\r\x00")


# ---------------------------------------------------------------------------------------------- trees
def gen_name(rnd, used, kind, features):
    for _ in range(50):
        if kind == "f":
            r = rnd.random()
            stem = rnd.choice(STEMS)
            if rnd.random() < 0.5:
                stem += str(rnd.randint(0, 99))
            if r < 0.50:
                name = stem + rnd.choice(SRC_SUFFIX)
            elif r < 0.80:
                name = stem + rnd.choice(LOOKALIKE)
            elif r < 0.88:
                name = stem + rnd.choice([".c.c", ".h.c", "..c", ".c.h", ". .h"])
            else:
                name = stem
            if features["dot"] and rnd.random() < 0.10:
                name = rnd.choice([".", ".hid", "..", ".x."]) + name if rnd.random() < 0.8 else rnd.choice([".c", ".h", ".hidden", ".a.c"])
        else:
            name = rnd.choice(DIRS) + (str(rnd.randint(0, 9)) if rnd.random() < 0.4 else "")
            if features["dirlike"] and rnd.random() < 0.12:
                name = rnd.choice(["lib", "x", "a b", "v1.2"]) + rnd.choice([".c", ".h"])
            if features["dot"] and rnd.random() < 0.08:
                name = "." + name
        if name in (".", "..", ".git", ".gitignore") or name in used or any(c in MAGIC for c in name) or not name.strip("."):
            continue
        return name
    return "n%d" % len(used)


def gen_tree(rnd, depth, features, budget):
    """-> list of children; child = ["f", name, kind] | ["d", name, children]"""
    out, used = [], set()
    n = rnd.choice([0, 1, 2, 3, 3, 4, 5, 7]) if depth > 0 else rnd.choice([0, 1, 2, 4])
    for _ in range(n):
        if budget[0] <= 0:
            break
        budget[0] -= 1
        if depth > 0 and rnd.random() < 0.35:
            name = gen_name(rnd, used, "d", features)
            used.add(name)
            out.append(["d", name, gen_tree(rnd, depth - 1, features, budget)])
        else:
            name = gen_name(rnd, used, "f", features)
            used.add(name)
            if name.endswith(".h"):
                kind = rnd.choice(["hdr", "hdr", "empty", "err"])
            elif name.endswith(".c"):
                kind = rnd.choice(["ok", "ok", "err", "empty"])
            else:
                kind = rnd.choice(["text", "ok", "empty"])
            out.append(["f", name, kind])
    return out


def write_tree(base, children):
    os.makedirs(base, exist_ok=True)
    for c in children:
        p = os.path.join(base, c[1])
        if c[0] == "d":
            write_tree(p, c[2])
        else:
            with open(p, "w") as f:
                f.write(CONTENT[c[2]])


def resolve(children, comps):
    """-> ("d", children) | ("f", kind) | None, on the generated structure"""
    cur = ("d", children)
    for x in comps:
        if cur[0] != "d":
            return None
        nxt = [c for c in cur[1] if c[1] == x]
        if not nxt:
            return None
        cur = ("d", nxt[0][2]) if nxt[0][0] == "d" else ("f", nxt[0][2])
    return cur


def all_paths(children, prefix=()):
    for c in children:
        p = prefix + (c[1],)
        yield p, c[0]
        if c[0] == "d":
            yield from all_paths(c[2], p)


def ends_src(name):
    return name.endswith(".c") or name.endswith(".h")


def files_below(children, prefix=()):
    """the SPEC: all regular files below, with names ending in .c / .h"""
    for c in children:
        if c[0] == "d":
            yield from files_below(c[2], prefix + (c[1],))
        elif ends_src(c[1]):
            yield prefix + (c[1],)


# ---------------------------------------------------------------------------------------------- arguments
def norm_comps(text):
    return [x for x in text.split("/") if x not in ("", ".")]


def spell(rnd, root, cwd_rel, target, is_dir):
    """a command-line spelling of the path `target` (components relative to the tree root)"""
    absolute = os.path.join(root, *target) if target else root
    inside = list(target[:len(cwd_rel)]) == list(cwd_rel)
    r = rnd.random()
    if not inside or r < 0.15:
        text = absolute
    else:
        rel = list(target[len(cwd_rel):])
        text = "/".join(rel) if rel else "."
        if rel and r < 0.30:
            text = "./" + text
    if is_dir and text not in (".",) and rnd.random() < 0.2:
        text += "/"
    return text


def gen_args(rnd, root, tree, cwd_rel):
    paths = list(all_paths(tree))
    n = rnd.choice([0, 1, 1, 1, 2, 2, 3, 4])
    args = []
    for _ in range(n):
        r = rnd.random()
        if r < 0.06 or not paths:
            # a missing path: unknown name in an existing directory, or a path through a regular file
            dirs = [p for p, k in paths if k == "d"] + [()]
            files = [p for p, k in paths if k == "f"]
            if files and rnd.random() < 0.3:
                t = rnd.choice(files) + ("x.c",)
            else:
                t = rnd.choice(dirs) + (rnd.choice(["nope.c", "missing", "no such.h", "gone"]),)
            args.append(spell(rnd, root, cwd_rel, t, False))
        elif r < 0.11:
            args.append(spell(rnd, root, cwd_rel, tuple(cwd_rel), True))       # the current directory itself
        elif r < 0.20 and args:
            args.append(rnd.choice(args))                                      # repeated verbatim
        else:
            p, k = rnd.choice(paths)
            if k == "d" and rnd.random() < 0.5:
                ds = [q for q in paths if q[1] == "d"]
                p, k = rnd.choice(ds)
            args.append(spell(rnd, root, cwd_rel, p, k == "d"))
    return args


def arg_item(text, root_comps, cwd_rel):
    """(raw, abs, comps) as pathlib sees it; plus the components relative to the tree root (None when outside)"""
    comps = norm_comps(text)
    ab = text.startswith("/")
    full = comps if ab else root_comps + list(cwd_rel) + comps
    rel = full[len(root_comps):] if full[:len(root_comps)] == root_comps else None
    return {"raw": text, "abs": ab, "comps": comps, "rel": rel}


# ---------------------------------------------------------------------------------------------- the specification
def wanted(tree, cwd_rel, items):
    """-> dict(abort=bool, files=[(rel tuple, mention index)], rejects=[names]) from the property text alone"""
    out = {"abort": False, "files": [], "rejects": [], "mentions": []}
    its = items if items else [{"rel": list(cwd_rel), "comps": [], "raw": ".", "abs": False}]
    for i, it in enumerate(its):
        node = resolve(tree, it["rel"]) if it["rel"] is not None else None
        if node is None:
            out["abort"] = True
            continue
        if node[0] == "f":
            name = it["rel"][-1]
            if ends_src(name):
                out["files"].append((tuple(it["rel"]), i))
            else:
                out["rejects"].append(name)
        else:
            out["mentions"].append(i)
            for p in files_below(node[1], tuple(it["rel"])):
                out["files"].append((p, i))
    return out


def explained_by_findings(tree, cwd_rel, items, w):
    """The known finding as a matcher: what the selection is if names starting with '.' below a named directory are not
    found (and a file named exactly .c/.h is rejected).  -> (Counter of rel paths, set of finding ids used).
    (C15-dir-named-like-source is repaired: a file listed twice below a directory named *.c/*.h is a plain violation.)"""
    its = items if items else [{"rel": list(cwd_rel)}]
    exp, used = Counter(), set()
    for p, i in w["files"]:
        base = its[i]["rel"]
        below = p[len(base):]
        if not below:                                   # the named file itself
            if p[-1] in (".c", ".h"):
                used.add(F_DOT)
                continue
            exp[p] += 1
            continue
        if any(x.startswith(".") for x in below):
            used.add(F_DOT)
            continue
        exp[p] += 1
    return exp, used


# ---------------------------------------------------------------------------------------------- running main()
DIAG = re.compile(r"^(Error|Notice): \S+ +\(line: +\d+, col: +\d+\):\t")
VERDICT = re.compile(r"^(.*): (OK|Error)!$")


def parse_output(out, fmt):
    """-> (messages, [(name or abspath, verdict)]) ; raises ValueError"""
    msgs, verdicts = [], []
    lines = out.split("\n")
    if lines and lines[-1] == "":
        lines.pop()
    if fmt == "json":
        if lines and lines[-1].startswith("{"):
            js = json.loads(lines.pop())
            verdicts = [(x["path"], x["status"]) for x in js["files"]]
        return lines, verdicts
    for ln in impl.strip_colors("\n".join(lines)).split("\n") if lines else []:
        if DIAG.match(ln):
            if not verdicts:
                raise ValueError("diagnostic line before any verdict: %r" % ln)
            continue
        m = VERDICT.match(ln)
        if m:
            verdicts.append((m.group(1), m.group(2)))
        elif verdicts:
            raise ValueError("unparsable line after a verdict: %r" % ln)
        else:
            msgs.append(ln)
    return msgs, verdicts


def git_setup(root, gitignore, tracked):
    env = dict(os.environ)
    subprocess.run(["git", "init", "-q"], cwd=root, check=True, env=env, capture_output=True)
    with open(os.path.join(root, ".gitignore"), "w") as f:
        f.write(gitignore)
    for t in tracked:
        subprocess.run(["git", "add", "-f", "--", t], cwd=root, env=env, capture_output=True)


def git_ignored(root):
    """files git considers ignored, by an invocation different from the one main() uses"""
    env = dict(os.environ)
    p = subprocess.run(["git", "ls-files", "-z", "--others", "--ignored", "--exclude-standard"], cwd=root, env=env,
                       capture_output=True, text=True, check=True)
    return {tuple(x.split("/")) for x in p.stdout.split("\0") if x}


def gen_gitignore(rnd, tree):
    paths = list(all_paths(tree))
    lines = []
    for _ in range(rnd.randint(0, 4)):
        r = rnd.random()
        if r < 0.25:
            lines.append(rnd.choice(["*.h", "*.c", "*.o", "a*", "*1*"]))
        elif r < 0.50 and paths:
            p, k = rnd.choice(paths)
            lines.append("/" + "/".join(x.replace(" ", "\\ ") for x in p) + ("/" if k == "d" else ""))
        elif r < 0.70 and paths:
            p, k = rnd.choice(paths)
            lines.append(p[-1].replace(" ", "\\ "))
        elif r < 0.85:
            lines.append(rnd.choice(["src/", "deep/", "obj*/", "lib*"]))
        else:
            lines.append("!" + rnd.choice(["main*.c", "*.h", "a*"]))
    return "".join(x + "\n" for x in lines)


# ---------------------------------------------------------------------------------------------- the Coq side
def cstr(x):
    return "[" + ";".join(str(ord(c)) for c in x) + "]%N"


def cpath(comps):
    return "[" + ";".join(cstr(x) for x in comps) + "]"


def cnode(children):
    return "Dir [" + ";".join("(%s,%s)" % (cstr(n), "File" if k == "f" else cnode(sub)) for k, n, sub in children) + "]"


def disk_tree(path, opaque=(".git",)):
    """the tree as the OS lists it: entries in os.scandir order (what glob sees); .git is kept as an empty directory"""
    out = []
    with os.scandir(path) as it:
        for e in it:
            if e.is_dir(follow_symlinks=False):
                out.append(("d", e.name, [] if e.name in opaque else disk_tree(os.path.join(path, e.name))))
            else:
                out.append(("f", e.name, None))
    return out


def coq_case(case):
    root_comps = case["root_comps"]
    t = disk_tree(case["root"])
    for x in reversed(root_comps):
        t = [("d", x, t)]
    items = "[" + ";".join("mkitem %s %s %s" % (cstr(i["raw"]), "true" if i["abs"] else "false", cpath(i["comps"]))
                           for i in case["items"]) + "]"
    cwd = cpath(root_comps + list(case["cwd_rel"]))
    ign = "[" + ";".join(cpath(root_comps + list(p)) for p in sorted(case.get("ignored") or [])) + "]"
    fatal = "true" if case["git"] == "norepo" else "false"
    use = "true" if case["git"] else "false"
    return "Eval vm_compute in (enc_result (select (%s) %s (oracle_of %s %s %s) %s %s)).\n" % (
        cnode(t), cwd, cwd, ign, fatal, use, items)


def run_coq(cases, workdir):
    """-> list of decoded model results, one per case (None where the output is missing)"""
    os.makedirs(workdir, exist_ok=True)
    for f in os.listdir(workdir):
        if f.startswith("cases_"):
            os.remove(os.path.join(workdir, f))
    chunks = [cases[i:i + 250] for i in range(0, len(cases), 250)]
    files = []
    for k, ch in enumerate(chunks):
        p = os.path.join(workdir, "cases_%d.v" % k)
        with open(p, "w") as f:
            f.write("From NV Require Import Model.Select.\nOpen Scope Z_scope.\n")
            for c in ch:
                f.write(coq_case(c))
        files.append(p)

    def one(p):
        q = subprocess.run(["timeout", "600", "coqc", "-R", os.path.join(common.COQ, "theories"), "NV", p], capture_output=True,
                           text=True, cwd=workdir)
        res = []
        for m in re.finditer(r"=\s*\[(.*?)\]\s*:\s*list Z", q.stdout, flags=re.S):
            res.append([int(x.replace("%Z", "")) for x in m.group(1).replace("\n", " ").split(";") if x.strip()])
        return res, q.stderr[-600:] if q.returncode != 0 else ""
    with ThreadPoolExecutor(common.NPROC) as ex:
        outs = list(ex.map(one, files))
    results, errs = [], []
    for ch, (res, err) in zip(chunks, outs):
        if err or len(res) != len(ch):
            errs.append(err or "expected %d results, got %d" % (len(ch), len(res)))
            res = (res + [None] * len(ch))[:len(ch)]
        results += res
    return [decode(r) if r is not None else None for r in results], errs


def decode(t):
    i = [0]

    def z():
        v = t[i[0]]
        i[0] += 1
        return v

    def st():
        n = z()
        v = "".join(chr(c) for c in t[i[0]:i[0] + n])
        i[0] += n
        return v
    k = z()
    if k == 0:
        files = []
        for _ in range(z()):
            ab = z() == 1
            comps = [st() for _ in range(z())]
            files.append({"abs": ab, "comps": comps, "raw": st()})
        return {"kind": "selected", "files": files, "msgs": [st() for _ in range(z())]}
    if k == 1:
        code = z()
        return {"kind": "exited", "code": code, "msgs": [st() for _ in range(z())]}
    return {"kind": {2: "fatal", 3: "crash", 4: "hang"}[k]}


# ---------------------------------------------------------------------------------------------- one case
def make_case(rnd, scratch, k, tier_features=None):
    features = tier_features or {"dot": rnd.random() < 0.35, "dirlike": rnd.random() < 0.35}
    depth = rnd.choice([0, 1, 2, 2, 3, 3, 4])
    tree = gen_tree(rnd, depth, features, [rnd.choice([6, 12, 25, 40])])
    dirs = [p for p, kd in all_paths(tree) if kd == "d"]
    cwd_rel = list(rnd.choice(dirs)) if dirs and rnd.random() < 0.2 else []
    git = False
    r = rnd.random()
    if r < 0.30:
        git = "repo"
    elif r < 0.33:
        git = "norepo"
    case = {"k": k, "tree": tree, "cwd_rel": cwd_rel, "git": git, "gitignore": gen_gitignore(rnd, tree) if git == "repo" else None,
            "tracked": [], "fmt": rnd.choice(["human", "human", "human", "json"]), "mode": "subprocess" if rnd.random() < 0.1 else "inproc"}
    if git == "repo" and rnd.random() < 0.3:
        fs = [p for p, kd in all_paths(tree) if kd == "f"]
        if fs:
            case["tracked"] = ["/".join(rnd.choice(fs))]
    case["args"] = None      # filled by finish_case (needs the root path)
    return case


def finish_case(rnd, scratch, case):
    root = os.path.join(scratch, "t%d" % case["k"])
    case["root"] = root
    case["root_comps"] = norm_comps(root)
    write_tree(root, case["tree"])
    if case["git"] == "repo":
        git_setup(root, case["gitignore"], case["tracked"])
        case["ignored"] = git_ignored(root)
    if case["args"] is None:
        case["args"] = gen_args(rnd, root, case["tree"], case["cwd_rel"])
    else:   # replay: absolute spellings were recorded relative to the old scratch root
        case["args"] = [a.replace("@ROOT@", root) for a in case["args"]]
    case["items"] = [arg_item(a, case["root_comps"], case["cwd_rel"]) for a in case["args"]]


def execute(case):
    argv = (["--use-gitignore"] if case["git"] else []) + (["-f", "json"] if case["fmt"] == "json" else ["--no-colors"]) + case["args"]
    cwd = os.path.join(case["root"], *case["cwd_rel"])
    if case["mode"] == "subprocess":
        return impl.run_main_subprocess(argv, cwd=cwd)
    return impl.run_main(argv, cwd=cwd)


def portable(case):
    """what a replay file needs: tree, contents, arguments (scratch root abstracted), options"""
    return {"tree": case["tree"], "cwd_rel": case["cwd_rel"], "git": case["git"], "gitignore": case["gitignore"],
            "tracked": case["tracked"], "fmt": case["fmt"], "mode": case["mode"],
            "args": [a.replace(case["root"], "@ROOT@") for a in case["args"]]}


def relname(case, rel):
    return "/".join(rel)


def evaluate(run, case, res):
    """the property on the implementation's own output.  -> found (bool)"""
    code, out, err, exc = res
    data = dict(portable(case), exit=code, stdout=out[-2500:], stderr=err[-800:])
    if exc is not None:
        return run.violation("internal-error", dict(data, exc=exc))
    try:
        msgs, verdicts = parse_output(out, case["fmt"])
    except ValueError as e:
        return run.violation("unparsable-output", dict(data, why=str(e)))
    case["observed"] = (msgs, verdicts)
    w = wanted(case["tree"], case["cwd_rel"], case["items"])
    found = False
    if w["abort"]:
        if code in (0, None):
            found |= run.violation("missing-path-exit-zero", dict(data, expected="non-zero exit status"))
        if verdicts:
            found |= run.violation("missing-path-files-checked", dict(data, checked=[v[0] for v in verdicts]))
        return found
    if case["git"] == "norepo":
        return found           # git cannot answer: outside the property (the correspondence still compares)
    ignored = case.get("ignored") or set()
    wfiles = [(p, i) for p, i in w["files"] if not (case["git"] and p in ignored)]
    key = (lambda p: os.path.join(case["root"], *p)) if case["fmt"] == "json" else (lambda p: p[-1])
    want = Counter(key(p) for p, _ in wfiles)
    got = Counter(v[0] for v in verdicts)
    if got != want:
        exp, used = explained_by_findings(case["tree"], case["cwd_rel"], case["items"], dict(w, files=wfiles))
        expk = Counter()
        for p, n in exp.items():
            expk[key(p)] += n
        if used and got == expk:
            for fid in sorted(used):
                found |= run.violation("selection-" + fid, dict(data, wanted=sorted(want.elements()), checked=sorted(got.elements())),
                                       finding_id=fid)
        else:
            found |= run.violation("selection-mismatch", dict(data, wanted=sorted(want.elements()), checked=sorted(got.elements()),
                                                              missing=sorted((want - got).elements()),
                                                              unwanted=sorted((got - want).elements())))
    # rejected arguments: message, and (through the multiset above) not checked
    for name in w["rejects"]:
        m = "Error: %r is not valid C or C header file" % name
        if m not in msgs:
            found |= run.violation("rejected-without-message", dict(data, expected_message=m, messages=msgs))
    if case["git"] and case["fmt"] != "json":
        pass
    return found


def correspond(run, case, model, res):
    code, out, err, exc = res
    if exc is not None or "observed" not in case:
        return False
    msgs, verdicts = case["observed"]
    data = dict(portable(case), exit=code, stdout=out[-2000:], model=model)
    if model is None or model["kind"] in ("fatal", "crash", "hang"):
        return run.violation("correspondence-model-no-result", data)
    if model["kind"] == "exited":
        ok = (code == model["code"]) and msgs == model["msgs"] and not verdicts
        return run.violation("correspondence-exit-path", data) if not ok else False
    if case["fmt"] == "json":
        names = ["/" + "/".join(f["comps"] if f["abs"] else case["root_comps"] + list(case["cwd_rel"]) + f["comps"]) for f in model["files"]]
    else:
        names = [f["comps"][-1] if f["comps"] else "" for f in model["files"]]
    real = [v[0] for v in verdicts]
    if msgs != model["msgs"]:
        return run.violation("correspondence-messages", data)
    if Counter(real) != Counter(names):
        return run.violation("correspondence-selection", dict(data, real=real, model_names=names))
    if real != names:
        return run.violation("correspondence-order", dict(data, real=real, model_names=names))
    want_exit = 1 if any(v[1] == "Error" for v in verdicts) else 0
    if code != want_exit:
        return run.violation("correspondence-exit-status", dict(data, expected_exit=want_exit))
    return False


def classify(case):
    w = wanted(case["tree"], case["cwd_rel"], case["items"])
    if w["abort"]:
        return "missing path"
    if case["git"]:
        return "use-gitignore (%s)" % case["git"]
    if not case["args"]:
        return "no argument"
    return "files and directories"


def run(run, tier, seed, replay=None):
    rnd = random.Random(seed)
    b = common.build(["C15"], need_driver=False)
    run.build = b
    scratch = os.path.realpath(tempfile.mkdtemp(prefix="nvc15_"))
    found = False
    cases = []
    phase = {"build (incl. waiting for the shared lock)": round(b.wall, 1), "implementation runs": 0.0, "model runs (coqc)": 0.0}
    try:
        def batch(n, start, rr):
            out = []
            for k in range(start, start + n):
                c = make_case(rr, scratch, k)
                finish_case(rr, scratch, c)
                out.append(c)
            return out

        def process(cs):
            nonlocal found
            t0 = time.time()
            sub = [c for c in cs if c["mode"] == "subprocess"]
            with ThreadPoolExecutor(8) as ex:
                subres = dict(zip([c["k"] for c in sub], ex.map(execute, sub)))
            results = []
            for c in cs:
                res = subres[c["k"]] if c["mode"] == "subprocess" else execute(c)
                results.append(res)
                found |= evaluate(run, c, res)
                w = wanted(c["tree"], c["cwd_rel"], c["items"])
                nontrivial = 1 if (w["abort"] or w["rejects"] or len(w["files"]) >= 2) else 0
                run.count(classify(c) + "/" + c["mode"], 1, nontrivial)
            t1 = time.time()
            models, errs = run_coq(cs, os.path.join(common.BUILD, "cases_C15"))
            phase["implementation runs"] += round(t1 - t0, 1)
            phase["model runs (coqc)"] += round(time.time() - t1, 1)
            for e in errs[:3]:
                found |= run.violation("correspondence-model-run-failed", {"coqc": e})
            for c, m, res in zip(cs, models, results):
                found |= correspond(run, c, m, res)

        if replay is not None:
            d = replay["data"]
            if "tree" not in d:
                print("replay file names a broken obligation, not an input: re-running the build only")
            else:
                c = {"k": 0, "tree": d["tree"], "cwd_rel": d["cwd_rel"], "git": d["git"], "gitignore": d["gitignore"],
                     "tracked": d.get("tracked", []), "fmt": d["fmt"], "mode": d["mode"], "args": list(d["args"])}
                finish_case(rnd, scratch, c)
                cases = [c]
                process(cases)
        else:
            n = 1500 if tier == "quick" else 12000
            step = 1500
            for start in range(0, n, step):
                part = batch(min(step, n - start), start, rnd)
                process(part)
                cases += part
                for c in part:
                    shutil.rmtree(c["root"], ignore_errors=True)
            fixed_cases = []
            # the witnesses of the two findings and the plain family, always present
            fixed = [
                {"tree": [["d", "d", [["d", "lib.c", [["f", "x.c", "ok"]]], ["f", "y.c", "err"]]]], "args": ["d"]},
                {"tree": [["d", "d", [["d", ".hid", [["f", "h.c", "ok"]]], ["f", ".x.c", "ok"], ["f", "v.h", "hdr"]]]], "args": ["d"]},
                {"tree": [["f", ".c", "ok"], ["f", "a.c", "ok"]], "args": [".c", "a.c"]},
                {"tree": [["f", "a.c", "ok"], ["f", "b.cc", "ok"], ["d", "e", []]], "args": ["a.c", "b.cc", "a.c", "e", "nope"]},
                {"tree": [["f", "a.c", "err"], ["d", "s", [["f", "b.h", "hdr"], ["f", "c.C", "ok"]]]], "args": []},
            ]
            for i, fx in enumerate(fixed):
                c = {"k": n + i, "tree": fx["tree"], "cwd_rel": [], "git": False, "gitignore": None, "tracked": [], "fmt": "human",
                     "mode": "inproc", "args": list(fx["args"])}
                finish_case(rnd, scratch, c)
                fixed_cases.append(c)
            process(fixed_cases)
            cases += fixed_cases
            for c in cases[:3] + cases[-2:]:
                run.sample({"args": c["args"], "cwd": "/".join(c["cwd_rel"]) or ".", "git": c["git"], "fmt": c["fmt"],
                            "tree": [list(p) for p, _ in list(all_paths(c["tree"]))[:12]]})
            # a broken proof / tie / correspondence and no failing input yet: look harder (plain trees, more argument lists)
            if not found and (not b.ok or run.deferred):
                rr = random.Random(seed * 7919 + 1)
                more = batch(min(n, 3000), len(cases), rr)
                process(more)
                cases += more
    finally:
        shutil.rmtree(scratch, ignore_errors=True)
    common.broken_obligations(run, b, found)
    disc = sum(1 for t in b.theorems if t not in b.open_assumptions) if b.make_ok else 0
    hist = Counter()
    for c in cases:
        hist["depth>=3" if any(len(p) >= 3 for p, _ in all_paths(c["tree"])) else "shallow"] += 1
        hist["dot-names" if any(x.startswith(".") for p, _ in all_paths(c["tree"]) for x in p) else "no dot-names"] += 1
        hist["dir named *.c/*.h" if any(k == "d" and ends_src(p[-1]) for p, k in all_paths(c["tree"])) else "no such dir"] += 1
        hist["cwd=subdir" if c["cwd_rel"] else "cwd=root"] += 1
        hist["format " + c["fmt"]] += 1
        if c["git"] == "repo":
            w = wanted(c["tree"], c["cwd_rel"], c["items"])
            hist["gitignore: a wanted file is ignored" if any(p in (c.get("ignored") or ()) for p, _ in w["files"])
                 else "gitignore: no wanted file ignored"] += 1
    return run.finish(max(len(b.theorems), 16), disc,
                      "random directory trees (depth 0..4; names with spaces, dots, quotes, non-ASCII letters; suffixes .c .h .cc .hh "
                      ".C .H .c.bak .h.txt ..c '.c ' none; empty directories; non-C files; dot-names and directories named *.c/*.h in a "
                      "third of the trees) x argument lists (0..4 of: file, directory, missing path, path through a file, the current "
                      "directory, a repetition; relative, ./relative, absolute, trailing slash) x cwd (root or a subdirectory) x "
                      "{no git, --use-gitignore in a repository with a random .gitignore, --use-gitignore outside a repository} x "
                      "{humanized, json}; a tenth through a subprocess; non-trivial = a missing path, a rejected argument, or at "
                      "least two wanted files",
                      extra={"input_histogram": dict(hist), "phase_seconds": phase,
                             "correspondence": "every case also through Model/Select.v (vm_compute): selected files in order, messages, "
                                               "abort behaviour, exit status"},
                      assumptions=["the tree given to the model is what os.scandir lists in the scratch directory (entries in listing order)",
                                   "names contain no glob magic (* ? [) and no '/': a directory ARGUMENT containing them is outside the model",
                                   "no symbolic links, special files or unreadable directories",
                                   "git is an oracle: the ignored set is taken from `git ls-files --others --ignored --exclude-standard`",
                                   "repr() of names: code points >= 128 are assumed printable"])
