"""C16 - options change the presentation, never the findings.

For every file of the conforming / violating families (+ files with the #define forms, files whose analysis meets
unrecognised tokens, CR / CRLF / non-ASCII contents) the real main() is run under option sets drawn from
{--no-colors, -f json|humanized, -o, -d/-dd, -R <word>} x {path, --cfile/--hfile (+ --filename)}; both report formats are
parsed back into (file, verdict, [(level, code, line, col, text)]) and compared with the baseline (no option, path).
Correspondence with Model/Options.v: the option -> context mapping (ctx_of_options, files_of_args), the -R filter
(filter_silenced) and the define check's emission structure (define_check) are evaluated by coqc on the same cases."""
import ast
import itertools
import json
import os
import random
import re
import shutil
import subprocess
import tempfile
import time
from concurrent.futures import ProcessPoolExecutor, ThreadPoolExecutor

import common
import family
import impl
import pipeline

SILENCED_VALUE = {"PREPROC_CONSTANT"}                      # what the property calls the #define-value diagnostics

DIAG_RE = re.compile(r"^(Error|Notice): (.{20,}?) \(line: *(\d+), col: *(\d+)\):\t(.*)$")
VERDICT_RE = re.compile(r"^(.*): (OK|Error)!$")

R_WORDS_QUICK = [[], ["CheckDefine"], ["Foo"], ["checkdefine"], [""], ["CheckDefineX"], ["CheckDefine", "Foo"], ["Foo", "CheckDefine"]]
R_WORDS_MORE = [["CheckDefin"], ["XCheckDefine"], ["CHECKDEFINE"], ["CheckDefine "], ["Check Define"], ["CheckDefine", "CheckDefine"]]

DEFINES_H = impl.HDR + ("\n#ifndef DEFS_H\n# define DEFS_H\n\n# define foo 1\n# define FOO(x) x\n# define BAR 1 + 2\n# define bar(x) (x + 1)\n"
                        "# define OK 3\n# define NEG -x\n# define BADNEG - +\n# define STR \"s\"\n# define mIxed 'c'\n# define EMPTY\n"
                        "# define lower\n# define TWO 1 2\n# define F2(a, b) a\n\n#endif\n")
DEFINES_C = impl.HDR + "\n#define foo 1\n#define FOO(x) x\n#define BAR 1 + 2\n#define GOOD 42\n\nint\tmain(void)\n{\n\treturn (GOOD);\n}\n"
DEFINES_INDENT = impl.HDR + "\n#ifndef DI_H\n# define DI_H\n#define low(x) x + 1\n#  define UP (1)\n# define  SPACED  2\n#endif\n"
SPECIAL = [
    ("defs.h", DEFINES_H, "defines"), ("defs.c", DEFINES_C, "defines"), ("di.h", DEFINES_INDENT, "defines"),
    # no verdict without -d (unrecognised tokens / the two rules that read the debug level): outside the property
    ("unrec1.c", impl.HDR + "\n)\n", "unrecognised"),
    ("unrec2.c", impl.HDR + "\nint\tmain(void)\n{\n\t];\n\treturn (0);\n}\n", "unrecognised"),
    ("unrec3.c", impl.HDR + "\n=;\n\nint\tmain(void)\n{\n\treturn (0);\n}\n", "unrecognised"),
    ("goto.c", impl.HDR + "\nint\tmain(void)\n{\n\tgoto 3;\n\treturn (0);\n}\n", "unrecognised"),
    ("utype.c", impl.HDR + "\ntypedef struct s_a\n{\n\tint\ta;\n};\n", "unrecognised"),
    ("fatal.c", impl.HDR + "\nint\tmain(void\n{\n\treturn (0);\n}\n", "unrecognised"),
    ("notice.c", impl.HDR + "\nint\tg_counter;\n", "violating"),
    ("lexerr.c", impl.HDR + "\nint\tmain(void)\n{\n\treturn (0x1g + '\\q');\n}\n@\n", "violating"),
]


# ---------------------------------------------------------------------------------------- option sets
def optset(colors=True, fmt=None, o=False, debug=0, R=(), mode="path", sub=False, dstyle=0):
    return {"colors": colors, "fmt": fmt, "o": o, "debug": debug, "R": list(R), "mode": mode, "sub": sub, "dstyle": dstyle}


BASE = optset()


def skip_expected(o):
    """what the code computes: args.R is the one-word list of the last -R"""
    return bool(o["R"]) and o["R"][-1] == "CheckDefine"


def argv_of(o, name, src):
    a = []
    if not o["colors"]:
        a.append("--no-colors")
    if o["fmt"]:
        a += ["-f", o["fmt"]] if o["dstyle"] % 2 == 0 else ["--format=" + o["fmt"]]
    if o["o"]:
        a.append("-o" if o["dstyle"] % 2 == 0 else "--only-filename")
    if o["debug"]:
        st = o["dstyle"] % 3
        a += ["-" + "d" * o["debug"]] if st == 0 else ["-d"] * o["debug"] if st == 1 else ["--debug"] * o["debug"]
    for w in o["R"]:
        a += ["-R", w] if (w == "" or o["dstyle"] % 2 == 0) else ["-R" + w]
    if o["mode"] == "path":
        a.append(name)
    else:
        flag = "--hfile" if name.endswith(".h") else "--cfile"
        a.append(flag + "=" + src)
        if o["mode"] == "inline":
            a.append("--filename=" + name if o["dstyle"] % 2 else "--filename")
            if not o["dstyle"] % 2:
                a.append(name)
    return a


def coq_flags(o, name, src):
    def cs(x):
        return "([" + "; ".join(str(ord(c)) for c in x) + "]%N : str)"
    fl = []
    if not o["colors"]:
        fl.append("FlNoColors")
    if o["fmt"]:
        fl.append("FlFormat " + ("FJson" if o["fmt"] == "json" else "FHuman"))
    if o["o"]:
        fl.append("FlOnlyFilename")
    if o["debug"]:
        st = o["dstyle"] % 3
        fl += ["FlDebug %d" % o["debug"]] if st == 0 else ["FlDebug 1"] * o["debug"]
    for w in o["R"]:
        fl.append("FlR " + cs(w))
    if o["mode"] == "path":
        fl.append("FlPath " + cs(name))
    else:
        fl.append(("FlHfile " if name.endswith(".h") else "FlCfile ") + ("([120]%N : str)" if src else "([] : str)"))
        if o["mode"] == "inline":
            fl.append("FlFilename " + cs(name))
    return "[" + "; ".join(fl) + "]"


def all_optsets(r_words):
    out = []
    for colors, fmt, o, debug, R, mode in itertools.product([True, False], [None, "json"], [False, True], [0, 1, 2], r_words,
                                                            ["path", "inline"]):
        out.append(optset(colors, fmt, o, debug, R, mode))
    return out


def sample_optsets(rnd, n, r_words):
    """a covering sample: every single option alone, then random combinations (each value of each option at least once)"""
    out = [optset(colors=False), optset(fmt="json"), optset(fmt="humanized"), optset(o=True), optset(debug=1), optset(debug=2),
           optset(R=["CheckDefine"]), optset(mode="inline"), optset(mode="inline", R=["CheckDefine"], fmt="json", debug=1),
           optset(colors=False, fmt="json", o=True, debug=2, R=["Foo"], mode="inline")]
    for w in r_words:
        if w and w != ["CheckDefine"]:
            out.append(optset(R=w, dstyle=rnd.randrange(6)))
    while len(out) < n:
        out.append(optset(rnd.random() < 0.5, rnd.choice([None, "json", "humanized"]), rnd.random() < 0.5,
                          rnd.choice([0, 0, 1, 2, 3]), rnd.choice(r_words), rnd.choice(["path", "inline"]),
                          dstyle=rnd.randrange(6)))
    return out


# ---------------------------------------------------------------------------------------- running and parsing
def parse_report(out, fmt_json, debug):
    """stdout of main() on ONE file -> dict(kind=verdict|fatal|malformed, base, verdict, diags, noise, suspicious)"""
    lines = out.split("\n")
    if lines and lines[-1] == "":
        lines.pop()
    if not lines:
        return {"kind": "empty"}
    if lines[-1].startswith("\t\x1b[31m") and len(lines) >= 2 and lines[-2].endswith(": Error!"):
        return {"kind": "fatal", "msg": impl.strip_colors(lines[-1]).strip(), "path": lines[-2][:-len(": Error!")],
                "noise": len(lines) - 2}
    if fmt_json:
        try:
            js = json.loads(lines[-1])
            fs = js["files"]
            if len(fs) != 1:
                return {"kind": "malformed", "why": "json lists %d files" % len(fs)}
            f = fs[0]
            diags = []
            for e in f["errors"]:
                h = e["highlights"][0]
                diags.append((e["level"], e["name"], h["lineno"], h["column"], e["text"]))
            noise = lines[:-1]
            res = {"kind": "verdict", "base": os.path.basename(f["path"]), "path": f["path"], "verdict": f["status"], "diags": diags}
        except (ValueError, KeyError, TypeError, IndexError) as e:
            return {"kind": "malformed", "why": "json: %s" % e}
    else:
        plain = [impl.strip_colors(x) for x in lines]
        idx = [i for i, x in enumerate(plain) if VERDICT_RE.match(x)]
        if not idx:
            return {"kind": "malformed", "why": "no verdict line"}
        i = idx[-1]
        try:
            fs = impl.parse_human("\n".join(plain[i:]))
        except ValueError as e:
            return {"kind": "malformed", "why": str(e)}
        if len(fs) != 1:
            return {"kind": "malformed", "why": "%d verdict lines" % len(fs)}
        noise = lines[:i]
        res = {"kind": "verdict", "base": fs[0][0], "verdict": fs[0][1], "diags": [tuple(d) for d in fs[0][2]]}
    # everything before the report is debug output: none of it may look like a report line (a diagnostic printed
    # outside the report would otherwise be filtered away unseen), and without -d there must be none at all
    sus = [x for x in noise if DIAG_RE.match(impl.strip_colors(x)) or VERDICT_RE.match(impl.strip_colors(x))
           or x.startswith('{"files"')]
    res["noise"] = len(noise)
    res["suspicious"] = sus[:3]
    return res


def run_one(d, name, src, o, retried=False):
    argv = argv_of(o, name, src)
    probe = None
    if o["sub"]:
        code, out, err, exc = impl.run_main_subprocess(argv, cwd=d, limit=120.0 if retried else 30.0)
    else:
        import norminette.__main__ as M
        orig_c, orig_f = M.Context, M.File
        probe = {"files": [], "ctx": []}

        def F(*a, **k):
            f = orig_f(*a, **k)
            probe["files"].append([f.path, f.basename, None if f._source is None else len(f._source)])
            return f

        def C(file, tokens, debug=0, added_value=[]):
            c = orig_c(file, tokens, debug, added_value)
            probe["ctx"].append([c.debug, bool(c.preproc.skip_define)])
            return c
        M.Context, M.File = C, F
        try:
            code, out, err, exc = impl.run_main(argv, cwd=d, limit=120.0 if retried else 20.0)
        finally:
            M.Context, M.File = orig_c, orig_f
    if exc is not None and exc[0] == "Timeout" and not retried:
        return run_one(d, name, src, o, retried=True)
    if exc is not None:
        return {"kind": "timeout" if exc[0] == "Timeout" else "crash", "exc": list(exc) if exc else None, "exit": code,
                "probe": probe, "stdout": out[-600:]}
    r = parse_report(out, o["fmt"] == "json", o["debug"])
    r["exit"] = code
    r["probe"] = probe
    r["stdout"] = out if len(out) < 4000 else out[:300] + "\n...\n" + out[-3000:]
    r["raw"] = out if (o["debug"] == 0 and o["fmt"] != "json") else None
    if err.strip():
        r["stderr"] = err[-400:]
    return r


def status_of(diags):
    return "OK" if all(d[0] == "Notice" for d in diags) else "Error"


def analyse_file(task):
    """worker: one file under its option sets.  -> (results, problems) where a problem = (kind, data, finding_id)"""
    idx, name, src, cls, optsets, workdir = task
    d = os.path.join(workdir, "f%d" % idx)
    os.makedirs(d, exist_ok=True)
    with open(os.path.join(d, name), "w", encoding="utf-8", newline="") as f:
        f.write(src)
    if any(o["mode"] == "inline-default" for o in optsets):
        dd = os.path.join(d, "dflt")
        os.makedirs(dd, exist_ok=True)
        dname = "file.h" if name.endswith(".h") else "file.c"
        with open(os.path.join(dd, dname), "w", encoding="utf-8", newline="") as f:
            f.write(src)
    results = []
    base = run_one(d, name, src, BASE)
    for o in optsets:
        if o["mode"] == "inline-default":
            dname = "file.h" if name.endswith(".h") else "file.c"
            ref = run_one(os.path.join(d, "dflt"), dname, src, BASE)
            r = run_one(os.path.join(d, "dflt"), dname, src, o)
            results.append((o, r, ref))
        else:
            results.append((o, run_one(d, name, src, o), None))
    shutil.rmtree(d, ignore_errors=True)
    return idx, base, results


def judge(name, src, cls, base, results):
    """evaluate the property on the parsed outputs.  -> (problems, stats)"""
    problems = []
    stats = {"compared": 0, "nontrivial": 0, "excluded_no_verdict": 0, "fatal_debug0_verdict_debug": 0, "skip_runs": 0,
             "inline_runs": 0, "timeouts": 0}
    # reference: the baseline when it reached a verdict, otherwise the first path-mode, non-skip run that did
    ref = base if base["kind"] == "verdict" else None
    ref_o = BASE
    if ref is None:
        for o, r, own in results:
            if own is None and r["kind"] == "verdict" and o["mode"] == "path" and not skip_expected(o):
                ref, ref_o = r, o
                break
    seen = set()
    for o, r, own in results:
        data = {"name": name, "src": src, "class": cls, "optset": o, "argv": [a if len(a) < 200 else a[:60] + "...<content>" for a in argv_of(o, name, src)],
                "reference_optset": ref_o if own is None else BASE}
        rf = ref if own is None else (own if own["kind"] == "verdict" else None)
        if r["kind"] == "timeout":
            stats["timeouts"] += 1          # a loaded machine, not a verdict about the code (a hang gives no verdict either way)
            continue
        if r["kind"] != "verdict" or rf is None:
            stats["excluded_no_verdict"] += 1
            # the model says: presentation options and the input mode cannot change whether the analysis ends
            if rf is not None and r["kind"] in ("crash", "malformed", "empty", "fatal") and o["debug"] == 0 \
                    and (own is not None or base["kind"] == "verdict"):
                problems.append(("correspondence-no-verdict-under-presentation-option",
                                 dict(data, got=r.get("kind"), detail=r.get("exc") or r.get("why") or r.get("msg"),
                                      stdout=r.get("stdout", "")[-1500:]), None))
            if base["kind"] == "fatal" and o["debug"] > 0 and r["kind"] == "verdict":
                stats["fatal_debug0_verdict_debug"] += 1
            continue
        if base["kind"] == "fatal" and o["debug"] > 0:
            stats["fatal_debug0_verdict_debug"] += 1
        stats["compared"] += 1
        want = sorted(rf["diags"])
        got = sorted(r["diags"])
        key = (json.dumps(o, sort_keys=True), name)
        if key not in seen and o != BASE and rf["diags"]:
            seen.add(key)
            stats["nontrivial"] += 1
        data.update(expected_verdict=rf["verdict"], expected=want, got_verdict=r["verdict"], got=got, stdout=r["stdout"][-2500:])
        if r["suspicious"]:
            problems.append(("report-line-outside-the-report", dict(data, lines=r["suspicious"]), None))
        if o["debug"] == 0 and r["noise"]:
            problems.append(("correspondence-output-before-report", dict(data, noise=r["noise"]), None))
        if r["base"] != os.path.basename(name if own is None else ("file.h" if name.endswith(".h") else "file.c")):
            problems.append(("report-names-another-file", dict(data, shown=r["base"]), None))
        if r["verdict"] != status_of(r["diags"]) or r["exit"] != (1 if r["verdict"] == "Error" else 0):
            problems.append(("correspondence-verdict-or-exit-not-from-diagnostics", dict(data, exit=r["exit"]), None))
        skip = skip_expected(o)
        if o["mode"] != "path":
            stats["inline_runs"] += 1
        if skip:
            stats["skip_runs"] += 1
            removed = [x for x in want if x not in got]
            added = [x for x in got if x not in want]
            want_prop = [x for x in want if x[1] not in SILENCED_VALUE]
            if got == want_prop and r["verdict"] == status_of(want_prop):
                continue
            more = [x for x in removed if x[1] not in SILENCED_VALUE]
            kept_value = [x for x in got if x[1] in SILENCED_VALUE]
            if not added and not kept_value and more and all(x[1] in ("MACRO_NAME_CAPITAL", "MACRO_FUNC_FORBIDDEN") for x in more) \
                    and len(got) + len(removed) == len(want) and r["verdict"] == status_of(got):
                problems.append(("R-checkdefine-silences-more", dict(data, silenced_beyond_define_value=more), None))
                continue
            problems.append(("R-checkdefine-changes-other-diagnostics" if o["mode"] == "path" else "inline-differs-from-file",
                             dict(data, removed=removed, added=added, with_R_checkdefine=True), None))
            continue
        if got == want and r["verdict"] == rf["verdict"]:
            continue
        if o["mode"] != "path":
            # is it the inline mode or one of the other options?  name the culprit in the kind
            problems.append(("inline-differs-from-file" if (cls.startswith("routes:") or "\r" in src
                                                            or (all(o[k] == BASE[k] for k in ("colors", "fmt", "o", "debug")) and not o["R"]))
                             else "diagnostics-depend-on-options", dict(data, cr_in_content="\r" in src), None))
            continue
        problems.append(("diagnostics-depend-on-options", data, None))
    # coloured text minus the colour sequences = uncoloured text (same other options, no debug, humanized)
    by = {}
    for o, r, own in results + [(BASE, base, None)]:
        if own is None and r.get("raw") is not None and r["kind"] == "verdict":
            k = json.dumps({x: o[x] for x in ("fmt", "o", "R", "mode")}, sort_keys=True)
            by.setdefault(k, {})[o["colors"]] = (o, r)
    for k, v in by.items():
        if True in v and False in v:
            if impl.strip_colors(v[True][1]["raw"]) != v[False][1]["raw"]:
                problems.append(("correspondence-colours-strip", {"name": name, "src": src, "optset": v[True][0],
                                                                 "coloured": v[True][1]["raw"][-1500:], "plain": v[False][1]["raw"][-1500:]}, None))
    return problems, stats


# ---------------------------------------------------------------------------------------- the Coq model on the same cases
def coqc_eval(tag, header, exprs):
    """write build/cases_C16/<tag>_k.v with `Eval vm_compute in (<expr>).`, run coqc, -> list of parsed values (or None)"""
    d = os.path.join(common.BUILD, "cases_C16")
    os.makedirs(d, exist_ok=True)
    paths = []
    for k, e in enumerate(exprs):
        p = os.path.join(d, "%s_%d.v" % (tag, k))
        with open(p, "w") as f:
            f.write(header + "\nEval vm_compute in (" + e + ").\n")
        paths.append(p)

    def one(p):
        for attempt in (0, 1):
            q = subprocess.run(["timeout", "600", "coqc", "-R", os.path.join(common.COQ, "theories"), "NV", p],
                               capture_output=True, text=True, cwd=d)
            if q.returncode == 0:
                break
        return q.returncode, q.stdout, q.stderr
    ex = ThreadPoolExecutor(3)
    futs = [ex.submit(one, p) for p in paths]
    ex.shutdown(wait=False)
    return futs


def coqc_collect(futs):
    vals = []
    for fu in futs:
        rc, out, err = fu.result()
        if rc != 0:
            return None, "coqc exit %s: %s" % (rc, err[-800:])
        m = re.search(r"=\s*(.*?)\n\s*:\s*list", out, flags=re.S)
        if not m:
            return None, "unparsable coqc output: " + out[-300:]
        txt = m.group(1).replace(";", ",").replace("%Z", "")
        try:
            vals.append(ast.literal_eval(" ".join(txt.split())))
        except (ValueError, SyntaxError) as e:
            return None, "unparsable coqc value: %s" % e
    return vals, None


OPT_HEADER = """From NV Require Import Model.Options.
Definition encs (x : str) : list Z := Z.of_nat (List.length x) :: map Z.of_N x.
Definition enc_file (f : mfile) : list Z :=
  encs (mf_path f) ++ encs (basename (mf_path f)) ++ match mf_source f with None => [-1] | Some x => [Z.of_nat (List.length x)] end.
Definition enc_case (fl : list flag) : list Z :=
  let a := args_of fl in
  [c_debug (ctx_of_args a); if c_skip_define (ctx_of_args a) then 1 else 0; if use_colors_of a then 1 else 0;
   if is_json a then 1 else 0; Z.of_nat (List.length (files_of_args a))] ++ flat_map enc_file (files_of_args a).
"""
FILTER_HEADER = """From NV Require Import Model.Options.
Definition kept (codes : list str) : list Z :=
  map (fun d => h_line (hd hl0 (d_hls d)))
      (filter_silenced (map (fun ic => mkdiag (snd ic) [] [] [mkhl (fst ic) 0 None None]) (combine (map Z.of_nat (seq 0 (List.length codes))) codes))).
Definition dchk (skip up lp bad : bool) : list Z :=
  map (fun c => if str_eqb c (s "MACRO_NAME_CAPITAL") then 1 else if str_eqb c (s "MACRO_FUNC_FORBIDDEN") then 2
                else if str_eqb c (s "PREPROC_CONSTANT") then 3 else 0) (define_check skip (mkdobs true up lp bad)).
"""


NL_HEADER = """From NV Require Import Model.Options.
Definition nl (x : str) : list Z := map Z.of_N (universal_newlines x) ++ [-1] ++ map Z.of_N (translate_inline x).
"""


def newline_cases(workdir):
    """all strings of length <= 6 over {a, CR, LF}: written as bytes and read back through norminette.file.File.source;
    given to main() as --cfile=<string> and observed as the source main() hands to File (None for the empty string,
    which main() ignores)"""
    from norminette.file import File
    import norminette.__main__ as M

    class Stop(Exception):
        pass

    def inline_source(x):
        got = []

        def F(path, source=None):
            got.append(source)
            raise Stop()
        orig = M.File
        M.File = F
        try:
            impl.run_main(["--cfile=" + x, "--filename=nl.c"], cwd=d)
        finally:
            M.File = orig
        return got[0] if got else None
    d = os.path.join(workdir, "nl")
    os.makedirs(d, exist_ok=True)
    out = []
    for n in range(0, 7):
        for tup in itertools.product("a\r\n", repeat=n):
            x = "".join(tup)
            p = os.path.join(d, "n%d.c" % len(out))
            with open(p, "wb") as f:
                f.write(x.encode())
            out.append((x, File(p).source, inline_source(x) if x else None))
            os.remove(p)
    return out


def decode_case(v):
    debug, skip, colors, js, n = v[:5]
    i, files = 5, []
    for _ in range(n):
        ln = v[i]; path = "".join(chr(c) for c in v[i + 1:i + 1 + ln]); i += 1 + ln
        ln = v[i]; base = "".join(chr(c) for c in v[i + 1:i + 1 + ln]); i += 1 + ln
        files.append((path, base, v[i])); i += 1
    return {"debug": debug, "skip": bool(skip), "colors": bool(colors), "json": bool(js), "files": files}


def define_lines(src):
    """[(line number, name is upper, '(' follows the name)] of the #define lines, read off the text independently"""
    out = []
    for i, line in enumerate(src.split("\n"), 1):
        m = re.match(r"^#[ \t]*define[ \t]+([A-Za-z_][A-Za-z_0-9]*)(\(?)", line)
        if m:
            out.append((i, m.group(1).isupper(), m.group(2) == "("))
    return out


# ---------------------------------------------------------------------------------------- the check
def make_files(rnd, tier, deep=False):
    files = [(n, s, c) for n, s, c in SPECIAL]
    nfam = (40 if tier == "quick" else 80) + (20 if deep else 0)
    for i in range(nfam):
        name, src = family.program(rnd)
        cls = "conforming"
        if i % 2 == 1:
            sp = pipeline.token_spans(src, name)
            if sp:
                for e in pipeline.edits(src, sp, rnd, 6):
                    if impl.analyse(e, name)["kind"] == "ok" and e.strip():
                        src, cls = e, "violating"
                        break
        files.append((name, src, cls))
    # contents that the two input paths may decode differently
    nl = 4 if tier == "quick" else 6
    for i in range(nl):
        name, src = family.program(rnd)
        lines = src.split("\n")
        k = 12 + rnd.randrange(max(1, len(lines) - 13))
        files.append(("crlf_" + name, src.replace("\n", "\r\n"), "crlf"))
        files.append(("cr1_" + name, "\n".join(lines[:k]) + "\r\n" + "\n".join(lines[k:]), "one-crlf"))
        files.append(("cr_" + name, "\n".join(lines[:k]) + "\r" + "\n".join(lines[k:]), "one-cr"))
        files.append(("uni_" + name, "\n".join(lines[:11]) + "\n/* caf\u00e9 \u4e2d\u6587 \u00df */\n" + "\n".join(lines[11:]), "non-ascii"))
        files.append(("unis_" + name, src.replace("return (0);", "return (\"\u00e9\"[0]);", 1), "non-ascii"))
    files += route_files()
    return files


BODY_C = "\nint\tmain(void)\n{\n\treturn (0);\n}\n"
BODY_BAD_C = "\nint\tmain()\n{\n\treturn 0;\n}\n"
BODY_H = "\n#ifndef RT_H\n# define RT_H\n\nint\tft_x(void);\n\n#endif\n"
BOM = "\ufeff"


def route_files():
    """Contents on which the two input routes (a file read by File.source / a string taken from argv) could treat the text
    differently: byte order mark, leading / trailing blank material, missing final newline, whitespace only, line-end
    conventions, form feed and other control characters, non-ASCII.  Each as a .c and as a .h content."""
    H = impl.HDR
    out = []

    def both(label, mk):
        out.append(("rt.c", mk(H, BODY_C), "routes:" + label))
        out.append(("rt.h", mk(H, BODY_H), "routes:" + label))
    both("bom-then-header", lambda h, b: BOM + h + b)
    both("bom-then-header-violating", lambda h, b: BOM + h + b.replace("(void)", "()"))
    both("bom-no-header", lambda h, b: BOM + b.lstrip("\n"))
    both("bom-only", lambda h, b: BOM)
    both("bom-newline", lambda h, b: BOM + "\n")
    both("bom-twice", lambda h, b: BOM + BOM + h + b)
    both("bom-in-comment", lambda h, b: h + "\n// a " + BOM + " inside\n" + b.lstrip("\n"))
    both("bom-in-code", lambda h, b: h + b.replace("\tmain", "\t" + BOM + "main").replace("\tft_x", "\t" + BOM + "ft_x"))
    both("bom-at-end", lambda h, b: h + b + BOM)
    both("bom-after-crlf", lambda h, b: "\r\n" + BOM + h + b)
    both("leading-empty-line", lambda h, b: "\n" + h + b)
    both("leading-empty-lines", lambda h, b: "\n\n\n" + h + b)
    both("leading-space", lambda h, b: " " + h + b)
    both("leading-tab", lambda h, b: "\t" + h + b)
    both("leading-blank-line-with-spaces", lambda h, b: "  \t\n" + h + b)
    both("trailing-empty-lines", lambda h, b: h + b + "\n\n\n")
    both("trailing-spaces", lambda h, b: h + b + "   ")
    both("trailing-tab-line", lambda h, b: h + b + "\t\n")
    both("no-final-newline", lambda h, b: (h + b)[:-1])
    both("no-final-newline-violating", lambda h, b: (h + b.replace("(void)", "()"))[:-1])
    both("header-only-no-newline", lambda h, b: h[:-1])
    both("only-space", lambda h, b: " ")
    both("only-newline", lambda h, b: "\n")
    both("only-newlines", lambda h, b: "\n\n\n")
    both("only-blanks", lambda h, b: " \t \n\t\n  ")
    both("only-tab", lambda h, b: "\t")
    both("crlf", lambda h, b: (h + b).replace("\n", "\r\n"))
    both("cr", lambda h, b: (h + b).replace("\n", "\r"))
    both("mixed-line-ends", lambda h, b: h + b.replace("\n", "\r\n", 2).replace("{\n", "{\r", 1))
    both("crlf-leading", lambda h, b: "\r\n" + h + b)
    both("cr-trailing", lambda h, b: h + b + "\r")
    both("crlf-trailing-twice", lambda h, b: h + b + "\r\n\r\n")
    both("lf-cr", lambda h, b: h + b.replace("\n", "\n\r", 1))
    both("cr-only", lambda h, b: "\r")
    both("form-feed-line", lambda h, b: h + "\f\n" + b.lstrip("\n"))
    both("form-feed-leading", lambda h, b: "\f" + h + b)
    both("form-feed-in-comment", lambda h, b: h + "\n/* a\fb */\n" + b.lstrip("\n"))
    both("form-feed-trailing", lambda h, b: h + b + "\f")
    both("vertical-tab", lambda h, b: h + "\n\v\n" + b.lstrip("\n"))
    both("separators-1c-1e", lambda h, b: h + "\n/* a\x1cb\x1dc\x1ed */\n" + b.lstrip("\n"))
    both("nel-ls-ps-in-comment", lambda h, b: h + "\n/* a\x85b\u2028c\u2029d */\n" + b.lstrip("\n"))
    both("ls-in-code", lambda h, b: h + b + "\u2028")
    both("controls-in-comment", lambda h, b: h + "\n/* \x01\x02\x07\x08\x1b\x7f */\n" + b.lstrip("\n"))
    both("control-in-code", lambda h, b: h + b + "\x01\n")
    both("escape-sequence-text", lambda h, b: h + "\n/* \x1b[31mred\x1b[0m */\n" + b.lstrip("\n"))
    both("non-ascii-comment", lambda h, b: h + "\n/* caf\u00e9 \u4e2d\u6587 \u00df \u2603 */\n" + b.lstrip("\n"))
    both("non-bmp-comment", lambda h, b: h + "\n// \U0001f600 e\u0301\n" + b.lstrip("\n"))
    both("non-ascii-first-char", lambda h, b: "\u00e9" + h + b)
    both("nbsp-leading", lambda h, b: "\u00a0" + h + b)
    both("zero-width-space-leading", lambda h, b: "\u200b" + h + b)
    both("non-ascii-code", lambda h, b: h + b + "\u00e9\n")
    out.append(("rt.c", impl.HDR + BODY_BAD_C, "routes:plain-violating"))
    return out


ROUTE_SETS = [optset(mode="inline"), optset(mode="inline", fmt="json"), optset(mode="inline", colors=False, dstyle=1),
              optset(mode="inline", fmt="json", o=True, colors=False, dstyle=1), optset(mode="inline", debug=1),
              optset(mode="inline", fmt="humanized", R=["Foo"]), optset(fmt="json"), optset(colors=False),
              optset(mode="inline-default"), optset(mode="inline-default", fmt="json")]


def empty_content_probe(workdir):
    """`--cfile ""` / `--hfile ""`: the content is falsy, main() ignores it and falls back to the path selection (model:
    files_of_args = []).  In an empty directory: no File is built, nothing is printed, exit 0; an empty FILE gets `OK!`."""
    import norminette.__main__ as M
    d = os.path.join(workdir, "emptydir")
    os.makedirs(d, exist_ok=True)
    res = []
    for flag, nm in (("--cfile=", "e.c"), ("--hfile=", "e.h")):
        built = []
        orig = M.File

        def F(*a, **k):
            built.append(a)
            return orig(*a, **k)
        M.File = F
        try:
            code, out, err, exc = impl.run_main([flag, "--filename=" + nm], cwd=d)
        finally:
            M.File = orig
        res.append({"argv": [flag, "--filename=" + nm], "exit": code, "stdout": out, "exc": exc, "files_built": len(built)})
    return res


def run(run, tier, seed, replay=None):
    b = common.build(["C16"], need_driver=False)
    run.build = b
    found = False
    rnd = random.Random(seed)
    workdir = tempfile.mkdtemp(prefix="nvc16_")
    budget = 70 if tier == "quick" else 600
    try:
        deep = not b.ok
        if replay is not None:
            dd = replay["data"]
            files = [(dd["name"], dd["src"], dd.get("class", "replay"))]
            per_file = [[dd["optset"]]]
        else:
            files = make_files(rnd, tier, deep)
            per_file = []
            full = all_optsets(R_WORDS_QUICK)
            for k, (name, src, cls) in enumerate(files):
                if cls.startswith("routes:"):
                    sets = [dict(o) for o in ROUTE_SETS]
                    if tier == "thorough":
                        sets += sample_optsets(rnd, 30, R_WORDS_QUICK)
                    for j, o in enumerate(sets):
                        o["sub"] = (j in (1, 2)) and (k % (3 if tier == "quick" else 1) == 0)
                    per_file.append(sets)
                    continue
                if tier == "thorough" or (deep and (cls == "defines" or (cls == "violating" and k % 8 == 0))):
                    sets = [dict(o) for o in full] + sample_optsets(rnd, 24, R_WORDS_QUICK + R_WORDS_MORE)
                elif cls == "defines":
                    sets = sample_optsets(rnd, 60, R_WORDS_QUICK + R_WORDS_MORE)
                else:
                    sets = sample_optsets(rnd, 36, R_WORDS_QUICK)
                if k % 5 == 0:
                    sets.append(optset(mode="inline-default"))
                    sets.append(optset(mode="inline-default", colors=False, R=["CheckDefine"]))
                for j, o in enumerate(sets):        # a tenth of the runs through a real subprocess
                    o["sub"] = ((j * 7 + k) % (10 if tier == "quick" else 40) == 3)
                per_file.append(sets)
        # ---- model on the option sets (coqc runs while the implementation is exercised)
        flat = [(k, j) for k in range(len(files)) for j in range(len(per_file[k]))]
        uniq = {}
        for k, j in flat:
            name, src, _ = files[k]
            o = per_file[k][j]
            ext = ".h" if name.endswith(".h") else ".c"
            real_name = (k * 31 + j) % 97 == 0 and len(uniq) < 1500       # a sample with the real file name, the rest
            nm = (name if real_name else "dir/PLACEHOLDER" + ext)           # with a placeholder (the mapping is uniform in it)
            if o["mode"] == "inline-default":
                nm = "file" + ext
            cf = coq_flags(o if o["mode"] != "inline-default" else dict(o, mode="inline-nofilename"), nm, src)
            uniq.setdefault(cf, []).append((k, j, nm))
        ucases = list(uniq)
        chunks = [ucases[i:i + 400] for i in range(0, len(ucases), 400)]
        opt_procs = coqc_eval("opts", OPT_HEADER, ["map enc_case [" + ";\n ".join(c) + "]" for c in chunks]) if b.make_ok else None
        nlc = newline_cases(workdir) if replay is None else []
        nl_chunks = [nlc[i:i + 400] for i in range(0, len(nlc), 400)]
        nl_procs = coqc_eval("nl", NL_HEADER, ["map nl [" + ";\n ".join("([" + "; ".join(str(ord(c)) for c in x) + "]%N : str)" for x, _, _ in c) + "]"
                                               for c in nl_chunks]) if (b.make_ok and nlc) else None
        # ---- the implementation
        tasks = [(k, files[k][0], files[k][1], files[k][2], per_file[k], workdir) for k in range(len(files))]
        outs = {}
        deadline = time.time() + budget
        with ProcessPoolExecutor(common.NPROC) as ex:
            futs = [ex.submit(analyse_file, t_) for t_ in tasks]
            for fu in futs:
                if time.time() > deadline and fu.cancel():
                    continue                    # time budget of the tier used up: the remaining files are not run
                idx, base, results = fu.result()
                outs[idx] = (base, results)
        skipped = [k for k in range(len(files)) if k not in outs]
        if skipped:
            run.notes.append("time budget (%d s) reached: %d of %d files were not run" % (budget, len(skipped), len(files)))
        totals = {}
        per_kind = {}
        hist = {}
        filter_cases, define_cases = [], []
        for k, (name, src, cls) in enumerate(files):
            if k not in outs:
                continue
            base, results = outs[k]
            problems, stats = judge(name, src, cls, base, results)
            for kind, data, fid in problems:
                per_kind[kind] = per_kind.get(kind, 0) + 1
                if per_kind[kind] > 6 and not (fid and run.known(fid)):
                    continue            # the first six failing inputs of a kind are written out, the rest only counted
                found |= bool(run.violation(kind, data, finding_id=fid)) and not kind.startswith("correspondence-")
            for a, v in stats.items():
                totals[a] = totals.get(a, 0) + v
            run.count("%s files x option sets" % ("inline-vs-file route contents (BOM, blanks, line ends, controls, non-ASCII)"
                                                  if cls.startswith("routes:") else cls), len(results), stats["nontrivial"])
            hist[cls] = hist.get(cls, 0) + 1
            if k % 9 == 0 and results:
                o, r, _ = results[min(len(results) - 1, 10)]
                run.sample({"file": name, "class": cls, "argv": [a[:50] for a in argv_of(o, name, src)], "outcome": r["kind"],
                            "verdict": r.get("verdict"), "ndiags": len(r.get("diags", []))})
            # cases for the -R filter and the define check
            if base["kind"] == "verdict":
                sk = [r for o, r, own in results if own is None and r["kind"] == "verdict" and skip_expected(o)]
                if sk:
                    filter_cases.append((k, [d[1] for d in sorted(base["diags"])], sorted(base["diags"]), sorted(sk[0]["diags"])))
                if cls == "defines":
                    for ln, up, lp in define_lines(src):
                        codes = [d[1] for d in sorted(base["diags"], key=lambda d: (d[2], d[3])) if d[2] == ln]
                        three = [c for c in codes if c in ("MACRO_NAME_CAPITAL", "MACRO_FUNC_FORBIDDEN", "PREPROC_CONSTANT")]
                        sk_three = [d[1] for d in (sk[0]["diags"] if sk else []) if d[2] == ln and d[1] in
                                    ("MACRO_NAME_CAPITAL", "MACRO_FUNC_FORBIDDEN", "PREPROC_CONSTANT")]
                        define_cases.append((k, ln, up, lp, "PREPROC_CONSTANT" in three, three, sk_three, bool(sk)))
        # ---- correspondence 1: option -> context / files
        n_corr, n_corr_distinct = 0, set()
        if opt_procs is not None:
            vals, errtxt = coqc_collect(opt_procs)
            if vals is None:
                run.violation("correspondence-model-evaluation-failed", {"stage": "options", "error": errtxt})
            else:
                model = {}
                for c, v in zip(chunks, vals):
                    for cf, enc in zip(c, v):
                        model[cf] = decode_case(enc)
                for cf, where in uniq.items():
                    m = model[cf]
                    for k, j, nm in where:
                        if k not in outs:
                            continue
                        name, src, cls = files[k]
                        o, r, own = outs[k][1][j]
                        pr = r.get("probe")
                        if not pr or not pr["ctx"] or r["kind"] == "crash":
                            continue
                        n_corr += 1
                        n_corr_distinct.add(cf)
                        real = {"debug": pr["ctx"][0][0], "skip": pr["ctx"][0][1], "colors": o["colors"], "json": o["fmt"] == "json",
                                "files": [(nm if p_ == name else p_, os.path.basename(nm) if b_ == name else b_,
                                           -1 if n_ is None else (1 if n_ else 0)) for p_, b_, n_ in pr["files"]]}
                        if real != m or m["skip"] != skip_expected(o):
                            run.violation("correspondence-option-mapping", {"name": name, "src": src, "class": cls, "optset": o,
                                                                          "flags": cf[:300], "model": m, "real": real})
                run.count("correspondence: option set -> (debug, skip_define, File) model vs real Context/File", n_corr, len(n_corr_distinct))
        # ---- correspondence 1b: universal_newlines (model of open()'s newline translation) vs File.source
        if nl_procs is not None:
            vals, errtxt = coqc_collect(nl_procs)
            if vals is None:
                run.violation("correspondence-model-evaluation-failed", {"stage": "newlines", "error": errtxt})
            else:
                for c, v in zip(nl_chunks, vals):
                    for (x, real, inl), m in zip(c, v):
                        k_ = m.index(-1)
                        if "".join(chr(z) for z in m[:k_]) != real:
                            run.violation("correspondence-universal_newlines", {"bytes": repr(x), "model": m[:k_], "real": repr(real)})
                        if x and "".join(chr(z) for z in m[k_ + 1:]) != inl:
                            run.violation("correspondence-translate_inline", {"content": repr(x), "model": m[k_ + 1:],
                                                                             "real_source_given_to_File": repr(inl),
                                                                             "source_of_a_file_with_these_bytes": repr(real)})
                run.count("correspondence: universal_newlines(model) vs File.source, translate_inline(model) vs the source main() hands "
                          "to File for --cfile=<string>, on all strings of length <= 6 over {a,CR,LF}",
                          2 * len(nlc) - 1, sum(1 for x, _, _ in nlc if "\r" in x))
        # ---- correspondence 2: filter_silenced on the real diagnostic lists, define_check on the #define lines
        if b.make_ok and (filter_cases or define_cases):
            def cs(x):
                return '(s "%s")' % x if re.match(r"^[A-Za-z_0-9]+$", x) else "([" + "; ".join(str(ord(c)) for c in x) + "]%N : str)"
            e1 = "map kept [" + ";\n ".join("[" + "; ".join(cs(c) for c in codes) + "]" for _, codes, _, _ in filter_cases) + "]"
            e2 = "map (fun q => match q with (a, b, c, d) => dchk a b c d end) [" + ";\n ".join(
                "(%s, %s, %s, %s)" % (sk, str(up).lower(), str(lp).lower(), str(bad).lower())
                for _, _, up, lp, bad, _, _, _ in define_cases for sk in ("false", "true")) + "]"
            exprs = ([e1] if filter_cases else []) + ([e2] if define_cases else [])
            vals, errtxt = coqc_collect(coqc_eval("filter", FILTER_HEADER, exprs))
            if vals is None:
                run.violation("correspondence-model-evaluation-failed", {"stage": "filter", "error": errtxt})
            else:
                if filter_cases:
                    for (k, codes, bd, sd), keep in zip(filter_cases, vals[0]):
                        want = [bd[i] for i in keep]
                        if want != sd:
                            run.violation("correspondence-filter_silenced", {"name": files[k][0], "src": files[k][1], "class": files[k][2],
                                                                            "optset": optset(R=["CheckDefine"]),
                                                                            "model_keeps": want, "real": sd})
                    run.count("correspondence: filter_silenced(model) on real diagnostic lists vs real -R CheckDefine run",
                              len(filter_cases), sum(1 for c in filter_cases if c[2] != c[3]))
                if define_cases:
                    dv = vals[-1]
                    names = {1: "MACRO_NAME_CAPITAL", 2: "MACRO_FUNC_FORBIDDEN", 3: "PREPROC_CONSTANT"}
                    for i, (k, ln, up, lp, bad, three, sk_three, has_sk) in enumerate(define_cases):
                        m_no, m_sk = [names.get(x, "?") for x in dv[2 * i]], [names.get(x, "?") for x in dv[2 * i + 1]]
                        if sorted(m_no) != sorted(three) or (has_sk and sorted(m_sk) != sorted(sk_three)):
                            run.violation("correspondence-define_check", {"name": files[k][0], "src": files[k][1], "class": "defines",
                                                                         "optset": optset(R=["CheckDefine"]), "line": ln,
                                                                         "obs": [up, lp, bad], "model": [m_no, m_sk], "real": [three, sk_three]})
                    run.count("correspondence: define_check(model) per #define line vs real codes on that line",
                              len(define_cases), sum(1 for c in define_cases if c[5]))
        elif replay is None and b.make_ok:
            run.violation("correspondence-no-filter-cases", {"why": "no file reached a verdict with and without -R CheckDefine"})
        run.notes.append("runs compared with their reference: %(compared)d; excluded because some option set gives no verdict "
                         "(fatal without -d, crash): %(excluded_no_verdict)d; runs of files that are fatal without -d but reach a "
                         "verdict with -d/-dd (outside the property, compared among themselves): %(fatal_debug0_verdict_debug)d; "
                         "-R CheckDefine runs: %(skip_runs)d; inline runs (CR / CRLF contents included, no exception for them): %(inline_runs)d; runs that timed out twice (inconclusive): %(timeouts)d" % totals)
        if replay is None:
            for pr in empty_content_probe(workdir):
                run.count("correspondence: empty inline content is ignored (model: files_of_args = [])", 1, 1)
                if pr["files_built"] or pr["stdout"] or pr["exit"] != 0 or pr["exc"]:
                    run.violation("correspondence-empty-inline-content", pr)
        run.notes.append("observed, outside the quantifier: `--cfile \"\"` (empty content) is falsy and main() falls back to the "
                         "directory scan (Props/C16.v C16_example_inline); an empty FILE gets `OK!`")
        extra = {"problems_by_kind": per_kind, "input_distribution": hist, "option_sets_per_file": {"min": min(map(len, per_file)), "max": max(map(len, per_file))},
                 "totals": totals, "deeper_search": deep, "exhaustive": False}
    finally:
        shutil.rmtree(workdir, ignore_errors=True)
    common.broken_obligations(run, b, found)
    disc = sum(1 for t in b.theorems if t not in b.open_assumptions) if b.make_ok else 0
    return run.finish(max(len(b.theorems), 23), disc,
                      "files: conforming programs of family G, violating-but-analysable token edits of them, 103 inline-vs-file route contents "
                      "(.c and .h: U+FEFF first / twice / alone / inside / at the end, leading and trailing blank material, no final newline, "
                      "whitespace only, CRLF / CR / mixed line ends, form feed, VT, 1C-1E, NEL/LS/PS, other control characters, ESC "
                      "sequences, non-ASCII and non-BMP text; each inline in humanized and JSON, with and without --filename, two of "
                      "them in a subprocess), three files with the "
                      "#define forms, files whose analysis meets unrecognised tokens / the two debug-guarded raises, CRLF / CR / non-ASCII "
                      "contents; option sets: quick = every option alone + random combinations (36 per file, 60 for the #define files), "
                      "thorough = the full product {colours} x {humanized,json} x {-o} x {none,-d,-dd} x 8 -R word lists x {path, inline} "
                      "(384) + 24 random spellings per file; one real main() per (file, option set), a tenth (thorough: 1/40) in a "
                      "subprocess; each report parsed back and compared with the no-option path-based run of the same file; "
                      "non-trivial = distinct (file, option set) with an option set different from the baseline on a file with at "
                      "least one diagnostic, whose run reached a verdict",
                      extra=extra,
                      assumptions=["argparse and the decoding of files (open(): universal newlines, UTF-8) are modelled, not verified; "
                                   "the harness exercises them (spellings of the flags, CR/CRLF/non-ASCII contents)",
                                   "the hypotheses of the generic theorems (debug_insensitive, skip_filters) are justified by the reader "
                                   "tables of Gen/Options.v (syntactic, fail closed on reflective access), not proved of the rule bodies",
                                   "that the uncoloured humanized text determines the diagnostics (the parser) is tested, not proved"])
