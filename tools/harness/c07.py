"""C07 - every statement is examined exactly once; nothing is skipped silently."""
import os
import random

import common
import family
import pipeline

FRAGMENTS = [")", "]", ":", ") x", "] = 3;", ": ;", ")\n", "]\n", "?", "...", ",", "->a", ". b", "%", "}}", "else )", "@@)"]


DIRECTIVES = ["# define A_%d 1", "# include <a%d.h>", "# ifdef B_%d", "#  error \"no b%d\"", "#  warning w%d", "# endif", "# undef U_%d",
              "# pragma once", "# if defined(C_%d)", "# elif D_%d", "# else", "# warning be careful %d", "# error stop %d",
              "# ifndef E_%d", "#  define F_%d (1 + 2)", "# import \"i%d.h\""]
DECLS = ["int\tf_%d(void);", "typedef int\tt_i%d;", "extern int\tg_a%d;", "char\t*ft_s%d(char *s, int n);", "// c %d", "/* c %d */"]


def flat_header(rnd):
    """A .h file in which EVERY line is one statement by construction (a header comment line, an empty line, one
    preprocessor directive or one declaration): the number of statements is the number of lines.  Not necessarily
    conforming (directive nesting and empty lines are drawn freely): the partition must hold all the same."""
    import impl
    lines = ["", "#ifndef FLAT_H", "# define FLAT_H", ""]
    for k in range(rnd.randint(3, 14)):
        r = rnd.random()
        if r < 0.55:
            d = rnd.choice(DIRECTIVES)
        elif r < 0.85:
            d = rnd.choice(DECLS)
        else:
            d = ""
        lines.append(d % k if "%d" in d else d)
        if rnd.random() < 0.45:
            lines.append(rnd.choice(["", "", "\t", " "]))
    lines += ["", "#endif"]
    return "flat.h", impl.HDR + "\n".join(lines) + "\n"


def statement_boundaries(src):
    """offsets of line starts (candidate statement boundaries) after the header"""
    out, off = [], 0
    for i, line in enumerate(src.split("\n")):
        if i >= 11:
            out.append(off)
        off += len(line) + 1
    return [o for o in out if o <= len(src)]


def run(run, tier, seed, replay=None):
    b = common.build(["C07"])
    run.build = b
    found = False
    rnd = random.Random(seed)
    have_drv = b.driver_ok and os.path.exists(os.path.join(common.BUILD, "nvdriver"))
    drv = common.Driver() if have_drv else None
    nprog = 60 if tier == "quick" else 1500
    nins = 12 if tier == "quick" else 40
    progs = []
    if replay is not None:
        progs = [(replay["data"]["name"], replay["data"]["src"])]
    else:
        for _ in range(nprog):
            progs.append(family.program(rnd))
    # ---- (1) partition / alignment / depth on conforming programs
    cases = [(src, name, 0) for name, src in progs]
    # violating variants that keep the block structure: an empty line or a comment line put in front of a line that
    # holds an opening brace (struct/union/enum/function/control block).  Tiling and depth must still hold.
    variants = set()
    if replay is None:
        for name, src in progs:
            lines = src.split("\n")
            idx = [i for i, l in enumerate(lines) if l.strip() == "{" and i > 11]
            for i in rnd.sample(idx, min(len(idx), 3)):
                ins = rnd.choice(["", "// c", "/* c */", "\t// c"])
                v = "\n".join(lines[:i] + [ins] + lines[i:])
                variants.add(v)
                cases.append((v, name, 0))
    nseg = 0
    for src, name, debug, r in pipeline.run_many(cases):
        data = {"name": name, "src": src}
        is_variant = src in variants
        if r["kind"] != "ok":
            if replay is None and not is_variant:
                found |= run.violation("conforming-program-not-analysed", dict(data, kind=r["kind"], msg=r.get("msg"), exc=r.get("exc")))
            continue
        pops = [e for e in r["events"] if e[0] == "pop"]
        remaining = r["ntokens"]
        for e in pops:
            _, stop, before, col, last, scope = e
            nseg += 1
            if before != remaining or not isinstance(stop, int) or stop < 1:
                found |= run.violation("segments-do-not-tile", dict(data, event=e, expected_before=remaining))
                break
            remaining = max(0, before - stop)
            if (col != 1 or last != "NEWLINE") and not is_variant:
                found |= run.violation("statement-not-line-aligned", dict(data, event=e))
                break
        else:
            if remaining != 0:
                found |= run.violation("segments-do-not-cover", dict(data, left=remaining))
        if r.get("depth") != "GlobalScope":
            found |= run.violation("depth-not-back-at-file-level", dict(data, scope=r.get("depth")))
        if drv is not None:
            e, exp = pipeline.engine_request(r, 0)
            why = pipeline.engine_compare(drv.call("engine", e), r, exp)
            if why:
                found |= run.violation("correspondence-registry-loop", dict(data, why=why))
    run.count("conforming programs + brace-line variants (%d): tiling, alignment, depth (statements checked: %d)" % (len(variants), nseg), len(cases), len(cases))
    # ---- (1b) the number of statements known by construction: files made of one-line statements
    if replay is None or replay["data"].get("name") == "flat.h":
        flats = [flat_header(rnd) for _ in range(80 if tier == "quick" else 2000)] if replay is None else [("flat.h", replay["data"]["src"])]
        nfl = 0
        for src, name, debug, r in pipeline.run_many([(s_, n_, 0) for n_, s_ in flats]):
            if r["kind"] != "ok":
                continue        # unbalanced directives may be fatal: that is a diagnostic, not a silent skip
            nfl += 1
            nlines = src.count("\n")
            npops = len([e for e in r["events"] if e[0] == "pop"])
            if npops != nlines or any(r["inner_newlines"]):
                k = next((i for i, x in enumerate(r["inner_newlines"]) if x), None)
                found |= run.violation("statement-count-differs", {"name": name, "src": src, "lines": nlines, "statements": npops,
                                                                   "first_statement_over_several_lines": k})
        run.count("one-statement-per-line headers (every directive kind): statements = lines", len(flats), nfl)
    # ---- (2) an unrecognisable fragment at a statement boundary must be fatal.  "Unrecognisable" is decided by
    # the tool itself: the same text under -d prints `uncaught ->`.
    if replay is None:
        ins = []
        for name, src in progs:
            bs = statement_boundaries(src) + [len(src)]
            for _ in range(nins):
                o = rnd.choice(bs)
                fr = rnd.choice(FRAGMENTS)
                nl = rnd.random() < 0.6
                txt = src[:o] + fr + ("\n" if nl else "") + src[o:]
                if o == len(src) and rnd.random() < 0.5:
                    txt = src + fr            # the fragment is the last thing in the file, no newline
                ins.append((txt, name, 1))
    else:
        ins = [(replay["data"]["src"], replay["data"]["name"], 1)]
    unrec = []
    seen_unrec = set()
    for src, name, debug, r in pipeline.run_many(ins):
        if r["kind"] == "ok" and r.get("uncaught"):
            unrec.append((src, name, 0))
            seen_unrec.add(src)
    # independent of what the tool prints under -d: run every insertion without -d; a run that ends normally although
    # some iteration of the main loop matched no primary (a token was set aside) has dropped text silently
    ndirect = 0
    for src, name, debug, r in pipeline.run_many([(s_, n_, 0) for s_, n_, _ in ins]):
        if r["kind"] != "ok":
            continue
        pending, aside = False, 0
        for ev in r["events"]:
            if ev[0] == "match":
                pending = True
            else:
                if not pending:
                    aside += 1
                pending = False
        if aside:
            ndirect += 1
            found |= run.violation("unrecognised-text-dropped", {"name": name, "src": src, "status": r.get("status"), "tokens_set_aside": aside})
        elif drv is not None and r["ntokens"] is not None:
            e, exp = pipeline.engine_request(r, 0)
            why = pipeline.engine_compare(drv.call("engine", e), r, exp)
            if why:
                found |= run.violation("correspondence-registry-loop", {"name": name, "src": src, "why": why})
    run.count("fragment insertions run without -d (events inspected for tokens set aside)", len(ins), len(ins))
    nfatal = 0
    for src, name, debug, r in pipeline.run_many(unrec):
        if r["kind"] == "fatal":
            nfatal += 1
            if drv is not None and r["ntokens"] is not None:
                e, exp = pipeline.engine_request(r, 0)
                why = pipeline.engine_compare(drv.call("engine", e), r, exp)
                if why:
                    found |= run.violation("correspondence-registry-loop", {"name": name, "src": src, "why": why})
        elif r["kind"] == "ok":
            found |= run.violation("unrecognised-text-dropped", {"name": name, "src": src, "status": r.get("status")})
    # the same through the command line: fatal diagnostic naming the file and non-zero status, wherever the file
    # stands among the arguments
    if replay is None and unrec:
        import impl, tempfile, shutil
        tmpd = tempfile.mkdtemp(prefix="nvc07_")
        ncli = 0
        try:
            good = progs[0][1]
            for k, (src, name, _) in enumerate(unrec[:6 if tier == "quick" else 40]):
                d = os.path.join(tmpd, "r%d" % k)
                os.makedirs(d)
                for n_, s_ in (("bad.c", src), ("good1.c", good), ("good2.c", good)):
                    with open(os.path.join(d, n_), "w") as fh:
                        fh.write(s_)
                for argv in (["bad.c"], ["good1.c", "bad.c"], ["bad.c", "good1.c"], ["good1.c", "bad.c", "good2.c"]):
                    code, out, err, exc = impl.run_main_subprocess(["--no-colors"] + argv, cwd=d)
                    ncli += 1
                    if exc is not None or code in (0, None) or "bad.c: Error!" not in out:
                        found |= run.violation("unrecognised-text-not-fatal-in-run", {"name": "bad.c", "src": src, "argv": argv,
                                                                                      "exit": code, "stdout": out[-600:], "stderr": err[-400:]})
        finally:
            shutil.rmtree(tmpd, ignore_errors=True)
        run.count("command-line runs with an unparsable file first / last / between clean files", ncli, ncli)
    run.count("fragment insertions (all)", len(ins), 0)
    run.count("fragment insertions that the tool itself reports as unrecognised under -d", len(unrec), len(unrec))
    run.cov["unrecognised_and_fatal"] = nfatal
    if unrec:
        run.sample({"name": unrec[0][1], "src_tail": unrec[0][0][-120:]})
    if drv:
        drv.close()
    # scope-trace model (depth back at file level) vs the implementation, after every statement
    sstats = {}
    if replay is None and b.make_ok:
        import scopecorr
        sprogs = list(progs[:40 if tier == "quick" else 400])
        sprogs += scopecorr.variants(sprogs[::4], rnd)
        sfound, sstats = scopecorr.check(run, b, sprogs)
        found |= sfound
    run.cov["scope_trace_correspondence"] = sstats
    common.broken_obligations(run, b, found)
    disc = sum(1 for t in b.theorems if t not in b.open_assumptions) if b.make_ok else 0
    return run.finish(max(len(b.theorems), 4), disc,
                      "conforming programs of the family G: the recorded pop_tokens/run_rules events must tile the token list, every "
                      "statement must start at column 1 and end with NEWLINE, the scope must be back at file level; then fragments "
                      "inserted at random statement boundaries (with/without newline, also as the last text of the file): when the "
                      "tool under -d reports them `uncaught`, the run without -d must be fatal; every run is also replayed in the "
                      "extracted loop model; non-trivial = the fragment really was unrecognised",
                      assumptions=["`jump >= 1` for matching primaries is observed (C05), not proved per rule"])
