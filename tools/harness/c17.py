"""C17 - comment text and string / character contents are opaque (metamorphic search + tie to the Coq side)."""
import multiprocessing as mp
import random

import common
import impl
import metamorph as M

ADM = "admissible replacements (same width, no delimiter, backslash, line break, ? % :) of comment / literal contents"
WIDE = "code-like replacements that may also hold % : ? (di/trigraph spellings can arise)"
EDGE = "fixed cases: a comment line of displayed width 81 whose new text holds a di/trigraph"
KIND_DIAG = "replacement-changes-diagnostics"
KIND_LEX = "lexer-replacement-changes-tokens"
FINDING = "C17-digraph-in-comment-width"


def _init():
    common.ensure_impl_path()
    import lexcorr
    lexcorr.install_span_probe()


def evaluate(name, src, src2, reps, base=None, lexed=None):
    """reps: [{idx, kind, clo, chi, old, new, ...}] -> ('skip'|'ok', [(kind, difference)])"""
    base = base or impl.analyse(src, name)
    if base["kind"] != "ok":
        return "skip", []
    out = []
    other = impl.analyse(src2, name)
    d = M.compare(base, other)
    if d is not None:
        if isinstance(d, dict):
            d = dict(d, only_widths=only_widths(base, other))
        else:
            d = {"difference": d, "only_widths": only_widths(base, other)}
        out.append((KIND_DIAG, d))
    if not any(M.has_graph(r["new"]) for r in reps):
        import lexcorr
        lx = lexed or lexcorr.impl_lex(src, name)
        if lx["kind"] == "ok":
            exp = {r["idx"]: M.expected_value(r["kind"], lx["tokens"][r["idx"]], src, r["new"], r["clo"]) for r in reps}
            ld = M.lex_compare(src, src2, name, expected=exp)
            if ld is not None:
                out.append((KIND_LEX, ld))
    return "ok", out


def only_widths(base, other):
    """True when two analyses differ ONLY in what the recorded finding is about: the token value of a comment / literal
    is shorter than its displayed text, so LINE_TOO_LONG near the 80-column boundary and highlight LENGTHS may change.
    Any other difference (another code, another position, a fatal outcome) is not that finding."""
    if base.get("kind") != "ok" or other.get("kind") != "ok":
        return False

    def norm(r):
        # CheckCommentLineLen moves the position of a too-long comment token to (line, 1), so the POSITION of other
        # diagnostics on that comment token follows LINE_TOO_LONG: codes and levels are compared, not positions
        return sorted((d[0], d[2]) for d in r["diags"] if d[0] != "LINE_TOO_LONG")
    return norm(base) == norm(other)


def finding_of(stream, reps, diff=None):
    if stream == ADM or not any(M.has_graph(r["new"]) for r in reps):
        return None
    if isinstance(diff, dict) and diff.get("only_widths") is False:
        return None
    return FINDING


def _work(args):
    import lexcorr
    i, fseed, nrep = args
    cstats = {}
    name, src, edited, rnd = M.file_from_seed(fseed, i, True, cstats)
    res = {"n": {ADM: [0, 0], WIDE: [0, 0]}, "viol": [], "hist": {"comments inserted": cstats}, "obs": [], "samples": [],
           "skipped": 0}
    h = res["hist"]

    def bump(k, n=1):
        h[k] = h.get(k, 0) + n
    base = impl.analyse(src, name)
    lexed = lexcorr.impl_lex(src, name)
    if base["kind"] != "ok" or lexed["kind"] != "ok":
        res["skipped"] = 1
        return res
    tg, skipped = M.targets(src, name, lexed)
    h["tokens left alone"] = dict(skipped)
    tg = [t for t in tg if any(c not in "\n\t" for c in t["content"])]
    bump("base file: %s, %s" % ("violating variant (token edit)" if edited else "family program + comments",
                                "with diagnostics" if base["diags"] else "clean"))
    for d in set(x[0] for x in base["diags"]):
        bump("base files with diagnostic " + d)
    if not tg:
        bump("files without a replaceable token")
        return res
    edge = [t for t in tg if t["width"] >= 78]
    for k in range(nrep):
        for stream in (ADM, WIDE):
            mode = ["one", "one", "few", "all"][(k + (stream == WIDE)) % 4]
            if mode == "one":
                chosen = [rnd.choice(edge if edge and rnd.random() < 0.5 else tg)]
            elif mode == "few":
                chosen = rnd.sample(tg, min(len(tg), rnd.randint(2, 4)))
            else:
                chosen = tg
            reps = []
            graphs = rnd.random() < 0.4
            for t in chosen:
                new = M.replacement(rnd, t["kind"], t["content"], stream == ADM, graphs=graphs)
                if new is None:
                    continue
                if stream == ADM and not M.replace_ok_py(t["kind"], t["content"], new):
                    raise AssertionError("replacement left the admissible class: %r" % ((t["kind"], t["content"], new),))
                reps.append({"idx": t["idx"], "kind": t["kind"], "clo": t["clo"], "chi": t["chi"], "old": t["content"],
                             "new": new, "line": t["line"], "width": t["width"]})
            if not reps:
                continue
            src2 = M.apply_replacements(src, [(r["clo"], r["chi"], r["new"]) for r in reps])
            _, diffs = evaluate(name, src, src2, reps, base, lexed)
            changed = [r for r in reps if r["old"] != r["new"]]
            res["n"][stream][0] += 1
            res["n"][stream][1] += 1 if changed else 0
            tag = "admissible" if stream == ADM else "wider"
            bump("%s: %s token(s) per replacement" % (tag, mode))
            for r in changed:
                bump("%s: replaced %s" % (tag, r["kind"]))
                if r["kind"] in ("COMMENT", "MULT_COMMENT") and r["width"] >= 78:
                    bump("%s: comment replacements on lines of width >= 78" % tag)
                if r["kind"] == "MULT_COMMENT" and "\n" in r["old"]:
                    bump("%s: multi-line block comments replaced" % tag)
                if "\t" in r["old"]:
                    bump("%s: contents holding a tab (kept in place)" % tag)
            if stream == WIDE and any(M.has_graph(r["new"]) for r in reps):
                bump("wider: replacements whose new text holds a di/trigraph")
            for r in reps[:2]:
                if len(res["obs"]) < 6 and len(r["old"]) <= 60:
                    res["obs"].append((r["kind"], r["old"], r["new"], M.replace_ok_py(r["kind"], r["old"], r["new"])))
            if k == 0 and stream == ADM and changed:
                r = changed[0]
                res["samples"].append({"file": name, "stream": tag, "kind": r["kind"], "line": r["line"], "old": r["old"][:80],
                                       "new": r["new"][:80], "base_diagnostics": len(base["diags"])})
            for kind, d in diffs:
                res["viol"].append((kind, {"name": name, "src": src, "src2": src2, "stream": stream, "replaced": reps,
                                           "difference": d, "finding_id": finding_of(stream, reps, d)}))
    return res


BODY = "int\tmain(void)\n{\n\treturn (0);\n}\n"


def edge_cases(rnd):
    """Deterministic files whose comment line is 81 wide, with a new text that holds a digraph or trigraph."""
    x = "x" * 200
    cases = [
        ("e1.c", impl.HDR + "\n// " + x[:78] + "\n\n" + BODY, "<:"),
        ("e2.c", impl.HDR + "\n// " + x[:78] + "\n\n" + BODY, "??="),
        ("e3.c", impl.HDR + "\n/* " + x[:75] + " */\n\n" + BODY, "%>"),
        ("e4.c", impl.HDR + "\n/*\n** " + x[:78] + "\n*/\n\n" + BODY, ":>"),
        ("e5.c", impl.HDR + "\nint\tmain(void)\n{\n\treturn (0); // " + x[:62] + "\n}\n", "%:"),
        ("e6.c", impl.HDR + "\n#define STR \"" + x[:30] + "\"\n\n" + BODY, "<%"),
    ]
    out = []
    for name, src, force in cases:
        tg, _ = M.targets(src, name)
        t = tg[0]
        new = t["content"][:1] + force + t["content"][1 + len(force):]       # minimal: only the di/trigraph is new
        assert M.wider_ok(t["kind"], t["content"], new) and not M.replace_ok_py(t["kind"], t["content"], new)
        reps = [{"idx": t["idx"], "kind": t["kind"], "clo": t["clo"], "chi": t["chi"], "old": t["content"], "new": new,
                 "line": t["line"], "width": t["width"]}]
        out.append((name, src, M.apply_replacements(src, [(t["clo"], t["chi"], new)]), reps))
    return out


def directive_like_cases():
    """Deterministic ADMISSIBLE replacements that look like preprocessor text: an interior line of a block comment that
    starts with `#if` / `#endif` in a file holding conditionals (a guarded header, a .c file with #ifdef), and the string
    of an `#import` line (a string outside #include).  -> [(name, src, src2, reps)]"""
    guard_h = (impl.HDR + "\n#ifndef DEMO_H\n# define DEMO_H\n\n/*\n   nothing to see here\n   still nothing at all\n*/\nint\tf(void);\n\n#endif\n")
    cond_c = (impl.HDR + "\n#ifdef DEBUG\n# define LVL 1\n#endif\n\n/*\n   nothing to see here\n   still nothing at all\n*/\n" + BODY)
    imp_c = impl.HDR + "\n#import \"libdemo.h\"\n\n" + BODY
    out = []
    for name, src, olds, news in (
            ("demo.h", guard_h, ["   nothing to see here"], ["   #if (a > b) {;} + 1 "]),
            ("demo.h", guard_h, ["   still nothing at all"], ["   #endif + {x} = 123456"]),
            ("demo.h", guard_h, ["   nothing to see here"], ["   #ifndef X_{;}(a)-+1"]),
            ("cond.c", cond_c, ["   nothing to see here"], ["   #else if (x) {;} +1"]),
            ("cond.c", cond_c, ["   still nothing at all"], ["   #endif {;} = (1+2)*3"]),
            ("imp.c", imp_c, ["libdemo.h"], ["{if;}+=-'"])):
        tg, _ = M.targets(src, name)
        reps = []
        for old, new in zip(olds, news):
            for t in tg:
                k = t["content"].find(old)
                if k >= 0 and len(old) == len(new):
                    content2 = t["content"][:k] + new + t["content"][k + len(old):]
                    if M.replace_ok_py(t["kind"], t["content"], content2):
                        reps.append({"idx": t["idx"], "kind": t["kind"], "clo": t["clo"], "chi": t["chi"], "old": t["content"],
                                     "new": content2, "line": t["line"], "width": t["width"]})
                    break
        if reps:
            out.append((name, src, M.apply_replacements(src, [(r["clo"], r["chi"], r["new"]) for r in reps]), reps))
    return out


def negative_samples():
    s = []
    for kind in M.KINDS:
        s += [(kind, "abc", "ab", False), (kind, "abc", "a\\c", False), (kind, "abc", "a\nc", False), (kind, "a\tc", "abc", False),
              (kind, "a\tc", "x\ty", True), (kind, "abc", "a\tc", False), (kind, "abc", "a?c", False), (kind, "abc", "<:c", False),
              (kind, "abc", "a%c", False), (kind, "abc", "{;}", True), (kind, "", "", True), (kind, "abc", "a c", True),
              (kind, "abc", "a/c", kind != "MULT_COMMENT"), (kind, "abc", "a\"c", kind != "STRING"),
              (kind, "abc", "a'c", kind != "CHAR_CONST"), (kind, "abc", "a*c", True), (kind, "ab", "éb", False),
              (kind, "a\nb", "x\ny", True), (kind, "a\nb", "xyz", False), (kind, "a\\nb", "if(x", True)]
    return [(k, o, n, M.replace_ok_py(k, o, n)) for k, o, n, _ in s], [x for x in s if M.replace_ok_py(x[0], x[1], x[2]) != x[3]]


def run(run, tier, seed, replay=None):
    b = common.build(["C17"], need_driver=False)
    run.build = b
    found = False
    rnd = random.Random(seed)
    hist = {}
    obs = []
    extra = {}
    if replay is not None:
        d = replay["data"]
        if "src" in d:
            _, diffs = evaluate(d["name"], d["src"], d["src2"], d["replaced"])
            run.count("replay", 1, 1)
            for kind, diff in diffs:
                if kind == replay["kind"]:
                    found |= run.violation(kind, dict(d, difference=diff), finding_id=d.get("finding_id"))
            run.sample({"replayed": d["name"], "stream": d["stream"]})
    else:
        nfiles, nrep = (40, 8) if tier == "quick" else (400, 20)
        # the fixed boundary cases first: they exercise the recorded lexer behaviour on every run
        ndir = 0
        for name, src, src2, reps in directive_like_cases():
            st, diffs = evaluate(name, src, src2, reps)
            if st == "ok":
                ndir += 1
            for kind, diff in diffs:
                found |= run.violation(kind, {"name": name, "src": src, "src2": src2, "stream": ADM, "replaced": reps, "difference": diff,
                                              "finding_id": None})
        run.count("fixed admissible replacements that look like preprocessor text (comment lines starting with #if/#endif in files "
                  "with conditionals, the string of an #import line)", ndir, ndir)
        nedge = 0
        edge_viol = []
        for name, src, src2, reps in edge_cases(random.Random(seed)):
            _, diffs = evaluate(name, src, src2, reps)
            run.count(EDGE, 1, 1)
            for kind, diff in diffs:
                nedge += 1
                edge_viol.append((kind, {"name": name, "src": src, "src2": src2, "stream": EDGE, "replaced": reps,
                                         "difference": diff, "finding_id": FINDING}))
                if "known_finding_example" not in extra:
                    extra["known_finding_example"] = {"file": name, "line_before": src.split("\n")[12], "line_after": src2.split("\n")[12],
                                                      "difference": diff}
                    run.sample({"recorded behaviour (di/trigraph translated inside a comment)": extra["known_finding_example"]}, cap=1)
        hist["fixed boundary cases that differ"] = nedge
        jobs = [(i, rnd.getrandbits(64), nrep) for i in range(nfiles)]
        skipped = 0
        viol = []
        with mp.Pool(common.NPROC, initializer=_init) as pool:
            for res in pool.imap(_work, jobs, chunksize=1):
                skipped += res["skipped"]
                for s, (n, nt) in res["n"].items():
                    if n:
                        run.count(s, n, nt)
                M.merge(hist, res["hist"])
                viol += res["viol"]
                for o in res["obs"]:
                    if len(obs) < 500:
                        obs.append(o)
                for s in res["samples"]:
                    run.sample(s, cap=6)
        hist["files not analysable (outside the quantifier)"] = skipped
        # differences inside the admissible / graph-free class first, then the fixed cases, then the other di/trigraph ones
        viol.sort(key=lambda kv: (kv[1]["finding_id"] is not None, len(kv[1]["replaced"]), len(kv[1]["src"])))
        first = [v for v in viol if v[1]["finding_id"] is None]
        viol = first + edge_viol + [v for v in viol if v[1]["finding_id"] is not None]
        shown = nid = 0
        known = run.known(FINDING)
        hist["differences caused by a di/trigraph in the new text (" + FINDING + ")"] = sum(1 for v in viol if v[1]["finding_id"])
        hist["differences inside the admissible or the graph-free wider class"] = len(first)
        for kind, data in viol:
            if data["finding_id"] is None:
                shown += 1
                if shown > 40:
                    continue
            else:
                nid += 1
                if not known and nid > 12:      # not recorded (yet): a dozen replay files say it all
                    continue
            found |= run.violation(kind, data, finding_id=data["finding_id"])
    try:
        import obscorr
    except ImportError:
        obscorr = None
    neg, wrong = negative_samples()
    if wrong:
        raise AssertionError("replace_ok_py disagrees with its own table: %r" % (wrong[:3],))
    if obscorr is not None:
        samples = [tuple(x) for x in (neg + obs)][:600]
        found |= bool(obscorr.check_replace(run, b, samples))
    else:
        run.notes.append("tools/harness/obscorr.py is missing: the Python predicate replace_ok_py was not cross-checked "
                         "against the Coq predicate in this run")
    common.broken_obligations(run, b, found)
    disc = sum(1 for t in b.theorems if t not in b.open_assumptions) if b.make_ok else 0
    extra["histogram"] = hist
    return run.finish(len(b.theorems), disc,
                      "programs of the family G with comments added at file level, at end of line and inside functions (block, "
                      "multi-line block, //; one comment line in four at the 80 column edge) and string / character literals in "
                      "expressions and defines, plus violating-but-analysable token-edit variants: the file and a copy in which "
                      "the content of one, a few or all comment tokens outside the 42 header and STRING / CHAR_CONST tokens "
                      "outside #include lines is replaced (by raw span) by code-like text of the same length with tabs and line "
                      "breaks kept in place are both analysed by Lexer + Registry.run; the complete diagnostic lists (code, "
                      "text, level, highlights with line, column, length, hint) must be equal and the token streams must agree "
                      "in type, position and raw span, the replaced tokens having the predicted value; non-trivial = at least "
                      "one content actually changed.  Character constants with an escape or empty, literals with an invalid "
                      "escape and tokens holding a line splice are left alone (lexical validity, not content)",
                      extra=extra,
                      assumptions=["the 42 header is the leading run of comment statements (everything the tool concatenates "
                                   "into its header text); comments in it are not replaced",
                                   "replacement text containing a di- or trigraph spelling (<: :> <% %> %: ??x) is translated by "
                                   "the tool's lexer inside comments and literals; differences caused by it are the recorded "
                                   "behaviour " + FINDING + " and are reported as KNOWN-FINDING, not hidden",
                                   "files that the tool cannot analyse (fatal / exception) are outside this property's quantifier"])
