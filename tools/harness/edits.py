"""The violation catalogue of DESIGN.md 4.2 (C02) as executable edit operators on the conforming
family G (family.program).  Sites are found structurally from the real token stream (impl.lex) and
the rendered lines; nothing here is random.

    P = Prog(src, name);  for e in sites("O01", P): res = impl.analyse(e.src, P.name); expect_ok(res, OPS["O01"].code, e.line)

`known_miss(op_id, edit, P)` names the genuine misses of the pinned tree (narrow predicates on the
site context); `python edits.py [nprog]` runs the calibration.
"""
import random
import signal
import sys
import time
from collections import namedtuple, OrderedDict, defaultdict

import common  # noqa: F401  (puts /repo on the path the same way every harness module does)
import impl
import family

Edit = namedtuple("Edit", "src line ctx")

ASSIGN_OPS = {"ASSIGN", "ADD_ASSIGN", "SUB_ASSIGN", "MUL_ASSIGN", "DIV_ASSIGN", "MOD_ASSIGN", "LEFT_ASSIGN",
              "RIGHT_ASSIGN", "AND_ASSIGN", "OR_ASSIGN", "XOR_ASSIGN"}
BIN_OPS = {"PLUS", "MINUS", "MULT", "DIV", "MODULO", "LEFT_SHIFT", "RIGHT_SHIFT", "BWISE_AND", "BWISE_OR",
           "BWISE_XOR", "AND", "OR", "EQUALS", "NOT_EQUAL", "LESS_THAN", "MORE_THAN", "LESS_OR_EQUAL",
           "GREATER_OR_EQUAL"}
UN_OPS = {"MINUS", "PLUS", "NOT", "BWISE_NOT", "MULT", "BWISE_AND"}
TYPE_KW = {"INT", "CHAR", "SHORT", "LONG", "FLOAT", "DOUBLE", "VOID", "UNSIGNED", "SIGNED", "STRUCT", "UNION",
           "ENUM", "CONST", "STATIC"}
CONTROL = ("if", "elif", "while", "else")
EXPR_KINDS = ("stmt", "if", "elif", "while")
NEW = "zq9"           # a fresh lower-case name: the family never draws 'z' as a first letter
CAP = 40


class Op:
    def __init__(self, id, code, ext, sentence, fn):
        self.id, self.code, self.ext, self.sentence, self.fn = id, code, ext, sentence, fn

    def __repr__(self):
        return "Op(%s,%s)" % (self.id, self.code)


OPS = OrderedDict()
NOT_IMPLEMENTED = {}


def op(id, code, sentence, ext=None):
    def deco(fn):
        OPS[id] = Op(id, code, ext, sentence, fn)
        return fn
    return deco


# ------------------------------------------------------------------------------------------- structure
class Prog:
    """Structure of a conforming program of the family, derived from its tokens and lines.
    kind[i] (0-based line): hdr | empty | pp | global | proto | fhead | fopen | fclose | decl | stmt | if | elif |
    else | while | lbrace | rbrace | thead | topen | field | tclose | other"""

    def __init__(self, src, name):
        self.src, self.name = src, name
        self.ext = "h" if name.endswith(".h") else "c"
        self.lines = src.split("\n")
        if self.lines and self.lines[-1] == "":
            self.lines.pop()
        self.line_start = []
        o = 0
        for L in self.lines:
            self.line_start.append(o)
            o += len(L) + 1
        r = impl.lex(src, name)
        self.lex_ok = r["kind"] == "ok"
        self.toks = r.get("tokens", [])
        n = len(self.lines)
        self.ltoks = [[] for _ in range(n)]
        for k, t in enumerate(self.toks):
            if t[0] != "NEWLINE" and 1 <= t[2] <= n:
                self.ltoks[t[2] - 1].append(k)
        self.depth = [0] * n
        for i in range(n):
            d = 0
            for k in self.ltoks[i]:
                if self.toks[k][0] == "TAB":
                    d += 1
                else:
                    break
            self.depth[i] = d
        self.kind = ["other"] * n
        self.sub = [None] * n
        self.fidx = [None] * n
        self.funcs = []
        self.typedefs = []
        self.pmatch = {}
        self.pkind = {}
        self.pdepth = {}
        if self.lex_ok:
            self._classify()
            self._parens()
            self._inspoints()

    # -- token access
    def ty(self, k):
        return self.toks[k][0] if 0 <= k < len(self.toks) else None

    def val(self, k):
        t = self.toks[k]
        return t[1] if t[1] is not None else self.src[t[4]:t[5]]

    def text(self, k):
        t = self.toks[k]
        return self.src[t[4]:t[5]]

    def types(self, i):
        return [self.toks[k][0] for k in self.ltoks[i]]

    def code_toks(self, i):
        """token indices of line i without the leading tabs"""
        return self.ltoks[i][self.depth[i]:]

    def first_ty(self, i):
        c = self.code_toks(i)
        return self.toks[c[0]][0] if c else None

    def last_ty(self, i):
        c = self.ltoks[i]
        return self.toks[c[-1]][0] if c else None

    # -- text edits
    def splice(self, lo, hi, text):
        return self.src[:lo] + text + self.src[hi:]

    def repl_line(self, i, text):
        s = self.line_start[i]
        return self.src[:s] + text + self.src[s + len(self.lines[i]):]

    def with_lines(self, lines):
        return "\n".join(lines) + "\n"

    def insert_before(self, i, new_lines):
        return self.with_lines(self.lines[:i] + list(new_lines) + self.lines[i:])

    def lctx(self, i):
        c = ("k", self.kind[i])
        if self.sub[i]:
            c += ("sub", self.sub[i])
        c += ("d", self.depth[i])
        if self.fidx[i] is not None:
            c += ("f", self.fidx[i])
        return c

    # -- classification
    def _classify(self):
        n = len(self.lines)
        i = 0
        while i < n:
            if i < 11:
                self.kind[i] = "hdr"
                i += 1
                continue
            if self.lines[i] == "":
                self.kind[i] = "empty"
                i += 1
                continue
            tt = self.types(i)
            if not tt:
                i += 1
                continue
            if tt[0] == "HASH":
                self.kind[i] = "pp"
                i += 1
                continue
            nxt = self.lines[i + 1] if i + 1 < n else None
            if nxt == "{" and tt[0] == "TYPEDEF":
                j = i + 2
                while j < n and not self.lines[j].startswith("}"):
                    j += 1
                if j >= n:
                    i += 1
                    continue
                td = {"head": i, "open": i + 1, "close": j, "fields": list(range(i + 2, j)),
                      "what": {"STRUCT": "struct", "UNION": "union", "ENUM": "enum"}.get(tt[2] if len(tt) > 2 else None)}
                self.kind[i], self.kind[i + 1], self.kind[j] = "thead", "topen", "tclose"
                for b in td["fields"]:
                    self.kind[b] = "field"
                self.typedefs.append(td)
                i = j + 1
                continue
            if nxt == "{" and "LPARENTHESIS" in tt and self.depth[i] == 0:
                j = i + 2
                while j < n and self.lines[j] != "}":
                    j += 1
                if j >= n:
                    i += 1
                    continue
                self._function(i, j)
                i = j + 1
                continue
            if tt[-1] == "SEMI_COLON" and self.depth[i] == 0:
                self.kind[i] = "proto" if "LPARENTHESIS" in tt else "global"
            i += 1

    def _function(self, head, close):
        fi = len(self.funcs)
        open_ = head + 1
        blank = None
        for b in range(open_ + 1, close):
            if self.lines[b] == "":
                blank = b
                break
        decls = list(range(open_ + 1, blank)) if blank is not None else []
        first = blank + 1 if blank is not None else open_ + 1
        f = {"idx": fi, "head": head, "open": open_, "close": close, "decls": decls, "blank": blank, "first": first,
             "params": self._params(head)}
        self.funcs.append(f)
        for b in range(head, close + 1):
            self.fidx[b] = fi
        self.kind[head], self.kind[open_], self.kind[close] = "fhead", "fopen", "fclose"
        for b in decls:
            self.kind[b] = "decl"
        if blank is not None:
            self.kind[blank] = "empty"
        for b in range(first, close):
            if self.lines[b] == "":
                self.kind[b] = "empty"
                continue
            c = self.code_toks(b)
            t0 = self.ty(c[0])
            tys = [self.ty(k) for k in c]
            if t0 == "LBRACE":
                self.kind[b] = "lbrace"
            elif t0 == "RBRACE":
                self.kind[b] = "rbrace"
            elif t0 == "ELSE":
                self.kind[b] = "elif" if "IF" in tys[:3] else "else"
            elif t0 == "IF":
                self.kind[b] = "if"
            elif t0 == "WHILE":
                self.kind[b] = "while"
            else:
                self.kind[b] = "stmt"
                self.sub[b] = self._subkind(c, tys)

    def _subkind(self, c, tys):
        t0 = tys[0]
        if t0 == "RETURN":
            return "retv" if "LPARENTHESIS" in tys else "return"
        if t0 == "BREAK":
            return "break"
        if t0 == "CONTINUE":
            return "continue"
        if t0 == "LPARENTHESIS" and len(tys) > 2 and tys[1] == "VOID" and tys[2] == "RPARENTHESIS":
            return "void"
        if t0 in ("INC", "DEC"):
            return "preinc"
        if len(tys) >= 2 and tys[-2] in ("INC", "DEC"):
            return "postinc"
        d = 0
        for t in tys:
            if t in ("LPARENTHESIS", "LBRACKET"):
                d += 1
            elif t in ("RPARENTHESIS", "RBRACKET"):
                d -= 1
            elif d == 0 and t in ASSIGN_OPS:
                return "assign"
        return "call"

    def _params(self, i):
        """[(token indices of the parameter)] of a header / prototype line; [] for (void)"""
        c = self.ltoks[i]
        try:
            a = next(k for k in c if self.ty(k) == "LPARENTHESIS")
        except StopIteration:
            return []
        b = max(k for k in c if self.ty(k) == "RPARENTHESIS")
        inner = [k for k in c if a < k < b]
        if [self.ty(k) for k in inner] == ["VOID"]:
            return []
        out, cur = [], []
        for k in inner:
            if self.ty(k) == "COMMA":
                out.append(cur)
                cur = []
            else:
                cur.append(k)
        if cur:
            out.append(cur)
        return [[k for k in p if not (k == p[0] and self.ty(k) == "SPACE")] for p in out]

    def _parens(self):
        for i in range(11, len(self.lines)):
            if self.kind[i] in ("hdr", "empty", "pp"):
                continue
            stack = []
            d = 0
            c = self.code_toks(i)
            for pos, k in enumerate(c):
                t = self.ty(k)
                if t == "LPARENTHESIS":
                    self.pdepth[k] = d
                    stack.append((k, pos))
                    d += 1
                elif t == "RPARENTHESIS":
                    d -= 1
                    self.pdepth[k] = d
                    if stack:
                        a, apos = stack.pop()
                        self.pmatch[a] = k
                        self.pmatch[k] = a
                        kd = self._paren_kind(i, c, apos, pos)
                        self.pkind[a] = kd
                        self.pkind[k] = kd
                else:
                    self.pdepth[k] = d

    def _paren_kind(self, i, c, apos, bpos):
        if self.kind[i] in ("fhead", "proto"):
            return self.kind[i]
        prev = self.ty(c[apos - 1]) if apos > 0 else None
        prev2 = self.ty(c[apos - 2]) if apos > 1 else None
        inner = [self.ty(k) for k in c[apos + 1:bpos]]
        if prev == "IDENTIFIER":
            return "call"
        if prev == "SIZEOF":
            if inner and (inner[0] in TYPE_KW or (inner[0] == "IDENTIFIER" and self.val(c[apos + 1]).startswith("t_"))):
                return "sizeof_type"
            return "sizeof_expr"
        if prev == "SPACE" and prev2 in ("IF", "WHILE"):
            return "ctl"
        if prev == "SPACE" and prev2 == "RETURN":
            return "ret"
        if inner and (inner[0] in TYPE_KW or inner in (["IDENTIFIER", "SPACE", "MULT"], ["IDENTIFIER", "SPACE", "MULT", "MULT"])):
            return "void" if apos == 0 else "cast"
        return "group"

    def _inspoints(self):
        """(j, depth, function): a new statement line may be inserted before line j at that depth"""
        self.inspoints = []
        for f in self.funcs:
            for j in range(f["first"], f["close"] + 1):
                k = self.kind[j]
                if k not in ("stmt", "if", "while", "rbrace", "fclose"):
                    continue
                if self.kind[j - 1] in CONTROL:
                    continue
                d = self.depth[j] + 1 if k in ("rbrace", "fclose") else self.depth[j]
                self.inspoints.append((j, d, f))

    def stmt_end(self, j):
        k = self.kind[j]
        if k not in CONTROL:
            return j
        b = j + 1
        if self.kind[b] == "lbrace":
            e = b + 1
            while not (self.kind[e] == "rbrace" and self.depth[e] == self.depth[b]):
                e += 1
        else:
            e = self.stmt_end(b)
        if k in ("if", "elif") and self.kind[e + 1] in ("elif", "else") and self.depth[e + 1] == self.depth[j]:
            return self.stmt_end(e + 1)
        return e

    # -- declarations: (leading part up to and including the tab run, [tab token idx], name token idx)
    def decl_parts(self, i):
        c = self.code_toks(i)
        tabs = []
        for k in c:
            if self.ty(k) == "TAB":
                tabs.append(k)
            elif tabs:
                break
        if not tabs:
            return None
        after = [k for k in c if k > tabs[-1]]
        name = next((k for k in after if self.ty(k) == "IDENTIFIER"), None)
        if name is None:
            return None
        return tabs, after, name


def expect_ok(res, code, line):
    if res.get("kind") != "ok" or res.get("status") != "Error":
        return False
    for d in res["diags"]:
        if d[0] == code and d[2] == "Error" and d[3] and d[3][0][0] == line:
            return True
    return False


def _spread(lst, cap=CAP):
    if len(lst) <= cap:
        return lst
    n = len(lst)
    return [lst[(j * n) // cap] for j in range(cap)]


PER_PLACE = 3


def sites(op_id, P):
    o = OPS[op_id]
    if not P.lex_ok or (o.ext and o.ext != P.ext):
        return []
    ss = list(o.fn(P))
    if ss and any(e.ctx[:1] == ("place",) for e in ss):
        # operators that name the PLACE of the edit (statement kind x position): every place keeps its share of the sites
        by = OrderedDict()
        for e in ss:
            by.setdefault((place_of(e), _cget(e.ctx, "as")), []).append(e)
        out = []
        for pl, lst in by.items():
            out += _spread(lst, PER_PLACE)
        return out
    return _spread(ss)


def place_of(e):
    return e.ctx[1] if e.ctx[:1] == ("place",) else None


def _tabs(n):
    return "\t" * n


# ------------------------------------------------------------------------------------------- W: white space
def _code_lines(P):
    return [i for i in range(11, len(P.lines)) if P.lines[i] != ""]


def _trail_ctx(P, i):
    return P.lctx(i) + ("last", P.last_ty(i), "ntok", min(len(P.code_toks(i)), 3), "sc", _scope(P, i))


def _scope(P, i):
    """what encloses line i: 'global', 'func' (a function body), 'utype' (a typedef'd struct/union/enum body)"""
    k = P.kind[i]
    if k in ("field", ):
        return "utype"
    if P.fidx[i] is not None and k not in ("fhead", ):
        return "func"
    return "global"


@op("W01", "SPC_BEFORE_NL", "a line can never end with spaces or tabs")
def w01(P):
    for i in _code_lines(P):
        yield Edit(P.repl_line(i, P.lines[i] + " "), i + 1, _trail_ctx(P, i))


@op("W02", "SPC_BEFORE_NL", "a line can never end with spaces or tabs")
def w02(P):
    for i in _code_lines(P):
        yield Edit(P.repl_line(i, P.lines[i] + "\t"), i + 1, _trail_ctx(P, i))


def _empty_lines(P):
    return [i for i in range(11, len(P.lines)) if P.lines[i] == ""]


def _empty_ctx(P, i):
    nx = P.kind[i + 1] if i + 1 < len(P.lines) else "eof"
    return ("prev", P.kind[i - 1], "next", nx, "sc", "func" if P.fidx[i] is not None else "global")


@op("W03", "SPACE_EMPTY_LINE", "an empty line must be empty")
def w03(P):
    for i in _empty_lines(P):
        yield Edit(P.repl_line(i, " "), i + 1, _empty_ctx(P, i))


@op("W04", "SPACE_EMPTY_LINE", "an empty line must be empty")
def w04(P):
    for i in _empty_lines(P):
        yield Edit(P.repl_line(i, "\t"), i + 1, _empty_ctx(P, i))


@op("W05", "SPACE_REPLACE_TAB", "indent with real tabs")
def w05(P):
    for i in _code_lines(P):
        d = P.depth[i]
        if d >= 1 and P.kind[i] != "pp":
            yield Edit(P.repl_line(i, "    " * d + P.lines[i][d:]), i + 1,
                       P.lctx(i) + ("ntok", min(len(P.code_toks(i)), 3), "first", P.first_ty(i)))


def _body_lines(P):
    out = []
    for f in P.funcs:
        out += [i for i in range(f["open"] + 1, f["close"]) if P.lines[i] != ""]
    return out


@op("W06", "TOO_MANY_TAB", "blocks are indented (one level)")
def w06(P):
    for i in _body_lines(P):
        yield Edit(P.repl_line(i, "\t" + P.lines[i]), i + 1, P.lctx(i) + ("prev", P.kind[i - 1]))


@op("W07", "TOO_FEW_TAB", "blocks are indented (one level)")
def w07(P):
    for i in _body_lines(P):
        if P.depth[i] >= 1:
            yield Edit(P.repl_line(i, P.lines[i][1:]), i + 1, P.lctx(i) + ("prev", P.kind[i - 1]))


@op("W08", "CONSECUTIVE_NEWLINES", "never two consecutive empty lines")
def w08(P):
    for i in _empty_lines(P):
        if P.fidx[i] is None:
            yield Edit(P.insert_before(i, [""]), i + 2, _empty_ctx(P, i))


@op("W09", "EMPTY_LINE_FUNCTION", "no other empty lines in a function")
def w09(P):
    for f in P.funcs:
        for j in range(f["first"] + 1, f["close"] + 1):
            # between two lines of the statement part (also between a control line and its body, before else / })
            yield Edit(P.insert_before(j, [""]), j + 1,
                       ("prev", P.kind[j - 1], "next", P.kind[j], "d", P.depth[j], "f", f["idx"],
                        "between_stmts", any(p[0] == j for p in P.inspoints)))


@op("W10", "NL_AFTER_VAR_DECL", "empty line between declarations and the rest")
def w10(P):
    for f in P.funcs:
        b = f["blank"]
        if b is not None and f["decls"]:
            yield Edit(P.with_lines(P.lines[:b] + P.lines[b + 1:]), b + 1,
                       ("ndecl", len(f["decls"]), "next", P.kind[b + 1], "sub", P.sub[b + 1], "f", f["idx"]))


@op("W11", "NEWLINE_PRECEDES_FUNC", "functions separated by an empty line")
def w11(P):
    for f in P.funcs:
        h = f["head"]
        # after a preprocessor line the same edit is W17's (the tool prints NL_AFTER_PREPROC there)
        if P.lines[h - 1] == "" and P.kind[h - 2] in ("fclose", "global"):
            yield Edit(P.with_lines(P.lines[:h - 1] + P.lines[h:]), h, ("prev", P.kind[h - 2], "f", f["idx"]))


@op("W12", "EMPTY_LINE_FILE_START", "file begins with the header")
def w12(P):
    yield Edit("\n" + P.src, 1, ("ext", P.ext))


@op("W13", "EMPTY_LINE_EOF", "(tool rule)")
def w13(P):
    yield Edit(P.src + "\n", len(P.lines) + 1, ("ext", P.ext, "last", P.kind[-1]))


def _sep_spaces(P, kinds=EXPR_KINDS):
    """SPACE tokens between two other tokens on statement / control lines"""
    for i in range(11, len(P.lines)):
        if P.kind[i] not in kinds:
            continue
        c = P.code_toks(i)
        for pos, k in enumerate(c):
            if P.ty(k) == "SPACE" and 0 < pos < len(c) - 1:
                yield i, k, c[pos - 1], c[pos + 1]


@op("W14", "CONSECUTIVE_SPC", "never two consecutive spaces")
def w14(P):
    for i, k, a, b in _sep_spaces(P):
        yield Edit(P.splice(P.toks[k][4], P.toks[k][4], " "), i + 1, P.lctx(i) + ("prev", P.ty(a), "next", P.ty(b)))


def _decl_like(P):
    """lines holding `type TAB+ declarator;`: local declarations, globals, struct fields"""
    for i in range(11, len(P.lines)):
        if P.kind[i] in ("decl", "global", "field"):
            dp = P.decl_parts(i)
            if dp:
                yield i, dp


@op("W15", "MIXED_SPACE_TAB", "(tool rule: tab/space consistency)")
def w15(P):
    for i, (tabs, after, name) in _decl_like(P):
        lo = P.toks[tabs[0]][4]
        yield Edit(P.splice(lo, lo, " "), i + 1, P.lctx(i) + ("ntab", len(tabs)))


@op("W16", "TAB_INSTEAD_SPC", "one - and only one - space")
def w16(P):
    for i, k, a, b in _sep_spaces(P):
        yield Edit(P.splice(P.toks[k][4], P.toks[k][5], "\t"), i + 1, P.lctx(i) + ("prev", P.ty(a), "next", P.ty(b)))


@op("W17", "NL_AFTER_PREPROC", "(tool rule)")
def w17(P):
    n = len(P.lines)
    for i in range(11, n - 2):
        if P.kind[i] == "pp" and P.lines[i + 1] == "" and P.kind[i + 2] in ("global", "fhead", "thead", "proto"):
            yield Edit(P.with_lines(P.lines[:i + 1] + P.lines[i + 2:]), i + 2,
                       ("pp", _pp_name(P, i), "next", P.kind[i + 2], "ext", P.ext))


# ------------------------------------------------------------------------------------------- D: declarations
@op("D01", "VAR_DECL_START_FUNC", "declarations at the beginning of a function")
def d01(P):
    for f in P.funcs:
        if not f["decls"]:
            continue
        e = P.stmt_end(f["first"])
        if e + 1 > f["close"]:
            continue
        for n, k in enumerate(f["decls"]):
            L = P.lines[:k] + P.lines[k + 1:e + 1] + [P.lines[k]] + P.lines[e + 1:]
            yield Edit(P.with_lines(L), e + 1, ("ndecl", len(f["decls"]), "which", n, "after", P.kind[f["first"]],
                                               "sub", P.sub[f["first"]], "next", P.kind[e + 1], "f", f["idx"]))


def _local_decls(P):
    for f in P.funcs:
        for n, i in enumerate(f["decls"]):
            dp = P.decl_parts(i)
            if dp:
                yield f, n, i, dp


def _decl_ctx(P, f, n, i, dp):
    tabs, after, name = dp
    tys = [P.ty(k) for k in after]
    return ("ndecl", len(f["decls"]), "which", n, "ptr", tys.count("MULT"), "arr", tys.count("LBRACKET"),
            "type", P.ty(P.code_toks(i)[0]), "f", f["idx"])


@op("D02", "DECL_ASSIGN_LINE", "declaration and initialisation not on one line")
def d02(P):
    for f, n, i, dp in _local_decls(P):
        tabs, after, name = dp
        tys = [P.ty(k) for k in P.code_toks(i)]
        if "LBRACKET" in tys or "STATIC" in tys or "CONST" in tys:
            continue
        semi = P.toks[after[-1]][4]
        yield Edit(P.splice(semi, semi, " = 0"), i + 1, _decl_ctx(P, f, n, i, dp))


@op("D03", "MULT_DECL_LINE", "one declaration per line")
def d03(P):
    for f, n, i, dp in _local_decls(P):
        semi = P.toks[dp[1][-1]][4]
        yield Edit(P.splice(semi, semi, ", " + NEW), i + 1, _decl_ctx(P, f, n, i, dp))


@op("D04", "TOO_MANY_VARS_FUNC", "at most 5 variables")
def d04(P):
    for f in P.funcs:
        if len(f["decls"]) != 5:
            continue
        last = f["decls"][-1]
        dp = P.decl_parts(last)
        if not dp:
            continue
        tabs, after, name = dp
        prefix = P.src[P.line_start[last]:P.toks[tabs[-1]][5]]
        yield Edit(P.insert_before(last + 1, [prefix + NEW + ";"]), last + 2, ("f", f["idx"], "type", P.ty(P.code_toks(last)[0])))


@op("D05", "SPACE_REPLACE_TAB", "(alignment with tabs)")
def d05(P):
    for f, n, i, dp in _local_decls(P):
        tabs = dp[0]
        yield Edit(P.splice(P.toks[tabs[0]][4], P.toks[tabs[-1]][5], " "), i + 1,
                   _decl_ctx(P, f, n, i, dp) + ("ntab", len(tabs)))


@op("D06", "MISALIGNED_VAR_DECL", "names on the same column")
def d06(P):
    for f, n, i, dp in _local_decls(P):
        if n == 0:
            continue
        hi = P.toks[dp[0][-1]][5]
        yield Edit(P.splice(hi, hi, "\t"), i + 1, _decl_ctx(P, f, n, i, dp) + ("ntab", len(dp[0])))


@op("D07", "WRONG_SCOPE_VAR", "declarations at the beginning of a function")
def d07(P):
    for f in P.funcs:
        for i in range(f["first"], f["close"]):
            if P.kind[i] == "lbrace":
                d = P.depth[i] + 1
                yield Edit(P.insert_before(i + 1, [_tabs(d) + "int\t" + NEW + ";"]), i + 2,
                           ("d", d, "ctl", P.kind[i - 1], "next", P.kind[i + 1], "f", f["idx"]))


@op("D08", "VLA_FORBIDDEN", "VLAs forbidden")
def d08(P):
    for f, n, i, dp in _local_decls(P):
        after = dp[1]
        lb = next((k for k in after if P.ty(k) == "LBRACKET"), None)
        if lb is None:
            continue
        rb = next(k for k in after if k > lb and P.ty(k) == "RBRACKET")
        yield Edit(P.splice(P.toks[lb][5], P.toks[rb][4], NEW), i + 1,
                   _decl_ctx(P, f, n, i, dp) + ("was", P.ty(lb + 1)))


@op("D09", "SPC_AFTER_POINTER", "asterisks stuck to the name")
def d09(P):
    for f, n, i, dp in _local_decls(P):
        after = dp[1]
        stars = [k for k in after if P.ty(k) == "MULT"]
        if stars:
            hi = P.toks[stars[-1]][5]
            yield Edit(P.splice(hi, hi, " "), i + 1, ("where", "local") + _decl_ctx(P, f, n, i, dp))
    for i in range(11, len(P.lines)):
        if P.kind[i] == "field":
            dp = P.decl_parts(i)
            if dp:
                stars = [k for k in dp[1] if P.ty(k) == "MULT"]
                if stars:
                    hi = P.toks[stars[-1]][5]
                    yield Edit(P.splice(hi, hi, " "), i + 1, ("where", "field", "ptr", len(stars)))
        if P.kind[i] in ("fhead", "proto"):
            for pn, p in enumerate(P._params(i)):
                stars = [k for k in p if P.ty(k) == "MULT"]
                if stars and P.ty(p[-1]) == "IDENTIFIER":
                    hi = P.toks[stars[-1]][5]
                    yield Edit(P.splice(hi, hi, " "), i + 1, ("where", "param-" + P.kind[i], "ptr", len(stars), "pos", pn))


# ------------------------------------------------------------------------------------------- S: statements
def _ctl(P, i):
    """(keyword token, '(' token, matching ')') of an if / else if / while line"""
    c = P.code_toks(i)
    kw = next(k for k in c if P.ty(k) in ("IF", "WHILE"))
    lp = kw + 2
    return kw, lp, P.pmatch[lp]


@op("S01", "FORBIDDEN_CS", "for forbidden")
def s01(P):
    for i in range(11, len(P.lines)):
        if P.kind[i] in ("while", "if"):
            kw, lp, rp = _ctl(P, i)
            cond = P.src[P.toks[lp][5]:P.toks[rp][4]]
            yield Edit(P.splice(P.toks[kw][4], P.toks[rp][5], "for (;" + cond + ";)"), i + 1,
                       ("place", "instead-of-" + P.kind[i]) + P.lctx(i) + ("body", P.kind[i + 1]))
    yield from _place_insertions(P, [], [("for-empty", "for (;;)"), ("for-full", "for (" + NEW + " = 0; " + NEW + " < 3; " + NEW + "++)")],
                                 body="break ;")
    yield from _ctl_as_body(P, "for (;;)")


def _ctl_as_body(P, head):
    """a forbidden control structure as the brace-less body of an if / else / while: head replaces the body statement, the old
    body becomes its body"""
    for i in range(11, len(P.lines)):
        if P.kind[i] == "stmt" and P.kind[i - 1] in CONTROL and P.depth[i] == P.depth[i - 1] + 1:
            L = P.lines[:i] + [_tabs(P.depth[i]) + head, "\t" + P.lines[i]] + P.lines[i + 1:]
            yield Edit(P.with_lines(L), i + 1, ("place", "body-of-" + P.kind[i - 1], "d", P.depth[i]))


@op("S02", "FORBIDDEN_CS", "switch forbidden")
def s02(P):
    for i in range(11, len(P.lines)):
        if P.kind[i] in ("while", "if"):
            kw, lp, rp = _ctl(P, i)
            yield Edit(P.splice(P.toks[kw][4], P.toks[kw][5], "switch"), i + 1,
                       ("place", "instead-of-" + P.kind[i]) + P.lctx(i) + ("body", P.kind[i + 1]))
    yield from _place_insertions(P, [], [("switch", "switch (" + NEW + ")")], body="break ;")
    yield from _ctl_as_body(P, "switch (" + NEW + ")")


def _ins_ctx(P, j, d, f):
    return ("d", d, "prev", P.kind[j - 1], "next", P.kind[j], "f", f["idx"])


def _insert_stmt(P, text_of_depth):
    for j, d, f in P.inspoints:
        yield Edit(P.insert_before(j, [text_of_depth(d)]), j + 1, _ins_ctx(P, j, d, f))


@op("S03", "GOTO_FBIDDEN", "goto forbidden")
def s03(P):
    return _place_insertions(P, [("goto", "goto " + NEW + ";")], [])


@op("S04", "LABEL_FBIDDEN", "goto/labels forbidden")
def s04(P):
    for j, d, f in P.inspoints:
        for place, text in (("label", _tabs(d) + NEW + ":"), ("label-col0", NEW + ":")):
            yield Edit(P.insert_before(j, [text]), j + 1, ("place", place) + _ins_ctx(P, j, d, f))
    # a label in front of the body of a brace-less control structure
    for i in range(11, len(P.lines)):
        if P.kind[i] == "stmt" and P.kind[i - 1] in CONTROL and P.depth[i] == P.depth[i - 1] + 1:
            yield Edit(P.insert_before(i, [_tabs(P.depth[i]) + NEW + ":"]), i + 1,
                       ("place", "label-before-body-of-" + P.kind[i - 1], "d", P.depth[i]))


def _assigns(P):
    """(line, assignment operator token) of the assignment statements"""
    for i in range(11, len(P.lines)):
        if P.kind[i] == "stmt" and P.sub[i] == "assign":
            c = P.code_toks(i)
            d = 0
            for k in c:
                t = P.ty(k)
                if t in ("LPARENTHESIS", "LBRACKET"):
                    d += 1
                elif t in ("RPARENTHESIS", "RBRACKET"):
                    d -= 1
                elif d == 0 and t in ASSIGN_OPS:
                    yield i, k
                    break


TERN = NEW + " ? 1 : 0"
NEW2, NEW3 = "zq8", "zq7"

# one-line statements holding a ternary, one per statement kind a primary rule can match (and per position inside it)
TERN_STMTS = [
    ("call-arg", NEW2 + "(" + TERN + ");"),                              # bare call statement (IsFunctionCall)
    ("call-arg-second-paren", NEW2 + "(" + NEW3 + ", (" + TERN + "));"),
    ("call-nested-arg", NEW2 + "(" + NEW3 + "(" + TERN + "));"),
    ("call-member", NEW2 + "->" + NEW3 + "(" + TERN + ");"),
    ("call-pointer", "(*" + NEW2 + ")(" + TERN + ");"),
    ("call-index-arg", NEW2 + "(" + NEW3 + "[" + TERN + "]);"),
    ("assign-rhs", NEW2 + " = " + TERN + ";"),                           # IsAssignation
    ("assign-rhs-paren", NEW2 + " = (" + TERN + ");"),
    ("assign-call-arg", NEW2 + " = " + NEW3 + "(" + TERN + ");"),
    ("assign-compound", NEW2 + " += " + TERN + ";"),
    ("assign-deref", "*" + NEW2 + " = " + TERN + ";"),
    ("assign-lhs-index", NEW2 + "[" + TERN + "] = 0;"),
    ("postinc-index", NEW2 + "[" + TERN + "]++;"),
    ("preinc-index", "++" + NEW2 + "[" + TERN + "];"),
    ("return", "return (" + TERN + ");"),                                # IsExpressionStatement
    ("return-call-arg", "return (" + NEW2 + "(" + TERN + "));"),
    ("void-cast", "(void)(" + TERN + ");"),                              # (void) statements
    ("void-cast-call-arg", "(void)" + NEW2 + "(" + TERN + ");"),
    ("cast-stmt", "(int)" + NEW2 + "(" + TERN + ");"),                   # IsCast
    ("ternary-stmt", NEW + " ? " + NEW2 + "() : " + NEW3 + "();"),       # IsTernary
]
TERN_CTLS = [
    ("if-cond", "if (" + TERN + ")"),                                    # IsControlStatement
    ("if-cond-call-arg", "if (" + NEW2 + "(" + TERN + "))"),
    ("while-cond", "while (" + TERN + ")"),
    ("while-cond-cmp", "while (" + NEW2 + " < (" + TERN + "))"),
]


def _place_insertions(P, stmts, ctls, body=None):
    """every statement text at insertion points of the function bodies: in a block (between statements of every kind), as the
    brace-less body of an if / else / while, and (control lines) with a brace-less body of their own"""
    pts = P.inspoints
    for n, (place, text) in enumerate(stmts):
        for j, d, f in pts:
            yield Edit(P.insert_before(j, [_tabs(d) + text]), j + 1, ("place", place, "as", "stmt") + _ins_ctx(P, j, d, f))
        # as the body of a brace-less control structure: replaces the body statement
        for i in range(11, len(P.lines)):
            if P.kind[i] == "stmt" and P.kind[i - 1] in CONTROL and P.depth[i] == P.depth[i - 1] + 1:
                yield Edit(P.repl_line(i, _tabs(P.depth[i]) + text), i + 1,
                           ("place", place, "as", "body-of-" + P.kind[i - 1], "d", P.depth[i]))
    for n, (place, text) in enumerate(ctls):
        for j, d, f in pts:
            yield Edit(P.insert_before(j, [_tabs(d) + text, _tabs(d + 1) + (body or NEW2 + " = 0;")]), j + 1,
                       ("place", place, "as", "stmt") + _ins_ctx(P, j, d, f))


def _pp_line_idx(P):
    return [i for i in range(11, len(P.lines)) if P.kind[i] == "pp"]


@op("S05", "TERNARY_FBIDDEN", "ternaries forbidden")
def s05(P):
    # in place: the right-hand side of the assignments of the program
    for i, k in _assigns(P):
        c = P.code_toks(i)
        lo, hi = P.toks[k + 2][4], P.toks[c[-1]][4]
        yield Edit(P.splice(lo, hi, NEW + " ? " + P.src[lo:hi] + " : 0"), i + 1,
                   ("place", "assign-rhs-inplace") + P.lctx(i) + ("aop", P.ty(k), "rhs", P.ty(k + 2)))
    # in place: first argument / whole argument list of the bare call statements, return values, conditions
    for i in range(11, len(P.lines)):
        c = P.code_toks(i)
        if P.kind[i] == "stmt" and P.sub[i] in ("call", "retv", "void"):
            lp = next((k for k in c if P.ty(k) == "LPARENTHESIS" and not (P.sub[i] == "void" and k == c[0])), None)
            rp = P.pmatch.get(lp) if lp is not None else None
            if lp is None or rp is None:
                continue
            lo, hi = P.toks[lp][5], P.toks[rp][4]
            inner = P.src[lo:hi]
            first = inner.split(",")[0] if inner and "(" not in inner and "[" not in inner and '"' not in inner and "'" not in inner else None
            if inner == "":
                yield Edit(P.splice(lo, hi, TERN), i + 1, ("place", P.sub[i] + "-inplace", "args", 0) + P.lctx(i))
            elif first is not None:
                yield Edit(P.splice(lo, lo + len(first), NEW + " ? " + first + " : 0"), i + 1,
                           ("place", P.sub[i] + "-inplace", "args", inner.count(",") + 1) + P.lctx(i))
            else:
                yield Edit(P.splice(lo, lo, TERN + ", "), i + 1, ("place", P.sub[i] + "-inplace", "args", "front") + P.lctx(i))
        elif P.kind[i] in ("if", "elif", "while"):
            kw, lp, rp = _ctl(P, i)
            lo, hi = P.toks[lp][5], P.toks[rp][4]
            yield Edit(P.splice(lo, hi, NEW + " ? (" + P.src[lo:hi] + ") : 0"), i + 1, ("place", P.kind[i] + "-cond-inplace") + P.lctx(i))
        elif P.kind[i] in ("decl", "global", "field") and P.last_ty(i) == "SEMI_COLON" and "ASSIGN" not in P.types(i) \
                and "LPARENTHESIS" not in P.types(i):
            semi = P.ltoks[i][-1]
            lo = P.toks[semi][4]
            if P.kind[i] != "field":
                # an initialiser (allowed at file level and for static / const locals; reported as well where it is not)
                yield Edit(P.splice(lo, lo, " = " + TERN), i + 1, ("place", P.kind[i] + "-init") + P.lctx(i))
            if "LBRACKET" not in P.types(i):
                yield Edit(P.splice(lo, lo, "[" + NEW + " ? 1 : 2]"), i + 1, ("place", P.kind[i] + "-array-size") + P.lctx(i))
        elif P.kind[i] in ("fhead", "proto"):
            for pn, prm in enumerate(P._params(i)):
                if P.ty(prm[-1]) == "IDENTIFIER":
                    hi = P.toks[prm[-1]][5]
                    yield Edit(P.splice(hi, hi, "[" + NEW + " ? 1 : 2]"), i + 1, ("place", P.kind[i] + "-param-array-size", "pos", pn))
    # macro bodies
    for i in _pp_line_idx(P):
        L = P.lines[i]
        m = _re.match(r"^(#\s*define\s+[A-Z_0-9]+)(\s+)(\S.*)$", L)
        if m and "(" not in m.group(1):
            yield Edit(P.repl_line(i, m.group(1) + m.group(2) + "(" + NEW + " ? " + m.group(3) + " : 0)"), i + 1,
                       ("place", "macro-body") + P.lctx(i))
    # inserted statements of every kind, at every kind of position
    yield from _place_insertions(P, TERN_STMTS, TERN_CTLS)


@op("S06", "ASSIGN_IN_CONTROL", "no assignment in a control structure")
def s06(P):
    for i in range(11, len(P.lines)):
        if P.kind[i] in ("if", "elif", "while"):
            kw, lp, rp = _ctl(P, i)
            lo, hi = P.toks[lp][5], P.toks[rp][4]
            yield Edit(P.splice(lo, hi, "(" + NEW + " = " + P.src[lo:hi] + ")"), i + 1, P.lctx(i) + ("cond", P.ty(lp + 1)))


@op("S07", "TOO_MANY_INSTR", "one instruction per line")
def s07(P):
    for i in range(11, len(P.lines) - 1):
        if P.kind[i] in CONTROL and P.kind[i + 1] == "stmt" and P.depth[i + 1] == P.depth[i] + 1:
            L = P.lines[:i] + [P.lines[i] + " " + P.lines[i + 1].lstrip("\t")] + P.lines[i + 2:]
            yield Edit(P.with_lines(L), i + 1, P.lctx(i) + ("body", P.sub[i + 1]))


@op("S08", "TOO_MANY_INSTR", "one instruction per line")
def s08(P):
    for i in range(11, len(P.lines) - 1):
        if P.kind[i] == "stmt" and P.kind[i + 1] == "stmt" and P.depth[i] == P.depth[i + 1] \
                and P.kind[i - 1] not in CONTROL:
            L = P.lines[:i] + [P.lines[i] + " " + P.lines[i + 1].lstrip("\t")] + P.lines[i + 2:]
            yield Edit(P.with_lines(L), i + 1, P.lctx(i) + ("second", P.sub[i + 1]))


@op("S09", "MULT_ASSIGN_LINE", "no multiple assignment")
def s09(P):
    for i, k in _assigns(P):
        lo = P.toks[k + 2][4]
        yield Edit(P.splice(lo, lo, NEW + " = "), i + 1, P.lctx(i) + ("aop", P.ty(k), "rhs", P.ty(k + 2)))


@op("S10", "BRACE_SHOULD_EOL", "braces alone on their line")
def s10(P):
    for i in range(11, len(P.lines) - 1):
        if P.kind[i] in ("lbrace", "fopen") and P.kind[i + 1] in ("stmt", "if", "while"):
            L = P.lines[:i] + [P.lines[i] + " " + P.lines[i + 1].lstrip("\t")] + P.lines[i + 2:]
            yield Edit(P.with_lines(L), i + 1, P.lctx(i) + ("next", P.kind[i + 1], "sub", P.sub[i + 1]))


@op("S11", "RETURN_PARENTHESIS", "return value in parentheses")
def s11(P):
    for i in range(11, len(P.lines)):
        if P.kind[i] == "stmt" and P.sub[i] == "retv":
            c = P.code_toks(i)
            lp = c[2]
            rp = P.pmatch.get(lp)
            if P.ty(lp) != "LPARENTHESIS" or rp is None or rp != c[-2]:
                continue
            if P.ty(lp + 1) == "LPARENTHESIS" and P.pmatch.get(lp + 1) == rp - 1:
                continue                # `return ((e));`: dropping one pair leaves a conforming `return (e);`
            inner = P.src[P.toks[lp][5]:P.toks[rp][4]]
            yield Edit(P.splice(P.toks[lp][4], P.toks[rp][5], inner), i + 1, P.lctx(i) + ("first", P.ty(lp + 1)))


# ------------------------------------------------------------------------------------------- F: functions
def _heads(P, kinds=("fhead", "proto")):
    return [i for i in range(11, len(P.lines)) if P.kind[i] in kinds]


def _head_ctx(P, i):
    return ("k", P.kind[i], "np", len(P._params(i)), "static", "STATIC" in P.types(i), "ext", P.ext) + \
        (("f", P.fidx[i]) if P.fidx[i] is not None else ())


@op("F01", "NO_ARGS_VOID", "explicit void")
def f01(P):
    for i in _heads(P):
        c = P.ltoks[i]
        for pos, k in enumerate(c):
            if P.ty(k) == "LPARENTHESIS" and P.ty(k + 1) == "VOID" and P.ty(k + 2) == "RPARENTHESIS":
                yield Edit(P.splice(P.toks[k + 1][4], P.toks[k + 1][5], ""), i + 1, _head_ctx(P, i))
                break


@op("F02", "MISSING_IDENTIFIER", "parameters must be named")
def f02(P):
    for i in _heads(P):
        ps = P._params(i)
        for pn, p in enumerate(ps):
            if P.ty(p[-1]) != "IDENTIFIER" or len(p) < 2:
                continue
            lo = P.toks[p[-1]][4]
            if P.ty(p[-2]) == "SPACE":
                lo = P.toks[p[-2]][4]
            rest = [P.ty(k) for k in p[:-1] if P.ty(k) != "SPACE"]
            yield Edit(P.splice(lo, P.toks[p[-1]][5], ""), i + 1,
                       _head_ctx(P, i) + ("pos", pn, "ptr", rest.count("MULT"), "lone", rest == ["IDENTIFIER"],
                                          "nextp", P.ty(ps[pn + 1][0]) if pn + 1 < len(ps) else None))


@op("F03", "TOO_MANY_ARGS", "at most 4 named parameters")
def f03(P):
    for i in _heads(P):
        ps = P._params(i)
        if len(ps) == 4:
            hi = P.toks[ps[-1][-1]][5]
            yield Edit(P.splice(hi, hi, ", int " + NEW), i + 1, _head_ctx(P, i))


@op("F04", "TOO_MANY_FUNCS", "at most 5 functions", ext="c")
def f04(P):
    if len(P.funcs) == 5:
        n = len(P.lines)
        yield Edit(P.src + "\nint\t" + NEW + "(void)\n{\n\treturn (0);\n}\n", n + 2, ("nfunc", 5))


@op("F05", "TOO_MANY_LINES", "at most 25 lines")
def f05(P):
    for f in P.funcs:
        cnt = f["close"] - f["open"] - 1
        pad = 26 - cnt
        if pad < 1:
            continue
        at = f["close"] - 1           # before the last body line (the final return)
        yield Edit(P.insert_before(at, ["\t" + NEW + "();"] * pad), f["close"] + pad + 1,
                   ("lines", cnt, "pad", pad, "f", f["idx"], "ndecl", len(f["decls"])))


def _fname_tab(P, i):
    """(tab tokens between return type and name, name token) of a header/prototype line"""
    c = P.ltoks[i]
    lp = next(k for k in c if P.ty(k) == "LPARENTHESIS")
    name = lp - 1
    tabs = [k for k in c if k < name and P.ty(k) == "TAB"]
    return tabs, name


@op("F06", "SPACE_BEFORE_FUNC", "single tab between type and name")
def f06(P):
    for i in _heads(P, ("fhead",)):
        tabs, name = _fname_tab(P, i)
        yield Edit(P.splice(P.toks[tabs[0]][4], P.toks[tabs[-1]][5], " "), i + 1, _head_ctx(P, i) + ("ptr", P.ty(name - 1) == "MULT"))


@op("F07", "TOO_MANY_TABS_FUNC", "single tab between type and name")
def f07(P):
    for i in _heads(P, ("fhead",)):
        tabs, name = _fname_tab(P, i)
        hi = P.toks[tabs[-1]][5]
        yield Edit(P.splice(hi, hi, "\t"), i + 1, _head_ctx(P, i) + ("ptr", P.ty(name - 1) == "MULT"))


@op("F08", "BRACE_NEWLINE", "braces alone on their line")
def f08(P):
    for f in P.funcs:
        h = f["head"]
        L = P.lines[:h] + [P.lines[h] + " {"] + P.lines[h + 2:]
        yield Edit(P.with_lines(L), h + 1, _head_ctx(P, h))


@op("F09", "MISALIGNED_FUNC_DECL", "names aligned", ext="h")
def f09(P):
    protos = _heads(P, ("proto",))
    for n, i in enumerate(protos):
        if n == 0:
            continue
        tabs, name = _fname_tab(P, i)
        hi = P.toks[tabs[-1]][5]
        yield Edit(P.splice(hi, hi, "\t"), i + 1, _head_ctx(P, i) + ("which", n, "ntab", len(tabs), "ptr", P.ty(name - 1) == "MULT"))


@op("F10", "SPACE_REPLACE_TAB", "names aligned", ext="h")
def f10(P):
    for n, i in enumerate(_heads(P, ("proto",))):
        tabs, name = _fname_tab(P, i)
        yield Edit(P.splice(P.toks[tabs[0]][4], P.toks[tabs[-1]][5], " "), i + 1,
                   _head_ctx(P, i) + ("which", n, "ntab", len(tabs), "ptr", P.ty(name - 1) == "MULT"))


# ------------------------------------------------------------------------------------------- N: names
def _cap(P, k):
    """capitalise the first letter of identifier token k"""
    t = P.toks[k]
    s = P.src[t[4]:t[5]]
    for n, ch in enumerate(s):
        if ch.isalpha() and ch.islower():
            return P.splice(t[4], t[5], s[:n] + ch.upper() + s[n + 1:])
    return None


@op("N01", "FORBIDDEN_CHAR_NAME", "identifiers lower-case snake")
def n01(P):
    for i in _heads(P):
        tabs, name = _fname_tab(P, i)
        s = _cap(P, name)
        if s:
            yield Edit(s, i + 1, _head_ctx(P, i))


@op("N02", "FORBIDDEN_CHAR_NAME", "identifiers lower-case snake")
def n02(P):
    for f, n, i, dp in _local_decls(P):
        s = _cap(P, dp[2])
        if s:
            yield Edit(s, i + 1, ("where", "local") + _decl_ctx(P, f, n, i, dp))
    for i in _heads(P):
        for pn, p in enumerate(P._params(i)):
            if P.ty(p[-1]) == "IDENTIFIER" and len(p) > 1:
                s = _cap(P, p[-1])
                if s:
                    yield Edit(s, i + 1, ("where", "param-" + P.kind[i], "pos", pn))
    for i in range(11, len(P.lines)):
        if P.kind[i] == "field" and P.last_ty(i) == "SEMI_COLON":
            dp = P.decl_parts(i)
            s = _cap(P, dp[2]) if dp else None
            if s:
                yield Edit(s, i + 1, ("where", "field"))


@op("N03", "GLOBAL_VAR_NAMING", "global names start with g_")
def n03(P):
    for i in range(11, len(P.lines)):
        if P.kind[i] == "global":
            dp = P.decl_parts(i)
            if dp and P.val(dp[2]).startswith("g_"):
                t = P.toks[dp[2]]
                yield Edit(P.splice(t[4], t[4] + 2, ""), i + 1, ("init", "ASSIGN" in P.types(i), "static", "STATIC" in P.types(i)))


@op("N04", "USER_DEFINED_TYPEDEF", "typedef names start with t_", ext="h")
def n04(P):
    for td in P.typedefs:
        i = td["close"]
        k = next((k for k in P.ltoks[i] if P.ty(k) == "IDENTIFIER"), None)
        if k is not None and P.val(k).startswith("t_"):
            t = P.toks[k]
            yield Edit(P.splice(t[4], t[4] + 2, ""), i + 1, ("what", td["what"]))


_PLAIN = {"struct": ("s_", ["struct s_%s" % NEW, "{", "\tint\ta;", "};", ""]),
          "union": ("u_", ["union u_%s" % NEW, "{", "\tint\ta;", "};", ""]),
          "enum": ("e_", ["enum e_%s" % NEW, "{", "\tZQA,", "\tZQB", "};", ""])}


def _tag(P, what):
    pre = _PLAIN[what][0]
    for td in P.typedefs:
        if td["what"] != what:
            continue
        i = td["head"]
        k = next((k for k in P.ltoks[i] if P.ty(k) == "IDENTIFIER"), None)
        if k is not None and P.val(k).startswith(pre):
            t = P.toks[k]
            yield Edit(P.splice(t[4], t[4] + 2, ""), i + 1, ("site", "typedef", "what", what))
    # plain tag: the family has none, so a conforming plain declaration is added before the first prototype
    at = next((i for i in range(11, len(P.lines)) if P.kind[i] == "proto"), None)
    if at is not None:
        new = _PLAIN[what][1]
        ext = P.insert_before(at, new)
        r = impl.analyse(ext, P.name)
        if r.get("kind") == "ok" and r.get("status") == "OK":
            bad = [new[0].replace(" " + pre, " ")] + new[1:]
            yield Edit(P.insert_before(at, bad), at + 1, ("site", "plain", "what", what, "extended", True))


@op("N05", "STRUCT_TYPE_NAMING", "tag prefixes", ext="h")
def n05(P):
    return _tag(P, "struct")


@op("N06", "UNION_TYPE_NAMING", "tag prefixes", ext="h")
def n06(P):
    return _tag(P, "union")


@op("N07", "ENUM_TYPE_NAMING", "tag prefixes", ext="h")
def n07(P):
    return _tag(P, "enum")


# ------------------------------------------------------------------------------------------- O: operators
def _expr_lines(P):
    return [i for i in range(11, len(P.lines)) if P.kind[i] in EXPR_KINDS or (P.kind[i] == "global" and "ASSIGN" in P.types(i))]


def _binops(P):
    """(line, token) of the binary / assignment operators: an operator token with a space on both sides"""
    for i in _expr_lines(P):
        c = P.code_toks(i)
        for pos, k in enumerate(c):
            t = P.ty(k)
            if (t in BIN_OPS or t in ASSIGN_OPS) and 1 < pos < len(c) - 2 and P.ty(k - 1) == "SPACE" and P.ty(k + 1) == "SPACE":
                # `(char *)x`, `sizeof(char *)`: the star of a type is followed by ')' - not matched here
                yield i, k


def _op_ctx(P, i, k):
    # lonepar: the left operand ends in `(identifier)` - a parenthesised name or a one-argument call `f(x)`
    lone = P.ty(k - 2) == "RPARENTHESIS" and P.pmatch.get(k - 2) == k - 4 and P.ty(k - 3) == "IDENTIFIER"
    return P.lctx(i) + ("op", P.ty(k), "left", P.ty(k - 2), "right", P.ty(k + 2), "pd", P.pdepth.get(k, 0), "lonepar", lone,
                        "lpar", P.pkind.get(k - 2) if P.ty(k - 2) == "RPARENTHESIS" else None)


def _hex_e(s):
    return s[:2] in ("0x", "0X") and ("e" in s[2:] or "E" in s[2:])


@op("O01", "SPC_BFR_OPERATOR", "operators separated by one space")
def o01(P):
    for i, k in _binops(P):
        if P.ty(k - 2) in ("IDENTIFIER", "CONSTANT", "CHAR_CONST", "RPARENTHESIS", "RBRACKET"):
            if P.ty(k) in ("PLUS", "MINUS") and P.ty(k - 2) == "CONSTANT" and _hex_e(P.text(k - 2)):
                continue                # `0x9elu+ x`: the lexer takes `e...+` for an exponent -> INVALID_SUFFIX (a C11 matter)
            yield Edit(P.splice(P.toks[k - 1][4], P.toks[k - 1][5], ""), i + 1, _op_ctx(P, i, k))


@op("O02", "SPC_AFTER_OPERATOR", "operators separated by one space")
def o02(P):
    for i, k in _binops(P):
        r = P.ty(k + 2)
        if r == "IDENTIFIER" or (r in ("CONSTANT", "CHAR_CONST") and P.ty(k) not in ("PLUS", "MINUS")):
            yield Edit(P.splice(P.toks[k + 1][4], P.toks[k + 1][5], ""), i + 1, _op_ctx(P, i, k))


def _commas(P):
    for i in range(11, len(P.lines)):
        # (tool rule) domain: not applied to the commas of an enumerator list
        if P.kind[i] not in EXPR_KINDS + ("fhead", "proto"):
            continue
        for k in P.code_toks(i):
            if P.ty(k) == "COMMA":
                yield i, k


def _comma_ctx(P, i, k):
    return P.lctx(i) + ("prev", P.ty(k - 1), "next", P.ty(k + 2) if P.ty(k + 1) == "SPACE" else P.ty(k + 1))


@op("O03", "SPC_AFTER_OPERATOR", "comma followed by a space")
def o03(P):
    for i, k in _commas(P):
        if P.ty(k + 1) == "SPACE" and P.ty(k + 2) in ("IDENTIFIER", "CONSTANT", "STRING", "CHAR_CONST"):
            yield Edit(P.splice(P.toks[k + 1][4], P.toks[k + 1][5], ""), i + 1, _comma_ctx(P, i, k))


@op("O04", "NO_SPC_BFR_OPR", "(tool rule)")
def o04(P):
    for i, k in _commas(P):
        lo = P.toks[k][4]
        yield Edit(P.splice(lo, lo, " "), i + 1, _comma_ctx(P, i, k))


def _body_parens(P, which):
    for i in range(11, len(P.lines)):
        if P.kind[i] not in EXPR_KINDS:
            continue
        c = P.code_toks(i)
        for pos, k in enumerate(c):
            if P.ty(k) == which and k in P.pkind:
                yield i, k, pos


@op("O05", "NO_SPC_AFR_PAR", "(tool rule)")
def o05(P):
    for i, k, pos in _body_parens(P, "LPARENTHESIS"):
        if pos == 0 or P.ty(k + 1) in ("LPARENTHESIS", "RPARENTHESIS"):
            continue                    # `f( )` is reported as SPC_AFTER_PAR / NO_SPC_BFR_PAR (tool rule, neighbouring codes)
        hi = P.toks[k][5]
        yield Edit(P.splice(hi, hi, " "), i + 1, P.lctx(i) + ("par", P.pkind[k], "prev", P.ty(k - 1), "next", P.ty(k + 1)))


@op("O06", "NO_SPC_BFR_PAR", "(tool rule)")
def o06(P):
    for i, k, pos in _body_parens(P, "RPARENTHESIS"):
        if P.pkind[k] in ("cast", "void", "sizeof_type"):
            continue
        if P.ty(k - 1) in ("CHAR_CONST", "STRING", "LPARENTHESIS"):
            continue                    # (tool rule) domain: `'a' )`, `"s" )` are not examined; `( )` is O05's neighbour
        lo = P.toks[k][4]
        yield Edit(P.splice(lo, lo, " "), i + 1, P.lctx(i) + ("par", P.pkind[k], "prev", P.ty(k - 1), "next", P.ty(k + 1)))


@op("O07", "SPACE_AFTER_KW", "keyword followed by a space")
def o07(P):
    for i in range(11, len(P.lines)):
        if P.kind[i] not in EXPR_KINDS:
            continue
        for k in P.code_toks(i):
            if P.ty(k) in ("IF", "WHILE", "RETURN", "BREAK", "CONTINUE") and P.ty(k + 1) == "SPACE":
                yield Edit(P.splice(P.toks[k + 1][4], P.toks[k + 1][5], ""), i + 1,
                           P.lctx(i) + ("kw", P.ty(k), "next", P.ty(k + 2)))


def _unops(P):
    for i in range(11, len(P.lines)):
        if P.kind[i] not in EXPR_KINDS:
            continue
        c = P.code_toks(i)
        for pos, k in enumerate(c):
            t = P.ty(k)
            if t not in ("MINUS", "PLUS", "BWISE_NOT") or P.ty(k + 1) not in ("IDENTIFIER", "CONSTANT"):
                continue                # (tool rule) domain: `* p` gives SPC_AFTER_POINTER, `! x`, `& x`, `- (x)` nothing
            prev = P.ty(k - 1) if pos > 0 else None
            if prev not in ("SPACE", "LPARENTHESIS", "LBRACKET"):
                continue                # after another unary operator (`!~ x`) the tool says nothing
            if prev == "SPACE" and pos > 1 and P.ty(k - 2) in ("AND", "OR"):
                continue                # `c && + 1`: nothing either (the neighbourhood of DESIGN 4.1's family K2)
            yield i, k, prev


@op("O08", "SPC_AFTER_OPERATOR", "(tool rule)")
def o08(P):
    for i, k, prev in _unops(P):
        hi = P.toks[k][5]
        pp = P.ty(k - 2) if prev == "SPACE" else None
        par = P.pkind.get(k - 1) if prev in ("LPARENTHESIS", "RPARENTHESIS") else None
        yield Edit(P.splice(hi, hi, " "), i + 1,
                   P.lctx(i) + ("op", P.ty(k), "prev", prev, "pprev", pp, "par", par, "next", P.ty(k + 1)))


@op("O09", "EOL_OPERATOR", "operators at the beginning of the new line")
def o09(P):
    cands = []
    for i, a in _assigns(P):
        c = P.code_toks(i)
        d = 0
        for k in c:
            t = P.ty(k)
            if k <= a:
                continue
            if t in ("LPARENTHESIS", "LBRACKET"):
                d += 1
            elif t in ("RPARENTHESIS", "RBRACKET"):
                d -= 1
            elif d == 0 and t in BIN_OPS and P.ty(k - 1) == "SPACE" and P.ty(k + 1) == "SPACE":
                cands.append((i, a, k))
    for i, a, k in _spread(cands, 8):
        ind = _tabs(P.depth[i] + 1)
        t = P.toks[k]
        good = P.src[:P.toks[k - 1][4]] + "\n" + ind + P.src[t[4]:]
        r = impl.analyse(good, P.name)
        if r.get("kind") != "ok" or r.get("status") != "OK":
            continue
        bad = P.src[:t[5]] + "\n" + ind + P.src[P.toks[k + 1][5]:]
        yield Edit(bad, i + 1, P.lctx(i) + ("op", P.ty(k), "aop", P.ty(a), "left", P.ty(k - 2), "right", P.ty(k + 2),
                                            "constructed", True))


# ------------------------------------------------------------------------------------------- K: comments
@op("K01", "WRONG_SCOPE_COMMENT", "no comments in function bodies")
def k01(P):
    return _insert_stmt(P, lambda d: _tabs(d) + "// x")


@op("K02", "WRONG_SCOPE_COMMENT", "no comments in function bodies")
def k02(P):
    return _insert_stmt(P, lambda d: _tabs(d) + "/* x */")


@op("K03", "COMMENT_ON_INSTR", "comments at end of line or on their own line")
def k03(P):
    for i, k, a, b in _sep_spaces(P):
        hi = P.toks[k][5]
        if P.ty(a) in ("IF", "WHILE"):
            continue                    # `if /* x */ (c)`: the tool stops with "Unrecognized line" (a C05 matter, not a miss)
        yield Edit(P.splice(hi, hi, "/* x */ "), i + 1, P.lctx(i) + ("prev", P.ty(a), "next", P.ty(b)))


# ------------------------------------------------------------------------------------------- P: preprocessor
def _pp(P, i):
    """(hash token, directive-name token, rest tokens after the separating space) of a directive line"""
    c = P.ltoks[i]
    name = next((k for k in c if P.ty(k) == "IDENTIFIER"), None)
    rest = [k for k in c if name is not None and k > name]
    return c[0], name, rest


def _pp_name(P, i):
    h, name, rest = _pp(P, i)
    return P.val(name) if name is not None else None


def _pp_lines(P, names=None):
    for i in range(11, len(P.lines)):
        if P.kind[i] == "pp":
            h, name, rest = _pp(P, i)
            if name is not None and (names is None or P.val(name) in names):
                yield i, h, name, rest


def _pp_ctx(P, i, name, rest):
    nonsp = [k for k in rest if P.ty(k) != "SPACE"]
    return ("dir", P.val(name), "ext", P.ext, "arg", P.ty(nonsp[1]) if len(nonsp) > 1 else (P.ty(nonsp[0]) if nonsp else None))


def _valued_defines(P):
    for i, h, name, rest in _pp_lines(P, ("define",)):
        nonsp = [k for k in rest if P.ty(k) != "SPACE"]
        if len(nonsp) >= 2 and P.ty(nonsp[0]) == "IDENTIFIER":
            yield i, h, name, rest, nonsp


@op("P01", "MACRO_NAME_CAPITAL", "macro names upper-case")
def p01(P):
    for i, h, name, rest, nonsp in _valued_defines(P):
        t = P.toks[nonsp[0]]
        s = P.src[t[4]:t[5]]
        if s.lower() != s and s.lower() not in family.KW:       # `#define do 1` is a parse error, not a naming matter
            yield Edit(P.splice(t[4], t[5], s.lower()), i + 1, _pp_ctx(P, i, name, rest))


@op("P02", "MACRO_FUNC_FORBIDDEN", "(tool rule: constants only)")
def p02(P):
    for i, h, name, rest, nonsp in _valued_defines(P):
        hi = P.toks[nonsp[0]][5]
        yield Edit(P.splice(hi, hi, "(x)"), i + 1, _pp_ctx(P, i, name, rest))


@op("P03", "PREPROC_CONSTANT", "defines only for constants")
def p03(P):
    for i, h, name, rest, nonsp in _valued_defines(P):
        yield Edit(P.splice(P.toks[nonsp[1]][4], P.toks[nonsp[-1]][5], "1 + 2"), i + 1, _pp_ctx(P, i, name, rest))


@op("P04", "CONSECUTIVE_WS", "(tool rule)")
def p04(P):
    for i, h, name, rest in _pp_lines(P, ("define", "include")):
        if rest and P.ty(rest[0]) == "SPACE":
            lo = P.toks[rest[0]][4]
            yield Edit(P.splice(lo, lo, " "), i + 1, _pp_ctx(P, i, name, rest))


@op("P05", "TAB_REPLACE_SPACE", "(tool rule)")
def p05(P):
    for i, h, name, rest in _pp_lines(P, ("define", "include")):
        if rest and P.ty(rest[0]) == "SPACE":
            yield Edit(P.splice(P.toks[rest[0]][4], P.toks[rest[0]][5], "\t"), i + 1, _pp_ctx(P, i, name, rest))


@op("P06", "PREPROC_NO_SPACE", "(tool rule)")
def p06(P):
    for i, h, name, rest in _pp_lines(P, ("include",)):
        if rest and P.ty(rest[0]) == "SPACE":
            yield Edit(P.splice(P.toks[rest[0]][4], P.toks[rest[0]][5], ""), i + 1, _pp_ctx(P, i, name, rest))


@op("P07", "INCLUDE_HEADER_ONLY", "no .c includes")
def p07(P):
    for i, h, name, rest in _pp_lines(P, ("include",)):
        L = P.lines[i]
        if L.endswith('.h"') or L.endswith(".h>"):
            yield Edit(P.repl_line(i, L[:-2] + "c" + L[-1]), i + 1, _pp_ctx(P, i, name, rest))


@op("P08", "INCLUDE_START_FILE", "includes at the beginning", ext="c")
def p08(P):
    if not P.funcs:
        return
    e = P.funcs[0]["close"]
    for i, h, name, rest in _pp_lines(P, ("include",)):
        if i > e:
            continue
        L = P.lines[:i] + P.lines[i + 1:e + 1] + ["", P.lines[i]] + P.lines[e + 1:]
        yield Edit(P.with_lines(L), e + 2, _pp_ctx(P, i, name, rest) + ("last", e + 1 == len(P.lines)))


@op("P09", "PREPROC_START_LINE", "(tool rule)")
def p09(P):
    for i, h, name, rest in _pp_lines(P):
        yield Edit(P.repl_line(i, " " + P.lines[i]), i + 1, _pp_ctx(P, i, name, rest))


@op("P10", "TOO_MANY_WS", "directive indentation")
def p10(P):
    for i, h, name, rest in _pp_lines(P):
        if name == h + 1:
            hi = P.toks[h][5]
            yield Edit(P.splice(hi, hi, " "), i + 1, _pp_ctx(P, i, name, rest))


@op("P11", "PREPROC_BAD_INDENT", "indent directives inside #if blocks", ext="h")
def p11(P):
    for i, h, name, rest in _pp_lines(P):
        if name == h + 2 and P.ty(h + 1) == "SPACE":
            yield Edit(P.splice(P.toks[h + 1][4], P.toks[h + 1][5], ""), i + 1, _pp_ctx(P, i, name, rest))


@op("P12", "PREPOC_ONLY_GLOBAL", "preprocessor only at global scope")
def p12(P):
    return _insert_stmt(P, lambda d: "#define ZQ9 1")


# ------------------------------------------------------------------------------------------- T, L, H
def _t_insert(P, new, off=0):
    if P.funcs:
        at = P.funcs[0]["head"]
        yield Edit(P.insert_before(at, new + [""]), at + 1 + off, ("before", "func", "prev", P.kind[at - 2]))


@op("T01", "FORBIDDEN_STRUCT", "no structure declaration in a .c file", ext="c")
def t01(P):
    return _t_insert(P, ["struct s_" + NEW, "{", "\tint\ta;", "};"])


@op("T02", "FORBIDDEN_UNION", "no structure declaration in a .c file", ext="c")
def t02(P):
    return _t_insert(P, ["union u_" + NEW, "{", "\tint\ta;", "};"])


@op("T03", "FORBIDDEN_ENUM", "no structure declaration in a .c file", ext="c")
def t03(P):
    return _t_insert(P, ["enum e_" + NEW, "{", "\tZQA,", "\tZQB", "};"])


@op("T04", "FORBIDDEN_TYPEDEF", "no structure declaration in a .c file", ext="c")
def t04(P):
    return _t_insert(P, ["typedef int\tt_" + NEW + ";"])


def _width(s):
    return len(s.expandtabs(4))


@op("L01", "LINE_TOO_LONG", "80 columns")
def l01(P):
    for i in range(11, len(P.lines)):
        if P.kind[i] not in EXPR_KINDS + ("fhead", "proto"):
            continue
        c = P.code_toks(i)
        if any(P.ty(k) == "TAB" for k in c) and P.kind[i] in EXPR_KINDS:
            continue
        ids = [k for k in c if P.ty(k) == "IDENTIFIER"]
        if P.kind[i] in ("fhead", "proto"):
            lp = next(k for k in c if P.ty(k) == "LPARENTHESIS")
            ids = [k for k in ids if k > lp]          # a parameter name: the tab before the function name stays put
        if not ids:
            continue
        k = ids[-1]
        target = 81 + (i % 6)
        add = target - _width(P.lines[i])
        if add <= 0:
            continue
        s = P.text(k)
        fill = "Q" if s.upper() == s and any(ch.isalpha() for ch in s) else "q"
        hi = P.toks[k][5]
        yield Edit(P.splice(hi, hi, fill * add), i + 1, P.lctx(i) + ("to", target, "macro", fill == "Q"))


@op("H01", "INVALID_HEADER", "file begins with the 42 header")
def h01(P):
    L = P.lines
    if len(L) < 12 or P.kind[0] != "hdr":
        return
    # the tool reports a malformed header where the comment block ends: on the first line after it
    for k in range(11):                                   # Hm6: line k removed
        yield Edit(P.with_lines(L[:k] + L[k + 1:]), 11, ("mut", "del-line", "k", k + 1))
    for k in (0, 10):                                     # Hm7: frame line with 73 / 75 stars
        yield Edit(P.with_lines(L[:k] + [L[k].replace("* */", " */", 1)] + L[k + 1:]), 12, ("mut", "73-stars", "k", k + 1))
        yield Edit(P.with_lines(L[:k] + [L[k].replace("* */", "** */", 1)] + L[k + 1:]), 12, ("mut", "75-stars", "k", k + 1))
        yield Edit(P.with_lines(L[:k] + [L[k].replace("/* *", "/* +", 1)] + L[k + 1:]), 12, ("mut", "border-char", "k", k + 1))
    for k, w in ((5, "By:"), (7, "Created:"), (8, "Updated:")):      # Hm8: keyword removed / misspelled
        if w in L[k]:
            yield Edit(P.with_lines(L[:k] + [L[k].replace(w, " " * len(w), 1)] + L[k + 1:]), 12, ("mut", "kw-removed", "k", k + 1))
            yield Edit(P.with_lines(L[:k] + [L[k].replace(w, w[0].lower() + w[1:], 1)] + L[k + 1:]), 12, ("mut", "kw-misspelled", "k", k + 1))
    yield Edit(P.with_lines(["// " + x[3:] for x in L[:11]] + L[11:]), 1, ("mut", "line-comments"))       # Hm4


# ------------------------------------------------------------------------------------------- calibration results
# Site conditions that were narrowed against the pinned tree WITHOUT a Norm sentence being missed (the tool reports
# the edit under a neighbouring code, or the row is a "(tool rule)" whose domain the catalogue follows):
REFINEMENTS = OrderedDict([
    ("W11", "only after a function or a global; after a preprocessor line the same edit is W17's and the tool prints NL_AFTER_PREPROC on that line"),
    ("S11", "not when the returned expression is itself fully parenthesised: `return ((e));` minus one pair is the conforming `return (e);`"),
    ("O01", "left operand ending in IDENTIFIER, CONSTANT, CHAR_CONST, `)` or `]` (a character constant counts as a constant; it hits); "
            "not a hex constant containing the digit e before a `+`/`-` (`0X99elu+ pt`: the lexer reads an exponent, INVALID_SUFFIX on the line)"),
    ("O02", "right operand starting with IDENTIFIER, or CONSTANT/CHAR_CONST when the operator is not +/- (table text; `x =!y`, `a +4`, `a -(b)`, `a %=(b)` are outside: nothing / SPC_BFR_PAR)"),
    ("O04", "(tool rule) commas of statements, control lines, function headers and prototypes; the commas of an enumerator list (`A ,`) are not examined"),
    ("O05", "(tool rule) additionally not followed by `)`: `f( )` gives SPC_AFTER_PAR + NO_SPC_BFR_PAR"),
    ("O06", "(tool rule) additionally the token before the `)` is not a character constant, a string literal or `(`: `'a' )`, `\"s\" )` are not examined"),
    ("O08", "(tool rule) unary `-`, `+`, `~` whose operand starts with an identifier or a constant; `* p` gives SPC_AFTER_POINTER, `! x`, `& x`, `- (x)` nothing; the operator follows a space, `(` or `[` (`!~ x` nothing) and not `&&`/`||` (`c && + 1` nothing)"),
    ("K03", "not between `if`/`while` and its `(`: `if /* x */ (c)` ends in CParsingError 'Unrecognized line' (no diagnostics at all)"),
    ("P01", "defines that have a value (the include guard's define is left alone: another rule owns it); not when the lower-cased name is a C keyword (`#define do 1`: CParsingError)"),
    ("P06", "include lines only (`#defineX 1` would change the directive, not its spacing)"),
    ("H01", "expected line = first line after the leading comment block (where the tool anchors INVALID_HEADER), line 1 for the `//` form"),
])

# Genuine misses: a Norm sentence is broken, the rule exists, the expected code is not printed on the line.
# Over 200 (seed 1) + 220 (seed 2) + 300 (seed 3) programs (all operators) and 2500 programs (O01/O02) every site
# matching a predicate missed and no other site missed.
KNOWN_PREDICATES = OrderedDict([
    ("C02-W01-preproc-trailing-ws", "W01/W02 on a preprocessor line (first token `#`): nothing is printed"),
    ("C02-W02-trailing-tab", "W02 on a non-preprocessor line that is not a function header and whose last token is not `{`/`}`: "
                             "nothing after declarations, globals, prototypes, struct fields, `}\tt_x;`; TAB_INSTEAD_SPC (or TAB_REPLACE_SPACE "
                             "on `typedef struct s_x`) after statements and control lines"),
    ("C02-W05-single-token-line", "W05 on a line holding exactly one token after its indentation (`{`, `}`, `else`, a last enumerator): "
                                  "SPACE_EMPTY_LINE + TOO_FEW_TAB instead of SPACE_REPLACE_TAB"),
    ("C02-N05-typedef-tag", "N05/N06/N07 at the tag of a `typedef struct|union|enum tag {...} t_x;`: nothing is printed"),
    ("C02-O01-paren-ident-sign", "O01/O02 at a binary `+`/`-` whose left operand ends in `(identifier)` (a parenthesised name or a "
                                 "one-argument call, not sizeof) in a statement directly in the function's block (depth 1): "
                                 "`f(ab)+ cd`, `f(ab) +cd`, `(ab)- cd` - nothing is printed; one block deeper it is reported"),
    ("C02-N01-prototype-name", "N01 at the function name of a prototype: nothing is printed"),
    ("C02-N02-parameter-name", "N02 at a parameter name (function header or prototype): nothing is printed"),
    ("C02-F02-typedef-name-type", "F02 when the parameter's type is a single identifier (`size_t`) and the next parameter's type starts "
                                  "with an identifier too: `f(size_t, size_t b)` - nothing is printed"),
])


# ------------------------------------------------------------------------------------------- known misses
def _cget(ctx, key, default=None):
    for n in range(0, len(ctx) - 1, 2):
        if ctx[n] == key:
            return ctx[n + 1]
    return default


import re as _re
_CAST_HEAD = _re.compile(r"\(\s*[A-Za-z_]\w*\s*\*+\s*\)")
_KW_TYPES = {"int", "char", "short", "long", "float", "double", "void", "unsigned", "signed", "struct", "union", "enum", "const"}


def _paren_group_starts_with_typedef_ptr_cast(line):
    """the line has a `)` directly followed by a binary operator character (the O01 site) and the `(` matching it is directly
    followed by a cast `(name *)` to a pointer to a typedef name"""
    for m in _re.finditer(r"\)(?=[<>=!&|^%/*+\-])(?!->)", line):
        depth, k = 0, m.start()
        while k >= 0:
            if line[k] == ")":
                depth += 1
            elif line[k] == "(":
                depth -= 1
                if depth == 0:
                    break
            k -= 1
        if k < 0:
            continue
        h = _CAST_HEAD.match(line, k + 1)
        if h and line[k + 2:h.end()].strip(" *)").strip() not in _KW_TYPES:
            return True
    return False


def _line_of(edit):
    ls = edit.src.split("\n")
    return ls[edit.line - 1] if 0 < edit.line <= len(ls) else ""


def known_miss(op_id, edit, P):
    """finding id when the site matches the (narrow) predicate of a genuine miss of the pinned tree, else None"""
    c = edit.ctx

    def g(key):
        return _cget(c, key)
    if op_id in ("W01", "W02") and g("k") == "pp":
        # CheckSpacing leaves preprocessor lines alone and no preprocessor check looks at the end of the line
        return "C02-W01-preproc-trailing-ws"
    if op_id == "W02" and g("k") != "fhead" and g("last") not in ("LBRACE", "RBRACE"):
        # a trailing tab is only reported after a brace (CheckBrace) and on a function header (CheckFuncDeclaration)
        return "C02-W02-trailing-tab"
    if op_id == "W05" and g("ntok") == 1:
        # CheckSpacing: spaces at column 1, one token, NEWLINE -> SPACE_EMPTY_LINE (the line is not empty)
        return "C02-W05-single-token-line"
    if op_id in ("N05", "N06", "N07") and g("site") == "typedef":
        return "C02-N05-typedef-tag"
    if op_id in ("O01", "O02") and g("op") in ("PLUS", "MINUS") and g("lonepar") is True and g("d") == 1 \
            and g("lpar") in ("call", "group"):
        # `(ab)+ cd`, `f(ab)+ cd`, `f(ab) +cd` directly in the function's block (Context.parenthesis_contain asks for
        # scope.name == "Function"): `(identifier)` is taken for a cast and the sign for a unary operator
        return "C02-O01-paren-ident-sign"
    if op_id == "O01" and g("left") == "RPARENTHESIS" and _paren_group_starts_with_typedef_ptr_cast(_line_of(edit)):
        # `fn((t_list *)x)< y`, `((t_list *)x)< y`: the left operand ends in `)` and the matching `(` is directly followed by
        # a cast to a pointer to a typedef name; SPC_AFTER_PAR (or nothing for + - &) is printed instead of SPC_BFR_OPERATOR
        return "C02-O01-typedef-pointer-cast"
    if op_id == "N01" and g("k") == "proto":
        # CheckIdentifierName looks at function names only after IsFuncDeclaration, never after IsFuncPrototype
        return "C02-N01-prototype-name"
    if op_id == "N02" and str(g("where")).startswith("param-"):
        # parameter names never reach scope.vars_name
        return "C02-N02-parameter-name"
    if op_id == "F02" and g("lone") is True and g("nextp") == "IDENTIFIER":
        # `f(size_t, size_t b)` / `f(int a, size_t, t_list *b)`: an unnamed parameter whose type is a single identifier,
        # followed by a parameter whose type also starts with an identifier, is not reported (any other follower: reported)
        return "C02-F02-typedef-name-type"
    return None


# ------------------------------------------------------------------------------------------- calibration
def _strip_f(ctx):
    out = ()
    for n in range(0, len(ctx) - 1, 2):
        if ctx[n] != "f":
            out += (ctx[n], ctx[n + 1])
    return out


_PCACHE = {}


def _calib_one(arg):
    pi, name, src, ops = arg
    if pi not in _PCACHE:
        if len(_PCACHE) > 8:
            _PCACHE.clear()
        base = impl.analyse(src, name)
        _PCACHE[pi] = Prog(src, name) if base.get("kind") == "ok" and base.get("status") == "OK" else None
    P = _PCACHE[pi]
    if P is None:
        return pi, name, None
    out = {}
    for oid in ops:
        st = {"sites": 0, "hits": 0, "miss": [], "known": defaultdict(lambda: [0, 0]), "ctx": defaultdict(lambda: [0, 0])}
        for e in sites(oid, P):
            st["sites"] += 1
            res = impl.analyse(e.src, P.name)
            ok = expect_ok(res, OPS[oid].code, e.line)
            km = known_miss(oid, e, P)
            if km:
                st["known"][km][0 if not ok else 1] += 1
            st["ctx"][_strip_f(e.ctx)][0 if ok else 1] += 1
            if ok:
                st["hits"] += 1
                continue
            if res.get("kind") == "ok":
                on_line = tuple(sorted(set(d[0] for d in res["diags"] if d[3] and d[3][0][0] == e.line)))
                allc = tuple(sorted(set("%s@%d" % (d[0], d[3][0][0] if d[3] else 0) for d in res["diags"] if d[2] == "Error")))
            else:
                on_line, allc = (res.get("kind"),), (res.get("msg", res.get("exc", "")),)
            el = e.src.split("\n")
            ex = el[e.line - 1] if 0 < e.line <= len(el) else ""
            st["miss"].append((_strip_f(e.ctx), on_line, allc, ex, km, pi))
        st["known"] = dict(st["known"])
        st["ctx"] = dict(st["ctx"])
        out[oid] = st
    return pi, name, out


def calibrate(nprog=150, seed=1, procs=16, only=None, verbose=True, show_ctx=False):
    import multiprocessing as mp
    rnd = random.Random(seed)
    progs = []
    ids = [oid for oid in OPS if not only or oid in only]
    groups = [ids[n::6] for n in range(6)] if len(ids) > 12 else [ids]      # finer tasks: better use of the pool
    for pi in range(nprog):
        name, src = family.program(rnd)
        for grp in groups:
            if grp:
                progs.append((pi, name, src, grp))
    t0 = time.time()
    tot = OrderedDict((oid, {"sites": 0, "hits": 0, "miss": {}, "nmiss": 0, "known": defaultdict(lambda: [0, 0]),
                             "unexpected": 0, "ctx": defaultdict(lambda: [0, 0])}) for oid in OPS)
    skipped = set()
    with mp.Pool(procs) as pool:
        for pi, name, out in pool.imap_unordered(_calib_one, progs, chunksize=1):
            if out is None:
                skipped.add(pi)
                continue
            for oid, st in out.items():
                T = tot[oid]
                T["sites"] += st["sites"]
                T["hits"] += st["hits"]
                for km, (m, h) in st["known"].items():
                    T["known"][km][0] += m
                    T["known"][km][1] += h
                for cx, (h, m) in st["ctx"].items():
                    T["ctx"][cx][0] += h
                    T["ctx"][cx][1] += m
                for ctx, on_line, allc, ex, km, p in st["miss"]:
                    T["nmiss"] += 1
                    if not km:
                        T["unexpected"] += 1
                    key = (ctx, on_line, km)
                    if key not in T["miss"]:
                        T["miss"][key] = [0, allc, ex, p]
                    T["miss"][key][0] += 1
    wall = time.time() - t0
    skipped = len(skipped)
    if verbose:
        print("calibration: %d programs (%d skipped: not OK unedited), seed %d, %.1fs wall" % (nprog, skipped, seed, wall))
        print("%-4s %-24s %7s %7s %7s %7s" % ("op", "code", "sites", "hits", "misses", "unexp"))
        for oid, T in tot.items():
            if only and oid not in only:
                continue
            print("%-4s %-24s %7d %7d %7d %7d" % (oid, OPS[oid].code, T["sites"], T["hits"], T["nmiss"], T["unexpected"]))
            for km, (m, h) in sorted(T["known"].items()):
                print("       known %s: %d sites matched the predicate, %d missed, %d hit" % (km, m + h, m, h))
            if show_ctx:
                for cx, (h, m) in sorted(T["ctx"].items(), key=repr):
                    print("       ctx %s: %d hit, %d miss" % (cx, h, m))
            shown = 0
            for (ctx, on_line, km), (cnt, allc, ex, p) in sorted(T["miss"].items(), key=lambda kv: -kv[1][0]):
                if shown >= (12 if km else 40):
                    break
                shown += 1
                print("       %s x%d ctx=%s on-line=%s all=%s  e.g. prog %d: %r" % ("KNOWN" if km else "MISS ", cnt, ctx, list(on_line), list(allc)[:6], p, ex))
        for oid, why in NOT_IMPLEMENTED.items():
            print("not implemented %s: %s" % (oid, why))
    return tot, wall, skipped


if __name__ == "__main__":
    n = int(sys.argv[1]) if len(sys.argv) > 1 else 150
    only = set(sys.argv[2].split(",")) if len(sys.argv) > 2 and sys.argv[2] != "all" else None
    signal.alarm(3600)
    tot, wall, skipped = calibrate(n, only=only, show_ctx=len(sys.argv) > 3)
    bad = sum(T["unexpected"] for T in tot.values())
    sys.exit(1 if bad else 0)
