"""C11 - C literals are classified as C defines them.
Theorems: Props/C11.v (sweeps over the finite families of Spec/CConst.v, evaluated inside Coq).
This check: L-corr on numeric/quote alphabets; the SAME families replayed on the implementation (model verdict vs
implementation verdict = correspondence; implementation verdict vs expected = the property); a larger random family of
valid and malformed constants (digit strings up to 14) on the implementation, classified with the extracted shape
predicates."""
import os
import random

import common
import lexcorr
from common import Enc

KINDS = ["CONSTANT", "CONSTANT", "CHAR_CONST", "STRING"]
SHAPES = ["C11-hex-b-digits", "C11-hex-e-suffix-sign", "C11-hexfloat-empty-part", "C11-hexfloat-hex-suffix",
          "C11-universal-character-name", "C11-long-hex-escape-char"]      # positions = the driver's c11_shapes answer
# repaired in the source: the shape is still computed (Spec/CConst.shape_k1), its id never suppresses anything any more
REPAIRED = {"C11-hex-b-digits", "C11-hexfloat-empty-part", "C11-hexfloat-hex-suffix"}


def impl_one_ok(ty, w, rest):
    r = lexcorr.impl_lex(w + rest)
    if r["kind"] != "ok" or not r["tokens"]:
        return False, r
    t = r["tokens"][0]
    # "one token spanning the whole constant": type and raw span; the value may differ from the raw text by the
    # documented normalisations (di/trigraphs inside a literal), which are C10's subject
    ok = (t[0] == ty and t[4] == 0 and t[5] == len(w))
    # diagnostics: none may be located in (or right after) the constant; `rest` is chosen diagnostic-free
    ok = ok and not r["diags"]
    return ok, r


def impl_diag(name, w, rest):
    r = lexcorr.impl_lex(w + rest)
    if r["kind"] != "ok":
        return False, r
    for d in r["diags"]:
        if d[0] == name and any(h[0] == 1 and 1 <= h[1] <= len(w) + 1 for h in d[3]):
            return True, r
    return False, r


def shapes(drv, w, rest):
    d = drv.call("c11_shapes", Enc().str(w).str(rest))
    return [d.b() for _ in SHAPES]


# ------------------------------------------------------------------ the larger random family (implementation only)
def live_tables():
    """The integer suffixes come from the suffix GRAMMAR of the property text (the same as Spec/CConst.spec_int_suffixes),
    not from the tool's table: a spelling dropped from the table must still be generated.  Float suffixes: the
    tool's table (its extensions: imaginary, decimal) plus the grammar's f F l L d D."""
    import norminette.lexer.lexer as LX
    us = ["u", "U"]
    ws = ["l", "L", "ll", "LL", "z", "Z", "wb", "WB", "i64", "I64"]
    isuf = [""] + us + ws + [u + w for u in us for w in ws] + [w + u for w in ws for u in us]
    fsuf = sorted(set(list(LX.float_suffixes) + ["", "f", "F", "l", "L", "d", "D"]))
    return isuf, fsuf


def rand_digits(rnd, alpha, lo, hi):
    return "".join(rnd.choice(alpha) for _ in range(rnd.randint(lo, hi)))


def rand_valid(rnd, isuf, fsuf):
    """-> (kind index, w)"""
    k = rnd.randint(0, 9)
    if k <= 3:
        b = rnd.randint(0, 3)
        if b == 0:
            body = rnd.choice("123456789") + rand_digits(rnd, "0123456789", 0, 13)
        elif b == 1:
            body = "0" + rand_digits(rnd, "01234567", 0, 13)
        elif b == 2:
            body = rnd.choice(["0x", "0X"]) + rand_digits(rnd, "0123456789abcdefABCDEF", 1, 13)
        else:
            body = rnd.choice(["0b", "0B"]) + rand_digits(rnd, "01", 1, 13)
        return 0, body + rnd.choice(isuf)
    if k <= 6:
        f = rnd.randint(0, 5)
        d = lambda lo, hi: rand_digits(rnd, "0123456789", lo, hi)  # noqa: E731
        h = lambda lo, hi: rand_digits(rnd, "0123456789abcdefABCDEF", lo, hi)  # noqa: E731
        e = lambda L: rnd.choice(L) + rnd.choice(["", "+", "-"]) + d(1, 4)  # noqa: E731
        if f == 0:
            body = d(1, 8) + "." + d(0, 8) + (e("eE") if rnd.random() < .5 else "")
        elif f == 1:
            body = "." + d(1, 8) + (e("eE") if rnd.random() < .5 else "")
        elif f == 2:
            body = d(1, 8) + e("eE")
        elif f == 3:
            body = rnd.choice(["0x", "0X"]) + h(1, 6) + e("pP")
        elif f == 4:
            body = rnd.choice(["0x", "0X"]) + h(1, 6) + "." + h(0, 6) + e("pP")
        else:
            body = rnd.choice(["0x", "0X"]) + "." + h(1, 6) + e("pP")
        return 1, body + rnd.choice(fsuf)
    esc = ["\\'", '\\"', "\\?", "\\\\", "\\a", "\\b", "\\f", "\\n", "\\r", "\\t", "\\v", "\\0", "\\7", "\\12", "\\101", "\\377",
           "\\x4", "\\x41", "\\xfF", "\\x123", "\\u1234", "\\U0001F600"]
    plain = list("abcXYZ019 ;{}[]#%^&*()-+=|<>?,./~!@$`_:\t")
    pre = rnd.choice(["", "L", "u", "U", "u8"])
    if k <= 7:
        c = rnd.choice(esc + plain + ['"'])
        return 2, pre + "'" + c + "'"
    n = rnd.randint(0, 12)
    body = "".join(rnd.choice(esc + plain + ["'"]) for _ in range(n))
    while "??" in body:
        # two pieces must not join into a trigraph: `\?` + `?!` is `\|` after translation phase 1, not the pieces drawn
        body = body.replace("??", "?a")
    return 3, pre + '"' + body + '"'


def rand_rest(rnd, w):
    r = ["", ";", " ", ")", ",", "\n", "]", "}", ":", "?", "*2", "/2", "==", "&&", "|", "<<"]
    if w[-1] not in "eEpP":
        r += ["+1", "-x", "--", "->"]
    return rnd.choice(r)


def rand_malformed(rnd):
    """-> (diagnostic, w, rest)"""
    d = lambda a, lo, hi: rand_digits(rnd, a, lo, hi)  # noqa: E731
    k = rnd.randint(0, 12)
    rest = rnd.choice(["", ";", " ", "\n"])
    if k == 0:
        return "INVALID_BIN_INT", rnd.choice(["0b", "0B"]) + d("01", 0, 5) + rnd.choice("23456789") + d("0123456789", 0, 5), rest
    if k == 1:
        return "INVALID_OCT_INT", "0" + d("01234567", 0, 5) + rnd.choice("89") + d("0123456789", 0, 5), rest
    if k == 2:
        return "INVALID_SUFFIX", rnd.choice(["1", "42", "017", "0b11"]) + d("0123456789", 0, 5) + rnd.choice(["q", "uu", "lul", "x", "_", "gh", "llu8", "i65", "zz",
                                                                                                      "f", "F", "lf", "df", "DD"]), rest
    if k == 3:
        return "MAXIMAL_MUNCH", rnd.choice(["0x", "0X"]) + d("0123456789abcdf", 0, 5) + rnd.choice("eE") + rnd.choice("+-") + rnd.choice(["1", "x", "12"]), rest
    if k == 4:
        return "BAD_EXPONENT", d("0123456789", 1, 6) + rnd.choice(["e", "E", "e+", "E-", "ef", "e+f"]), rest
    if k == 5:
        return "BAD_EXPONENT", rnd.choice([d("0123456789", 1, 5) + "." + d("0123456789", 0, 5), "." + d("0123456789", 1, 5)]) + rnd.choice(["e", "E", "e+", "E-"]), rest
    if k == 6:
        return "BAD_EXPONENT", rnd.choice(["0x", "0X"]) + d("0123456789abcdef", 1, 5) + rnd.choice(["", "." + d("0123456789abcdef", 1, 4)]) + rnd.choice(["p", "P", "p+", "P-"]), rest
    if k == 7:
        return "MULTIPLE_DOTS", d("0123456789", 0, 4) + "." + d("0123456789", 1, 4) + "." + d("0123456789", 0, 4), rest
    if k == 8:
        return "BAD_FLOAT_SUFFIX", rnd.choice(["1.5", ".5", "5.", "1e5"]) + rnd.choice(["q", "lf", "x", "_", "fq", "ff", "dq",
                                                                                              "u", "U", "ul", "ll", "z", "wb", "i64", "lu"]), rest
    if k == 9:
        return "EMPTY_CHAR", rnd.choice(["", "L", "u", "U", "u8"]) + "''", rest
    if k == 10:
        return "CHAR_AS_STRING", rnd.choice(["", "L", "u8"]) + "'" + d("abc xyz", 2, 8) + "'", rest
    if k == 11:
        return "UNKNOWN_ESCAPE", "'\\" + rnd.choice("qcdghijklmopswyzAZ%( ") + "'", rest
    which = rnd.randint(0, 6)
    splices = "".join(rnd.choice(["\\\n", "??/\n"]) for _ in range(rnd.randint(1, 3)))
    if which == 4:      # a literal still open at end of file whose last characters are line splices
        return "UNEXPECTED_EOF_STR", rnd.choice(["", "L", "u8"]) + '"' + d("abc ", 0, 4) + splices, ""
    if which == 5:
        return "UNEXPECTED_EOF_CHR", rnd.choice(["", "L"]) + "'" + d("abc", 0, 2) + splices, ""
    if which == 6:
        return "UNEXPECTED_EOF_MC", "/*" + d("abc ", 0, 4) + splices, ""
    if which == 0:
        return "UNEXPECTED_EOL_CHR", rnd.choice(["", "L"]) + "'" + d("abc", 0, 3), "\n" + d("ab;", 0, 3)
    if which == 1:
        return "UNEXPECTED_EOF_CHR", rnd.choice(["", "L"]) + "'" + d("abc", 0, 3), ""
    if which == 2:
        return "UNEXPECTED_EOF_STR", rnd.choice(["", "u8"]) + '"' + d("abc \n", 0, 6), ""
    return "UNEXPECTED_EOF_MC", "/*" + d("abc *\n", 0, 8).replace("*/", "* /"), ""


def run(run, tier, seed, replay=None):
    b = common.build(["C11"])
    run.build = b
    found = False
    rnd = random.Random(seed)
    if not (b.driver_ok and os.path.exists(os.path.join(common.BUILD, "nvdriver"))):
        common.broken_obligations(run, b, found)
        return run.finish(max(len(b.theorems), 15), 0, "the extracted model could not be built", assumptions=[])
    drv = common.Driver()
    hist = {}

    def report_accept(kind, w, rest, impl_r, origin):
        sh = shapes(drv, w, rest)
        data = {"kind": KINDS[kind], "w": w, "rest": rest, "origin": origin, "impl": repr(impl_r)[:600]}
        fid = next((SHAPES[i] for i, v in enumerate(sh) if v and SHAPES[i] not in REPAIRED), None)
        return run.violation("valid-constant-not-accepted", data, finding_id=fid)

    if replay is not None:
        d = replay["data"]
        if replay["kind"] == "valid-constant-not-accepted":
            k = KINDS.index(d["kind"]) if d["kind"] != "CONSTANT" else 0
            ok, r = impl_one_ok(d["kind"], d["w"], d["rest"])
            if not ok:
                found |= report_accept(k, d["w"], d["rest"], r, "replay")
        elif replay["kind"] == "malformed-constant-not-reported":
            ok, r = impl_diag(d["name"], d["w"], d["rest"])
            if not ok:
                found |= run.violation("malformed-constant-not-reported", d)
        elif replay["kind"] == "constant-verdict-depends-on-context":
            r = lexcorr.impl_lex(d["text"])
            o, w = d["offset"], d["w"]
            here = [dg for dg in r.get("diags", []) if any(h[0] == 1 and o + 1 <= h[1] <= o + len(w) + 1 for h in dg[3])]
            if d["expected"].startswith("one "):
                ty = d["expected"].split()[1]
                bad = r["kind"] != "ok" or {(t[4], t[5]): t[0] for t in r["tokens"]}.get((o, o + len(w))) != ty or bool(here)
            else:
                bad = r["kind"] != "ok" or not any(dg[0] == d["expected"] for dg in here)
            if bad:
                found |= run.violation("constant-verdict-depends-on-context", d)
        else:
            found |= lexcorr.run_lexical_check(run, tier, seed, "c11", (), replay)
        run.count("replay", 1, 1)
    else:
        # 1. the lexer correspondence on the numeric / quote alphabets (+ the common streams)
        found |= lexcorr.run_lexical_check(run, tier, seed, "c11", ())
        # 2. the theorem's own families on the implementation
        d = drv.call("c11_cases", Enc())
        cases = d.list(lambda: (d.z(), d.str(), d.str(), d.b(), d.b()))
        step = 1 if tier == "thorough" else 3
        sub = cases[(seed % step)::step] if step > 1 else cases
        n_guarded = 0
        for k, w, rest, g, model_ok in sub:
            ok, r = impl_one_ok(KINDS[k], w, rest)
            hist["accept:" + KINDS[k]] = hist.get("accept:" + KINDS[k], 0) + 1
            if ok != model_ok:
                found |= run.violation("correspondence-c11-family", {"w": w, "rest": rest, "kind": KINDS[k], "model_ok": model_ok,
                                                                      "impl_ok": ok, "impl": repr(r)[:600]})
            if not ok:
                found |= report_accept(k, w, rest, r, "Spec/CConst family")
            n_guarded += 1 if g else 0
        run.count("valid constants of the families of Spec/CConst.v x delimiters (the theorem's own quantifier)", len(sub), n_guarded)
        d = drv.call("c11_malformed", Enc())
        mal = d.list(lambda: (d.str(), d.str(), d.str(), d.str(), d.b()))
        for fam, name, w, rest, model_ok in mal:
            ok, r = impl_diag(name, w, rest)
            hist["reject:" + name] = hist.get("reject:" + name, 0) + 1
            if ok != model_ok:
                found |= run.violation("correspondence-c11-malformed", {"family": fam, "name": name, "w": w, "rest": rest, "model": model_ok, "impl": ok})
            if not ok:
                found |= run.violation("malformed-constant-not-reported", {"family": fam, "name": name, "w": w, "rest": rest, "impl": repr(r)[:600]})
        run.count("malformed families M1..M15 of Spec/CConst.v", len(mal), len(mal))
        # 3. a larger random family: longer digit strings, every live suffix, more delimiters
        isuf, fsuf = live_tables()
        n = 4000 if tier == "quick" else 60000
        seen = set()
        for _ in range(n):
            k, w = rand_valid(rnd, isuf, fsuf)
            rest = rand_rest(rnd, w)
            if (w, rest) in seen:
                continue
            seen.add((w, rest))
            ok, r = impl_one_ok(KINDS[k], w, rest)
            hist["random-accept:" + KINDS[k]] = hist.get("random-accept:" + KINDS[k], 0) + 1
            if not ok:
                found |= report_accept(k, w, rest, r, "random valid constant")
        run.count("random valid constants (digit strings up to 14, all live suffixes) x delimiters", n, len(seen))
        m = 1500 if tier == "quick" else 20000
        seen = set()
        for _ in range(m):
            name, w, rest = rand_malformed(rnd)
            if (w, rest) in seen:
                continue
            seen.add((w, rest))
            ok, r = impl_diag(name, w, rest)
            hist["random-reject:" + name] = hist.get("random-reject:" + name, 0) + 1
            if not ok:
                fid = None      # (the shape 0[xX][bB]+[0-9], once mis-split before its family's test applied, is repaired)
                found |= run.violation("malformed-constant-not-reported", {"name": name, "w": w, "rest": rest, "impl": repr(r)[:600]},
                                       finding_id=fid)
        run.count("random members of the malformed families", m, len(seen))
        # 4. several constants in ONE text, valid and malformed mixed in both orders: the verdict on a constant does not
        # depend on what was lexed before it (numeric kinds only: no quote can swallow its neighbour)
        nm = 1500 if tier == "quick" else 20000
        nmixed = 0
        for _ in range(nm):
            items = []
            for _k in range(rnd.randint(2, 4)):
                if rnd.random() < 0.5:
                    k, w = rand_valid(rnd, isuf, fsuf)
                    if k > 1:
                        continue
                    items.append(("valid", KINDS[k], w))
                else:
                    name, w, _r = rand_malformed(rnd)
                    if "'" in w or '"' in w or "/*" in w or "\n" in w:
                        continue
                    items.append(("malformed", name, w))
            if len(items) < 2:
                continue
            nmixed += 1
            for order in (items, items[::-1]):
                text, offs = "", []
                for it in order:
                    offs.append(len(text))
                    text += it[2] + " "
                r = lexcorr.impl_lex(text)
                if r["kind"] != "ok":
                    found |= run.violation("lexer-not-total", {"src": text, "impl": repr(r)[:400]})
                    continue
                spans = {(t[4], t[5]): t[0] for t in r["tokens"]}
                for (what, x, w), o in zip(order, offs):
                    here = [dg for dg in r["diags"] if any(h[0] == 1 and o + 1 <= h[1] <= o + len(w) + 1 for h in dg[3])]
                    if what == "valid":
                        alone_ok, _ = impl_one_ok(x, w, " ")
                        if alone_ok and (spans.get((o, o + len(w))) != x or here):
                            found |= run.violation("constant-verdict-depends-on-context", {"text": text, "w": w, "offset": o, "expected": "one " + x + " token, no diagnostic",
                                                                                          "diags_here": repr(here)[:300]})
                    else:
                        alone_ok, _ = impl_diag(x, w, " ")
                        if alone_ok and not any(dg[0] == x for dg in here):
                            found |= run.violation("constant-verdict-depends-on-context", {"text": text, "w": w, "offset": o, "expected": x,
                                                                                          "diags_here": repr(here)[:300]})
        run.count("texts of 2..4 numeric constants (valid and malformed mixed), each in both orders: every verdict as for the constant alone", nm, nmixed)
        run.sample({"valid": [c[1] + c[2] for c in cases[::max(1, len(cases) // 5)]][:5]})
        run.sample({"malformed": [(c[1], c[2]) for c in mal[::max(1, len(mal) // 4)]][:4]})
    drv.close()
    run.cov["c11_histogram"] = hist
    common.broken_obligations(run, b, found)
    disc = sum(1 for t in b.theorems if t not in b.open_assumptions) if b.make_ok else 0
    return run.finish(max(len(b.theorems), 15), disc,
                      "(1) lexer correspondence: every string up to a length bound over the numeric (17 symbols) and quote/escape (13 "
                      "symbols) alphabets and the common streams, implementation vs extracted model; (2) every member of the finite "
                      "families of Spec/CConst.v that the Coq theorems quantify over (quick: one third), lexed by the implementation: "
                      "one token spanning the constant, no diagnostic (valid) / the family's diagnostic inside the constant (malformed), "
                      "and the model's verdict compared; (3) random valid and malformed constants with longer digit strings; a failing "
                      "valid constant is classified by the extracted shape predicates (known findings); non-trivial = distinct inputs "
                      "inside the guard",
                      extra={"exhaustive": False},
                      assumptions=["uw/ud (Unicode \\w, \\d) play no role: every constant of the families is ASCII"])
