"""Run inside a FRESH interpreter:  c06_worker.py <json request on stdin>  -> json on stdout.
request: {"listing_seed": int|null, "history": [[name, src], ...], "files": [[name, src], ...], "share_registry": bool}
Analyses the history then the files in this one process; prints the diagnostics of `files` and the rule order."""
import json
import os
import random
import sys

req = json.load(sys.stdin)
seed = req.get("listing_seed")
if seed is not None:
    _orig = os.listdir

    def listdir(p="."):
        l = list(_orig(p))
        random.Random(seed).shuffle(l)
        return l
    os.listdir = listdir
sys.path.insert(0, os.path.dirname(os.path.abspath(__file__)))
import common  # noqa: E402
common.ensure_impl_path()
import impl  # noqa: E402
from norminette.registry import Registry, rules  # noqa: E402
from norminette.file import File  # noqa: E402
from norminette.lexer import Lexer  # noqa: E402
from norminette.context import Context  # noqa: E402
import contextlib, io  # noqa: E402

reg = Registry()


def analyse(name, src):
    f = File(name, src)
    out = io.StringIO()
    try:
        with contextlib.redirect_stdout(out), impl.time_limit(5.0):
            toks = list(Lexer(f))
            ctx = Context(f, toks, 0, None)
            (reg if req.get("share_registry", True) else Registry()).run(ctx)
    except BaseException as e:  # noqa
        return {"kind": type(e).__name__, "msg": str(e)[:100]}
    return {"kind": "ok", "diags": [impl.diag_tuple(x) for x in f.errors], "status": f.errors.status}


for name, src in req.get("history", []):
    analyse(name, src)
res = [analyse(name, src) for name, src in req["files"]]
json.dump({"results": res, "primaries": [p.__name__ for p in rules.primaries],
           # Registry.dependencies is a defaultdict: looking up a primary without dependents inserts an empty list,
           # so the KEY set depends on which statements were met; only non-empty entries are rule order
           "dependencies": {k: [c.__name__ for c in v] for k, v in sorted(reg.dependencies.items()) if v},
           "recursion_limit": sys.getrecursionlimit()}, sys.stdout)
