"""The conforming-program family G of DESIGN.md 4.1 as a random renderer (source files and headers).
Ported from the calibration probes; every construct was checked against the tool when the design
was written.  The known false-positive families K1..K4 (DESIGN 4.1) are avoided by construction
and generated separately by the C01 check."""
import os
import random

from common import VERIF

HDR = open(os.path.join(VERIF, "tools", "harness", "data", "hdr.txt")).read()


KW = set("auto break case char const continue default do double else enum extern float for goto if int long register return short signed sizeof static struct switch typedef union unsigned void volatile while inline NULL restrict".split())
SPECIAL = {"__attribute__","environ","defined"}
def lname(r, mx=8):
    while True:
        n = r.choice("abcdefhijkmnopqrvwxyz") + ''.join(r.choice("abcdefghijklmnopqrstuvwxyz0123456789_") for _ in range(r.randint(0,mx)))
        if n not in KW and n not in SPECIAL and n[:2] not in ("g_","s_","t_","u_","e_"): return n
def mname(r): return r.choice("ABCDEFGHIJKLMNOPQRSTUVWXYZ") + ''.join(r.choice("ABCDEFGHIJKLMNOPQRSTUVWXYZ0123456789_") for _ in range(r.randint(0,6)))
BASE_T = ["int","char","short","long","float","double","unsigned int","unsigned char","long long","size_t","t_list","struct s_node"]
def intc(r):
    # the shape K1 (0[xX][bB]+[0-9]...: 0xb3ba) used to be avoided here because the tool mis-split it; it is repaired in the
    # source (Prefix alternative 0[xX](?=[\da-fA-F])), so such constants are generated like every other one
    return intc0(r)
def intc0(r):
    k = r.randint(0,5)
    suf = r.choice(["","","","u","U","l","L","ul","UL","ll","LL","ull","lu","uz"])
    if k==0: return str(r.randint(0,99999))+suf
    if k==1: return "0"+''.join(r.choice("01234567") for _ in range(r.randint(0,4)))+suf
    if k==2: return r.choice(["0x","0X"])+''.join(r.choice("0123456789abcdefABCDEF") for _ in range(r.randint(1,6)))+suf
    if k==3: return r.choice(["0b","0B"])+''.join(r.choice("01") for _ in range(r.randint(1,8)))+suf
    if k==4: return r.choice(["1.5","0.25",".5","5.","1e5","1.5e-3","2E+4","3.f","1.0F","2.5l","0x1.8p3","0x1p-2","0xAp+1"])
    return str(r.randint(0,9))
def charc(r): return r.choice(["'a'","'0'","' '","'\\n'","'\\0'","'\\t'","'\\\\'","'\\''","'\"'","'\\x41'","'\\101'","L'a'","';'","'{'","'?'"])
def strc(r): return r.choice(['"abc"','""','"a b"','"a\\"b"','"%d\\n"','"{;}"','L"w"','u8"x"','"a\\\\"','"if (x)"',"\"it's\""])
BOPS = ["+","-","*","/","%","<<",">>","&","|","^","&&","||","==","!=","<",">","<=",">="]
UOPS = ["-","+","!","~","*","&"]
def atom(r, env):
    k = r.randint(0,9)
    if k<=3: return r.choice(env)
    if k==4: return mname(r)
    if k<=6: return intc(r)
    if k==7: return charc(r)
    return r.choice(env)
def expr(r, env, d):
    if d<=0: return atom(r, env)
    k = r.randint(0,13)
    if k<=3: return atom(r, env)
    if k<=6: return expr(r,env,d-1)+" "+r.choice(BOPS)+" "+expr(r,env,d-1)
    if k==7:
        u = r.choice(UOPS)
        if u in "*&": return u+r.choice(env)
        e = expr(r,env,d-1)
        if e[0] in "+-&*'" or e.startswith("sizeof") or e.startswith("L'"): e = "("+e+")"
        return u+e
    if k==8: return "("+expr(r,env,d-1)+")"
    if k==9:
        a = atom(r,env)
        if a[0]=="'" or a.startswith("L'"): a = r.choice(env)
        return "("+r.choice(["int","char","char *","unsigned char","long","t_list *","void *"])+")"+a
    if k==10: return "sizeof("+r.choice(["int","char *","t_list",r.choice(env),"*"+r.choice(env)])+")"
    if k==11: return r.choice(env)+"["+expr(r,env,d-1)+"]"
    if k==12: return r.choice(env)+r.choice([".","->"])+lname(r,4)
    return lname(r,6)+"("+", ".join((strc(r) if r.random()<0.15 else expr(r,env,d-1)) for _ in range(r.randint(0,3)))+")"
def lhs(r, env):
    k=r.randint(0,4); v=r.choice(env)
    return [v, "*"+v, v+"["+atom(r,env)+"]", v+"->"+lname(r,4), v+"."+lname(r,4)][k]
def simple(r, env, inloop, ret):
    k = r.randint(0,9)
    if k<=3: return lhs(r,env)+" "+r.choice(["=","=","=","+=","-=","*=","/=","%=","<<=",">>=","&=","|=","^="])+" "+expr(r,env,r.randint(0,3))+";"
    if k==4: return lname(r,6)+"("+", ".join(expr(r,env,1) for _ in range(r.randint(0,3)))+");"
    if k==5: return ("return ("+expr(r,env,2)+");") if ret else "return ;"
    if k==6 and inloop: return r.choice(["break ;","continue ;"])
    if k==7: return lhs(r,env)+r.choice(["++","--"])+";"
    if k==8: return r.choice(["++","--"])+r.choice(env)+";"
    return "(void)"+r.choice(env)+";"
def block(r, env, depth, inloop, ret, budget):
    out=[]
    n = r.randint(1,3)
    for _ in range(n):
        if budget[0] <= 2: break
        k = r.randint(0,5)
        if k<=2 or depth>=4:
            out.append("\t"*depth + simple(r,env,inloop,ret)); budget[0]-=1
        elif k<=4:
            out += ifstmt(r,env,depth,inloop,ret,budget)
        else:
            out.append("\t"*depth+"while ("+expr(r,env,2)+")"); budget[0]-=1
            out += body(r,env,depth,True,ret,budget)
    if not out: out.append("\t"*depth + simple(r,env,inloop,ret)); budget[0]-=1
    return out
def body(r, env, depth, inloop, ret, budget):
    if r.random()<0.5 or budget[0] < 5:
        budget[0]-=1
        return ["\t"*(depth+1)+simple(r,env,inloop,ret)]
    budget[0]-=2
    return ["\t"*depth+"{"] + block(r,env,depth+1,inloop,ret,budget) + ["\t"*depth+"}"]
def ifstmt(r, env, depth, inloop, ret, budget):
    out=["\t"*depth+"if ("+expr(r,env,2)+")"]; budget[0]-=1
    out += body(r,env,depth,inloop,ret,budget)
    while r.random()<0.3 and budget[0]>4:
        out.append("\t"*depth+"else if ("+expr(r,env,2)+")"); budget[0]-=1
        out += body(r,env,depth,inloop,ret,budget)
    if r.random()<0.4 and budget[0]>3:
        out.append("\t"*depth+"else"); budget[0]-=1
        out += body(r,env,depth,inloop,ret,budget)
    return out
def tabs_to(col_from, col_to):
    """tabs needed to go from visual column col_from (1-based, next free) to col_to (a tab stop + 1)"""
    n=0; c=col_from
    while c < col_to:
        c = ((c-1)//4+1)*4+1; n+=1
    return n
def align(items, base_col):
    """items = [(type_text, declarator)], type starts at base_col; returns lines with names on one column"""
    ends = [base_col + len(t) for t,_ in items]
    target = max(((e-1)//4+1)*4+1 for e in ends)
    return [t + "\t"*tabs_to(base_col+len(t), target) + d for t,d in items]
def func(r, name, static):
    ret = r.random()<0.7
    rt = r.choice(["int","char","char *","unsigned int","long","t_list *","size_t"]) if ret else "void"
    np = r.randint(0,4)
    pnames = [lname(r,5) for _ in range(np)]
    params = ", ".join(r.choice(["int ","char ","char *","char **","t_list *","unsigned int ","const char *","size_t "])+p for p in pnames) if np else "void"
    star = ""
    if rt.endswith("*"): rt=rt[:-2]; star="*"
    head = ("static " if static else "") + rt + "\t" + star + name + "(" + params + ")"
    nd = r.randint(0,5)
    dn = [lname(r,5) for _ in range(nd)]
    decls=[]
    for v in dn:
        t = r.choice(["int","char","char","unsigned int","long","size_t","t_list","struct s_node","unsigned char","long long"])
        d = r.choice(["","*","**"])+v+r.choice(["","","","[4]","[2][3]","[BUF]"])+";"
        decls.append((t,d))
    lines=[head,"{"]
    if decls:
        lines += ["\t"+l for l in align(decls, 5)]
        lines.append("")
    env = (pnames+dn) or ["g_x"]
    budget=[25 - (len(decls)+1 if decls else 0) - 1]
    lines += block(r, env, 1, False, ret, budget)
    lines.append("\t"+("return ("+expr(r,env,1)+");" if ret else "return ;"))
    lines.append("}")
    return lines
def unit_c(r):
    L = HDR.rstrip("\n").split("\n") + [""]
    for _ in range(r.randint(0,2)): L.append(r.choice(['#include "%s.h"'%lname(r,6), '#include <%s.h>'%lname(r,6)]))
    for _ in range(r.randint(0,2)): L.append("#define %s %s"%(mname(r), r.choice([intc(r),strc(r),charc(r),"-"+intc(r),mname(r)])))
    if L[-1]!="": L.append("")
    g = []
    for _ in range(r.randint(0,2)):
        q = r.choice(["static","const","static const"])
        t = r.choice(["int","char","unsigned int","long"])
        g.append((q+" "+t, "g_"+lname(r,5)+r.choice([""," = "+intc(r)," = "+intc(r)])+";"))
    if g: L += align(g,1) + [""]
    nf = r.randint(1,5)
    names = [lname(r,8) for _ in range(nf)]
    for i,n in enumerate(names):
        L += func(r, n, r.random()<0.5)
        if i<nf-1: L.append("")
    return "\n".join(L)+"\n"

def unit_h(r, base):
    G = base.upper().replace(".","_")
    L = HDR.rstrip("\n").split("\n") + ["", "#ifndef "+G, "# define "+G, ""]
    ni = r.randint(0,3)
    for _ in range(ni): L.append(r.choice(['# include "%s.h"'%lname(r,6), '# include <%s.h>'%lname(r,6)]))
    if ni: L.append("")
    nd = r.randint(0,3)
    for _ in range(nd): L.append("# define %s %s"%(mname(r), r.choice([intc(r),strc(r),charc(r),"-"+intc(r)])))
    if nd: L.append("")
    # one alignment column for everything at global scope (typedef names, prototypes)
    protos=[]
    for _ in range(r.randint(1,5)):
        rt=r.choice(["int","char","void","unsigned int","long","t_list","size_t","unsigned long long","struct s_node"])
        star=r.choice(["","","*","**"])
        np=r.randint(0,4)
        params=", ".join(r.choice(["int ","char ","char *","char **","t_list *","unsigned int ","const char *","size_t ","struct s_node *"])+lname(r,5) for _ in range(np)) if np else "void"
        protos.append((rt, star+lname(r,8)+"("+params+");"))
    tds=[]
    for _ in range(r.randint(0,3)):
        kind=r.choice(["struct","union","enum"])
        tag={"struct":"s_","union":"u_","enum":"e_"}[kind]+lname(r,5)
        tn="t_"+lname(r,5)
        if kind=="enum":
            n=r.randint(1,4); body=["\t"+mname(r)+(" = "+str(r.randint(0,9)) if r.random()<0.3 else "")+("," if i<n-1 else "") for i in range(n)]
        else:
            fields=[(r.choice(["int","char","unsigned int","long","t_list","struct s_node","size_t"]), r.choice(["","*","**"])+lname(r,5)+r.choice(["","","[4]"])+";") for _ in range(r.randint(1,4))]
            body=["\t"+l for l in align(fields,5)]
        tds.append((kind,tag,tn,body))
    # global alignment column: max over 'typedef kind tag' heads? test: names of typedefs after '}' + tab(s)
    ends=[1+len(t) for t,_ in protos]
    target=max(((e-1)//4+1)*4+1 for e in ends)
    for kind,tag,tn,body in tds:
        L.append("typedef %s %s"%(kind,tag)); L.append("{"); L+=body
        L.append("}"+"\t"*tabs_to(2,target)+tn+";"); L.append("")
    for t,d in protos: L.append(t+"\t"*tabs_to(1+len(t),target)+d)
    L += ["", "#endif"]
    return "\n".join(L)+"\n"


def wide(src):
    return any(len(l.expandtabs(4)) > 80 for l in src.split("\n"))


def program(rnd, kind=None):
    """-> (file name, source) of a conforming program; lines over 80 columns are re-drawn."""
    for _ in range(50):
        k = kind or ("c" if rnd.random() < 0.7 else "h")
        if k == "c":
            name, src = lname(rnd, 6) + ".c", unit_c(rnd)
        else:
            name = lname(rnd, 6) + rnd.choice(["", ".x", "_y"]) + ".h"
            src = unit_h(rnd, name)
        if not wide(src):
            return name, src
    return "a.c", HDR + "\nint\tmain(void)\n{\n\treturn (0);\n}\n"
