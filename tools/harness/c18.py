"""C18 - diagnostics do not depend on how identifiers are spelled (metamorphic search + tie to the Coq side)."""
import multiprocessing as mp
import random

import common
import impl
import metamorph as M

PROVED = "consistent renamings inside the proved class (same length, same naming class, injective)"
MACRO = "upper-case macro names renamed to upper-case names with another number of capitals (outside the proved class)"
ADV = ("one name of a fixed role renamed to a spelling derived from a reviewed special spelling or a keyword "
       "(substring, one-character extension, case variant; inside the proved class)")
ADV_FILE = "one name of a generated file renamed to such a derived spelling (inside the proved class)"
KIND_DIAG = "rename-changes-diagnostics"
KIND_LEX = "lexer-rename-changes-tokens"
KIND_MACRO = "c18-macro-capitals-count"


def _init():
    common.ensure_impl_path()
    import lexcorr
    lexcorr.install_span_probe()


def evaluate(name, src, src2, mapping, stream, base=None):
    """-> ('skip'|'ok', [(kind, difference)])"""
    base = base or impl.analyse(src, name)
    if base["kind"] != "ok":
        return "skip", []
    out = []
    d = M.compare(base, impl.analyse(src2, name))
    if d is not None:
        out.append((KIND_MACRO if stream == MACRO else KIND_DIAG, d))
    ld = M.lex_compare(src, src2, name, mapping=mapping)
    if ld is not None:
        out.append((KIND_LEX, ld))
    return "ok", out


def _work(args):
    i, fseed, nren, nmacro, nadv = args
    stats = {}
    name, src, edited, rnd = M.file_from_seed(fseed, i, i % 4 >= 2, stats)     # half of the files carry comments too
    spoiled = False
    if i % 3 == 2:          # a third of the files: naming violations, so that diagnostics sit on identifiers
        sp = M.spoil_names(rnd, name, src)
        if sp is not None:
            src, spoiled = sp, True
    res = {"n": {PROVED: [0, 0], MACRO: [0, 0], ADV_FILE: [0, 0]}, "viol": [], "hist": {}, "obs": [], "samples": [], "skipped": 0}
    h = res["hist"]

    def bump(k, n=1):
        h[k] = h.get(k, 0) + n
    base = impl.analyse(src, name)
    toks = M.identifiers(src, name)
    if base["kind"] != "ok" or toks is None:
        res["skipped"] = 1
        return res
    bump("base file: %s, %s" % ("violating variant (token edit)" if edited else "family program",
                                "with diagnostics" if base["diags"] else "clean"))
    bump("base file type " + name[-2:])
    if spoiled:
        bump("base files with naming violations (a name respelled into another class beforehand)")
    for d in base["diags"]:
        bump("base diagnostic " + d[0])
    guard = M.guard_of(name)
    names = sorted(set(t[0] for t in toks))
    bump("distinct identifier spellings", len(names))
    bump("fixed spellings (special / guard)", sum(1 for v in names if M.fixed_name(v, guard)))
    movable = [v for v in names if not M.fixed_name(v, guard)]
    rnd.shuffle(movable)
    jobs = ([(PROVED, None) for _ in range(nren)] + [(MACRO, None) for _ in range(nmacro)]
            + [(ADV_FILE, movable[j % len(movable)]) for j in range(nadv if movable else 0)])
    for k, (stream, which) in enumerate(jobs):
        st = {}
        if stream == ADV_FILE:
            mapping = M.adversarial_single(rnd, names, guard, which)
            if mapping is None:
                bump("derived-spelling renamings of a file name skipped (no derived spelling of the name's class)")
                continue
            pairs = sorted(mapping.items())
            if not M.rename_ok(pairs, guard):
                raise AssertionError("adversarial_single left the admissible class: %r" % (pairs,))
            c = M.name_class(which)
            bump("derived-spelling renaming of a file name of class: " + ("prefix " + c[3] if c[3] else "upper-case"
                 if c[1] and not c[2] else "lower-case" if not c[1] else "mixed case")
                 + (", base file with diagnostics" if base["diags"] else ", clean base file"))
        elif stream == PROVED:
            mode = ["all", "all", "some", "one", "swap", "all"][k % 6]
            mapping = M.random_renaming(rnd, names, guard, mode=mode, stats=st)
            pairs = sorted(mapping.items())
            if not M.rename_ok(pairs, guard):
                raise AssertionError("random_renaming left the admissible class: %r" % (pairs,))
        else:
            if not any(v.isupper() and not M.fixed_name(v, guard) and len(v) > 1 for v in names):
                continue
            mapping = M.macro_capitals_renaming(rnd, names, guard, src=src)
            pairs = sorted(mapping.items())
        changed = [(a, b) for a, b in pairs if a != b]
        src2 = M.apply_renaming(src, toks, mapping)
        _, diffs = evaluate(name, src, src2, mapping, stream, base)
        res["n"][stream][0] += 1
        res["n"][stream][1] += 1 if changed else 0
        if stream == PROVED:
            bump("renaming mode " + mode)
            if any(b in M.NEAR_SET for _, b in changed):
                bump("renamings using a near-keyword / near-special name")
            if any(b in M.ADV_SET for _, b in changed):
                bump("renamings using a spelling derived from a special spelling / keyword (substring, extension, case)")
            if any(b in dict(pairs) and a != b for a, b in changed):
                bump("renamings that permute names of the file (a new name is another old name)")
            if any(a == "main" for a, _ in changed):
                bump("renamings moving `main`")
            bump("names actually changed", len(changed))
            for a, _ in changed:
                c = M.name_class(a)
                bump("class of renamed name: " + ("prefix " + c[3] if c[3] else "upper-case" if c[1] and not c[2]
                                                    else "lower-case" if not c[1] else "mixed case"))
        if len(res["obs"]) < 3 or (stream == MACRO and len(res["obs"]) < 4):
            res["obs"].append((guard, [list(p) for p in pairs]))
        if k == 0 and changed:
            res["samples"].append({"file": name, "stream": stream, "renamed": changed[:6], "base_diagnostics": len(base["diags"])})
        for kind, d in diffs:
            res["viol"].append((kind, {"name": name, "src": src, "src2": src2, "mapping": {a: b for a, b in changed},
                                       "stream": stream, "difference": d, "guard": guard}))
    return res


def _adv_work(cases):
    """Fixed-role hosts: each case renames exactly one identifier (of a known role) to a derived spelling."""
    res = {"n": [0, 0], "viol": [], "hist": {}, "obs": [], "samples": []}
    h = res["hist"]

    def bump(k, n=1):
        h[k] = h.get(k, 0) + n
    for role, kind, spelling, target in cases:
        host = M.adversarial_host(role, target)
        if host is None:
            bump("derived spellings without a distinct neutral spelling of the same class (skipped: _, __, e_, e__)")
            continue
        name, src, old, new = host
        toks = M.identifiers(src, name)
        base = impl.analyse(src, name)
        if toks is None or base["kind"] != "ok":
            raise AssertionError("host program not analysable: %r" % (src,))
        guard = M.guard_of(name)
        names = sorted(set(t[0] for t in toks))
        mapping = {v: v for v in names}
        mapping[old] = new
        pairs = sorted(mapping.items())
        if old not in names or not M.rename_ok(pairs, guard):
            raise AssertionError("derived-spelling case outside the admissible class: %r -> %r" % (old, new))
        src2 = M.apply_renaming(src, toks, mapping)
        _, diffs = evaluate(name, src, src2, mapping, ADV, base)
        res["n"][0] += 1
        res["n"][1] += 1
        bump("role: " + role)
        bump("derived spelling: %s of a %s" % (kind, "reviewed special spelling" if spelling in M.REVIEWED_SPECIALS
                                                else "keyword"))
        bump("host program " + ("with diagnostics (violating)" if base["diags"] and
                                 [d[0] for d in base["diags"]] != ["GLOBAL_VAR_DETECTED"] else "conforming"))
        if len(res["obs"]) < 1:
            res["obs"].append((guard, [list(p) for p in pairs]))
        if len(res["samples"]) < 1:
            res["samples"].append({"file": name, "stream": ADV, "role": role, "derived_from": spelling, "how": kind,
                                   "renamed": [[old, new]], "base_diagnostics": len(base["diags"])})
        for k, d in diffs:
            res["viol"].append((k, {"name": name, "src": src, "src2": src2, "mapping": {old: new}, "stream": ADV,
                                    "role": role, "derived_from": spelling, "how": kind, "difference": d,
                                    "guard": guard}))
    return res


def negative_samples(rnd, guard="A_H"):
    """Pair lists the predicate must REJECT (and a few it accepts), for the Coq cross-check."""
    return [(guard, p) for p in [
        [["ab", "if"]], [["if", "ab"]], [["abc", "abd"], ["abe", "abd"]], [["abc", "ab"]], [["abc", "aBc"]],
        [["g_x", "a_x"]], [["a_x", "g_x"]], [["abc", "1bc"]], [["a_h", "b_h"]], [["A_H", "B_H"]], [["x_y", "a_h"]],
        [["defined", "definee"]], [["environ", "environ"]], [["abcdefg", "environ"]], [["INCLUDE", "INCLUDF"]],
        [["BUF", "B_1"]], [["BUF", "BFU"]], [["ab1", "ab_"]], [["a", "b"], ["b", "a"]], [["a", "b"], ["b", "b"]],
        [["a", "b"], ["a", "c"]], [["h", "k"]], [["k", "h"]], [["__attribute__", "__attribute_x"]],
        [["__attribute_y", "__attribute_x"]], [["mai", "nul"]], [["main", "mein"]], [["t_list", "t_lisp"]],
        [["t_list", "s_list"]], [["ab-", "abc"]], [["NULL", "NULM"]], [["NULM", "NULL"]], [["size_t", "siz_et"]],
    ]]


def run(run, tier, seed, replay=None):
    b = common.build(["C18"], need_driver=False)
    run.build = b
    found = False
    rnd = random.Random(seed)
    hist = {}
    obs = []
    if replay is not None:
        d = replay["data"]
        if "src" in d:
            _, diffs = evaluate(d["name"], d["src"], d["src2"], d["mapping"], d["stream"])
            run.count("replay", 1, 1)
            for kind, diff in diffs:
                if kind == replay["kind"]:
                    found |= run.violation(kind, dict(d, difference=diff))
            run.sample({"replayed": d["name"], "mapping": d["mapping"]})
    else:
        nfiles, nren, nmacro, nadv = (40, 6, 2, 6) if tier == "quick" else (400, 20, 4, 20)
        jobs = [(i, rnd.getrandbits(64), nren, nmacro, nadv) for i in range(nfiles)]
        acases = M.adversarial_cases(rnd, tier)
        rnd.shuffle(acases)
        abatches = [acases[j:j + 50] for j in range(0, len(acases), 50)]
        skipped = 0
        viol = []
        with mp.Pool(common.NPROC, initializer=_init) as pool:
            for res in pool.imap(_work, jobs, chunksize=1):
                skipped += res["skipped"]
                for s, (n, nt) in res["n"].items():
                    if n:
                        run.count(s, n, nt)
                M.merge(hist, res["hist"])
                viol += res["viol"]
                for o in res["obs"]:
                    if len(obs) < 360:
                        obs.append(o)
                for s in res["samples"]:
                    run.sample(s, cap=5)
            nsamp = 0
            for res in pool.imap(_adv_work, abatches, chunksize=1):
                if res["n"][0]:
                    run.count(ADV, res["n"][0], res["n"][1])
                M.merge(hist, res["hist"])
                viol += res["viol"]
                for o in res["obs"]:
                    if len(obs) < 380:
                        obs.append(o)
                for s in res["samples"]:
                    if nsamp < 3:
                        run.sample(s, cap=8)
                        nsamp += 1
        hist["files not analysable (outside the quantifier)"] = skipped
        viol.sort(key=lambda kv: (len(kv[1]["mapping"]), len(kv[1]["src"])))
        for kind, data in viol[:40]:
            found |= run.violation(kind, data)
    try:
        import obscorr
    except ImportError:
        obscorr = None
    if obscorr is not None:
        samples = [(g, [tuple(p) for p in ps]) for g, ps in (negative_samples(rnd) + obs)][:400]
        found |= bool(obscorr.check_rename(run, b, samples))
    else:
        run.notes.append("tools/harness/obscorr.py is missing: the Python predicate rename_ok was not cross-checked "
                         "against the Coq predicate in this run")
    common.broken_obligations(run, b, found)
    disc = sum(1 for t in b.theorems if t not in b.open_assumptions) if b.make_ok else 0
    return run.finish(len(b.theorems), disc,
                      "conforming programs of the family G, violating-but-analysable token-edit variants and naming-violating "
                      "variants (a capital in a name, a lower-case macro, a lost prefix); half of them with comments added: the file and its renamed copy (every IDENTIFIER token substituted by raw span "
                      "under a map that is injective on the file's names, preserves length, number of capitals, presence of a "
                      "lower-case letter and the g_/s_/t_/u_/e_ prefix, and never touches a keyword, a reviewed special "
                      "spelling or the guard symbol derived from the file name) are both analysed by Lexer + Registry.run; the "
                      "complete diagnostic lists (code, text, level, every highlight's line, column, length, hint) must be "
                      "equal, and the two token streams must agree in type, line, column and raw span with values related by "
                      "the map; non-trivial = renamings that change at least one name.  Second stream (reported apart): "
                      "upper-case macro names to upper-case names with another number of capitals.  Adversarial streams "
                      "(inside the proved class, same comparison): spellings derived from every reviewed special spelling and "
                      "every keyword - each contiguous substring, each extension by one identifier character in front or "
                      "behind, case variants - none of them special to the tool; (a) in small host programs exactly one "
                      "identifier of a fixed role (global not named g_*, g_* global, local, parameter, function name, struct "
                      "tag, typedef name, macro name; the derived spelling behind the role's prefix) is renamed from a "
                      "neutral spelling of the same class to the derived one (quick: every substring of every special "
                      "spelling in every role, samples of the rest); (b) one name of a generated conforming / violating "
                      "file is renamed to a derived spelling of its class",
                      extra={"histogram": hist, "reviewed_specials": M.REVIEWED_SPECIALS},
                      assumptions=["file-name-derived guard symbols, keywords of norminette.lexer.dictionary.keywords and the "
                                   "reviewed special spellings are never renamed to or from (the property's own exclusion)",
                                   "files that the tool cannot analyse (fatal / exception) are outside this property's quantifier"])
