"""Correspondence for C17 / C18: the Coq predicates and semantics of Model/Obs.v (`rename_ok`, `replace_ok`, `eval_obs`,
`reviewed_specials`) evaluated by coqc (`Eval vm_compute`) on the sampled names / contents of this run, against
 * the Python predicates the search uses to draw its cases (metamorph.rename_ok / replace_ok_py), and
 * Python's own string operations as the rules apply them (len, isupper, startswith, upper() in (...), split ...),
   i.e. the semantics `eval_obs` claims for each observation form.
One generated file per <= 200 cases under build/cases_C17 / build/cases_C18, compiled in parallel."""
import ast
import os
import re
import subprocess
from concurrent.futures import ThreadPoolExecutor

import common
import metamorph as M

LEGAL = "abcdefghijklmnopqrstuvwxyz0123456789_"
LOWER = "abcdefghijklmnopqrstuvwxyz"
DISPATCH = ["define", "elif", "else", "endif", "error", "if", "ifdef", "ifndef", "import", "include", "pragma", "undef", "warning"]
KIND = {"COMMENT": "KLine", "MULT_COMMENT": "KBlock", "STRING": "KString", "CHAR_CONST": "KChar"}
FRAME = {"COMMENT": ("//", ""), "MULT_COMMENT": ("/*", "*/"), "STRING": ('"', '"'), "CHAR_CONST": ("'", "'")}


def cstr(x):
    return "([%s]%%N : str)" % "; ".join(str(ord(c)) for c in x)


def coq_eval(pid, k, header, body):
    """compile one cases file; -> parsed value of its single Eval (Python literal) or ('error', text)"""
    d = os.path.join(common.BUILD, "cases_" + pid)
    os.makedirs(d, exist_ok=True)
    path = os.path.join(d, "cases_%d.v" % k)
    with open(path, "w") as f:
        f.write(header + body)
    p = subprocess.run(["timeout", "300", "coqc", "-R", os.path.join(common.COQ, "theories"), "NV", path], cwd=d,
                       capture_output=True, text=True)
    for ext in (".vo", ".glob", ".vok", ".vos"):
        try:
            os.remove(path[:-2] + ext)
        except OSError:
            pass
    try:
        os.remove(os.path.join(d, ".cases_%d.aux" % k))
    except OSError:
        pass
    if p.returncode != 0:
        return ("error", (p.stderr + p.stdout)[-600:])
    m = re.search(r"=\s*(\[.*\])\s*:\s*list", p.stdout, flags=re.S)
    if not m:
        return ("error", "unparsable coqc output: " + p.stdout[-300:])
    txt = m.group(1).replace(";", ",").replace("true", "True").replace("false", "False").replace("%nat", "").replace("%Z", "")
    try:
        return ast.literal_eval(txt)
    except (ValueError, SyntaxError):
        return ("error", "unparsable result: " + txt[:300])


HEADER = ("From NV Require Import Model.Base Model.Obs.\n"
          "Definition enc (o : obs) : list Z := match o with OB b => [0; if b then 1 else 0] | ON n => [1; Z.of_nat n]\n"
          "  | OL l => 2 :: List.map Z.of_nat l | OI (Some i) => [3; Z.of_nat i + 1] | OI None => [3; 0] | OU => [4] end.\n"
          "Definition forms : list form := [FLen; FIsUpper; FStartsWith (s \"g_\"); FStartsWith (s \"t_\");\n"
          "  FCharsNotIn legal_chars false; FCharsNotIn legal_chars true; FCharsIn lower_chars true;\n"
          "  FUpper (FInLits [s \"IFNDEF\"; s \"ENDIF\"]); FEqLit (s \"define\"); FEqLit (s \"__attribute__\");\n"
          "  FLower (FDispatch [%s]); FUpper FEqFileDerived; FSplitLens [10%%N]; FTruthy].\n"
          "Definition obs_of (guard v : str) : list (list Z) := List.map (fun f => enc (eval_obs guard [] f v)) forms.\n"
          % "; ".join('s "%s"' % x for x in DISPATCH))


def py_obs(guard, v):
    """the same observations with Python's own operations, as the rules write them"""
    up = v.upper()
    lo = v.lower()
    return [[1, len(v)], [0, int(v.isupper())], [0, int(v.startswith("g_"))], [0, int(v.startswith("t_"))],
            [1, sum(1 for c in v if c not in LEGAL)], [1, min(1, sum(1 for c in v if c not in LEGAL))],
            [1, min(1, sum(1 for c in v if c in LOWER))],
            [0, int(up in ("IFNDEF", "ENDIF"))], [0, int(v == "define")], [0, int(v == "__attribute__")],
            [3, DISPATCH.index(lo) + 1 if lo in DISPATCH else 0], [0, int(up == guard)],
            [2] + [len(x) for x in v.split("\n")], [0, int(bool(v))]]


def check_rename(run, b, samples):
    """samples: [(guard, [(old, new), ...])].  -> True when a difference was reported"""
    found = False
    if not b.make_ok:
        return False
    chunks = [samples[i:i + 150] for i in range(0, len(samples), 150)]

    def one(kc):
        k, chunk = kc
        body = "Definition cases : list (str * list (str * str)) :=\n [%s].\n" % ";\n  ".join(
            "(%s, [%s])" % (cstr(g), "; ".join("(%s, %s)" % (cstr(a), cstr(b_)) for a, b_ in ps)) for g, ps in chunk)
        body += "Eval vm_compute in (List.map (fun c => rename_ok (fst c) (snd c)) cases).\n"
        return coq_eval("C18", k, HEADER, body)

    def two(kc):
        k, names = kc
        body = "Eval vm_compute in (List.map (fun gv => obs_of (fst gv) (snd gv)) [%s]).\n" % "; ".join(
            "(%s, %s)" % (cstr(g), cstr(v)) for g, v in names)
        return coq_eval("C18", 100 + k, HEADER, body)

    names = []
    seen = set()
    for g, ps in samples:
        for a, b_ in ps:
            for v in (a, b_):
                if (g, v) not in seen and len(names) < 900:
                    seen.add((g, v))
                    names.append((g, v))
    nchunks = [names[i:i + 300] for i in range(0, len(names), 300)]
    with ThreadPoolExecutor(common.NPROC) as ex:
        outs = list(ex.map(one, enumerate(chunks)))
        outs2 = list(ex.map(two, enumerate(nchunks)))
    n = nontriv = 0
    for chunk, out in zip(chunks, outs):
        if isinstance(out, tuple) and out and out[0] == "error":
            found |= run.violation("correspondence-model-run-failed", {"coqc": out[1]})
            continue
        for (g, ps), got in zip(chunk, out):
            want = M.rename_ok(ps, g)
            n += 1
            nontriv += 1 if any(a != b_ for a, b_ in ps) else 0
            if bool(got) != bool(want):
                found |= run.violation("correspondence-rename_ok", {"guard": g, "pairs": ps, "coq": got, "python": want})
    run.count("correspondence: rename_ok (Coq, vm_compute) vs the Python predicate that draws the renamings", n, nontriv)
    n = 0
    for chunk, out in zip(nchunks, outs2):
        if isinstance(out, tuple) and out and out[0] == "error":
            found |= run.violation("correspondence-model-run-failed", {"coqc": out[1]})
            continue
        for (g, v), got in zip(chunk, out):
            want = py_obs(g, v)
            n += 1
            if [list(x) for x in got] != want:
                found |= run.violation("correspondence-eval_obs", {"guard": g, "name": v, "coq": got, "python": want})
    run.count("correspondence: eval_obs of 14 observation forms (Coq) vs Python's own string operations, per sampled name", n, n)
    # the reviewed list of special spellings is the same on both sides
    out = coq_eval("C18", 999, HEADER, "Eval vm_compute in (List.map (List.map Z.of_N) reviewed_specials).\n")
    if isinstance(out, tuple) and out and out[0] == "error":
        found |= run.violation("correspondence-model-run-failed", {"coqc": out[1]})
    else:
        coq_list = sorted("".join(chr(c) for c in x) for x in out)
        if coq_list != sorted(M.REVIEWED_SPECIALS):
            found |= run.violation("correspondence-reviewed-specials", {"coq": coq_list, "python": sorted(M.REVIEWED_SPECIALS)})
        run.count("correspondence: reviewed special spellings, Coq list vs harness list", 1, 1)
    return found


def replace_ok_ref(kind, old, new):
    """Model/Obs.v replace_ok, re-stated (no printable-ASCII restriction there)"""
    if len(old) != len(new):
        return False
    bad = set("\n\t\\?%:")
    own = {"MULT_COMMENT": "/", "STRING": '"', "CHAR_CONST": "'"}.get(kind)
    for a, b_ in zip(old, new):
        if a in "\n\t":
            if a != b_:
                return False
        elif b_ in bad or b_ == own:
            return False
    return True


def check_replace(run, b, samples):
    """samples: [(kind, old_content, new_content, expected_bool)]"""
    found = False
    if not b.make_ok:
        return False
    chunks = [samples[i:i + 200] for i in range(0, len(samples), 200)]

    def one(kc):
        k, chunk = kc
        body = "Definition cases : list (ckind * str * str * str * str) :=\n [%s].\n" % ";\n  ".join(
            "(%s, %s, %s, %s, %s)" % (KIND[kd], cstr(o), cstr(nw), cstr(FRAME[kd][0]), cstr(FRAME[kd][1])) for kd, o, nw, _ in chunk)
        body += ("Eval vm_compute in (List.map (fun c => let '(k, o, n, op, cl) := c in\n"
                 "  ((if replace_ok k o n then 1 else 0) :: enc (eval_obs [] [] (FSplitLens [10%N]) (op ++ n ++ cl)))) cases).\n")
        return coq_eval("C17", k, HEADER, body)

    with ThreadPoolExecutor(common.NPROC) as ex:
        outs = list(ex.map(one, enumerate(chunks)))
    n = nontriv = 0
    for chunk, out in zip(chunks, outs):
        if isinstance(out, tuple) and out and out[0] == "error":
            found |= run.violation("correspondence-model-run-failed", {"coqc": out[1]})
            continue
        for (kd, o, nw, exp), got in zip(chunk, out):
            n += 1
            nontriv += 1 if o != nw else 0
            ok = bool(got[0])
            printable = all(32 <= ord(c) <= 126 or c in "\n\t" for c in nw)
            want = replace_ok_ref(kd, o, nw)
            if ok != want or (printable and ok != bool(exp)) or (not printable and exp):
                found |= run.violation("correspondence-replace_ok", {"kind": kd, "old": o, "new": nw, "coq": ok,
                                                                     "restated": want, "harness": exp})
            val = FRAME[kd][0] + nw + FRAME[kd][1]
            if list(got[1:]) != [2] + [len(x) for x in val.split("\n")]:
                found |= run.violation("correspondence-eval_obs", {"value": val, "coq": got[1:], "python": [len(x) for x in val.split("\n")]})
    run.count("correspondence: replace_ok and the line-length observation (Coq, vm_compute) vs the Python predicate that draws "
              "the replacements and str.split", n, nontriv)
    return found
