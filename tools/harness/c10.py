"""C10 - lexical check: theorems (Props/C10.v) + L-corr + the extracted property on the implementation's tokens."""
import os
import common
import lexcorr

MINE = {"c09": ("c09-position",), "c10": ("c10-lossless",)}["c10"]


def run(run, tier, seed, replay=None):
    b = common.build(["C10"])
    run.build = b
    found = False
    if b.driver_ok and os.path.exists(os.path.join(common.BUILD, "nvdriver")):
        found = lexcorr.run_lexical_check(run, tier, seed, "c10", MINE, replay)
    common.broken_obligations(run, b, found)
    disc = sum(1 for t in b.theorems if t not in b.open_assumptions) if b.make_ok else 0
    return run.finish(max(len(b.theorems), 4), disc,
                      "every string up to a length bound over reduced alphabets (exhaustive streams listed in 'streams'), structured "
                      "lexeme sequences, truncations and long runs, the repository's test files; each string is lexed by the "
                      "implementation and by the extracted model (tokens, values, positions, raw spans, diagnostics, final state "
                      "compared) and the extracted boolean property is applied to the implementation's tokens; non-trivial = the "
                      "implementation produced a token list (no MaybeInfiniteLoop)",
                      extra={"exhaustive": replay is None},
                      assumptions=["uw/ud (Unicode \\w, \\d) are computed with re for the non-ASCII characters of each input"])
