"""C19 - diagnostics are local: unrelated text only shifts them.

build   : Props/C19.vo - true_pos_shift / token_shift (positions shift rigidly behind a prefix of complete lines),
          prepend_header_count (generated CheckHeader machine: a headerless trace gets exactly one INVALID_HEADER, none
          behind a well-formed header), the reviewed table of history look-backs (Gen/HistoryReads.v).
search  : the property itself on the implementation, on conforming programs of the family G (.c and .h) and on
          violating-but-analysable variants (token edits):
          (a) header: T = the file without its 11 header lines and the blank line after them; diags(header ++ T) must be
              diags(T) minus the INVALID_HEADER diagnostic (exactly one), every line + 11, columns / lengths unchanged;
              also with T starting with an empty line; and the token stream of header ++ T is the header's tokens followed
              by the tokens of T, 11 lines lower, same columns (the correspondence behind Props/C19 token_shift);
          (b) a `// comment` or `/* c */` line at every top-level insertion point (quick: sampled): diagnostics above
              untouched, diagnostics below one line lower;
          (c) blank line + a conforming function appended to a .c file with fewer than five functions: same diagnostics.
Every difference is a VIOLATION unless it falls under one of the documented findings (narrow, computed matchers below).
"""
import multiprocessing as mp
import random

import common
import family
import impl
import lexcorr
import pipeline

HDR = impl.HDR
NHDR = 11
WS = ("SPACE", "TAB", "NEWLINE", "COMMENT", "MULT_COMMENT")
# diagnostics that report that two LINES are adjacent (reviewed; Proofs/HistoryTie.v: relative look-backs of
# CheckEmptyLine): a line put between the two lines legitimately removes them
ADJACENT_CODES = ("NL_AFTER_PREPROC", "CONSECUTIVE_NEWLINES")


# ------------------------------------------------------------------------------------------ implementation side
def analyse_stmts(src, name):
    """impl.analyse + for every recognised statement (line of its first token, scope class before Context.update, rule)"""
    from norminette.context import Context
    stmts = []
    orig = Context.update

    def upd(self):
        rec = None
        if self.tokens:
            rec = [self.tokens[0].pos[0], type(self.scope).__name__, type(self.history[-1]).__name__ if self.history else None, None]
            stmts.append(rec)
        r = orig(self)
        if rec is not None:
            rec[3] = type(self.scope).__name__          # scope after the statement
        return r
    Context.update = upd
    try:
        res = impl.analyse(src, name)
    finally:
        Context.update = orig
    return res, stmts


def line_states(src, name):
    """{line: (brace depth, paren depth, previous significant token (type, line) | None)} at the first token of each line"""
    r = lexcorr.impl_lex(src, name)
    if r["kind"] != "ok":
        return None
    depth = par = 0
    neg = False
    prev = None
    out = {}
    first = {}
    for t in r["tokens"]:
        ty, line = t[0], t[2]
        if line not in out:
            out[line] = (depth, par, prev)
        if ty in WS:
            continue
        first.setdefault(line, ty)
        if ty == "LBRACE":
            depth += 1
        elif ty == "RBRACE":
            depth -= 1
            neg = neg or depth < 0
        elif ty == "LPARENTHESIS":
            par += 1
        elif ty == "RPARENTHESIS":
            par -= 1
        prev = (ty, line)
    out["first"] = first
    out["balanced"] = (depth == 0 and par == 0 and not neg)
    return out


def mis_scoped(states, stmts):
    """the tool's scope at some statement disagrees with the brace structure of the text (a damaged definition is not
    recognised: what follows is analysed in the wrong scope)"""
    if states is None:
        return True
    for line, scope, _, _ in stmts:
        if line in states and states["first"].get(line) != "LBRACE" and (states[line][0] == 0) != (scope == "GlobalScope"):
            return True       # (the `{` that opens a body is at depth 0 but already in the scope of its definition)
    if stmts and states["balanced"] and stmts[-1][3] != "GlobalScope":
        return True           # all braces of the text are closed at its end, the tool is still inside something
    return False


def insertion_points(src, states, stmts):
    """lines L (1-based): a comment line may be put before line L, between two top-level definitions"""
    lines = src.split("\n")
    glob = {line for line, scope, _, _ in stmts if scope == "GlobalScope"}
    pts = []
    for L in sorted(k for k in states if isinstance(k, int)):
        depth, par, prev = states[L]
        if L <= NHDR or L not in glob or depth != 0 or par != 0:
            continue
        if prev is not None and prev[0] not in ("SEMI_COLON", "RBRACE") and not lines[prev[1] - 1].lstrip().startswith("#"):
            continue
        pts.append(L)
    return pts


def shift(d, n, from_line=0):
    return (d[0], d[1], d[2], [((h[0] + n) if h[0] >= from_line else h[0], h[1], h[2], h[3]) for h in d[3]])


def norm(ds):
    return sorted((d[0], d[1], d[2], [tuple(h) for h in d[3]]) for d in ds)


def diff(exp, got):
    exp, got = norm(exp), norm(got)
    missing = [d for d in exp if d not in got]
    extra = [d for d in got if d not in exp]
    # multiset difference
    if not missing and not extra and exp != got:
        return exp, got
    return missing, extra


# ------------------------------------------------------------------------------------------ the three relations
def eval_header(name, T):
    """-> (stream, verdict dict | None)"""
    first_empty = T.startswith("\n")
    rt = impl.analyse(T, name)
    rh = impl.analyse(HDR + T, name)
    data = {"transformation": "a-header", "name": name, "base": T, "variant": HDR + T}
    if rt["kind"] != "ok" or rh["kind"] != "ok":
        if rt["kind"] != rh["kind"]:
            return {"kind": "header-changes-the-outcome", "data": dict(data, base_kind=rt["kind"], variant_kind=rh["kind"]), "finding": None}
        return "skipped"
    nih = sum(1 for d in rt["diags"] if d[0] == "INVALID_HEADER")
    exp = [shift(d, NHDR) for d in rt["diags"] if d[0] != "INVALID_HEADER"]
    missing, extra = diff(exp, rh["diags"])
    if nih == 1 and not missing and not extra:
        return None
    fid = None
    if first_empty and nih == 1 and not extra and [d[0] for d in missing] == ["EMPTY_LINE_FILE_START"] \
            and missing[0][3][0][0] == 1 + NHDR:
        fid = "C19-empty-first-line"
    return {"kind": "header-does-not-only-shift", "finding": fid,
            "data": dict(data, invalid_header_in_base=nih, missing_from_variant=missing[:6], unexpected_in_variant=extra[:6])}


def eval_tokens(name, T):
    a = lexcorr.impl_lex(T, name)
    b = lexcorr.impl_lex(HDR + T, name)
    h = lexcorr.impl_lex(HDR, name)
    if a["kind"] != "ok" or b["kind"] != "ok" or h["kind"] != "ok":
        return "skipped"
    exp = [(t[0], t[1], t[2], t[3]) for t in h["tokens"]] + [(t[0], t[1], t[2] + NHDR, t[3]) for t in a["tokens"]]
    got = [(t[0], t[1], t[2], t[3]) for t in b["tokens"]]
    if exp == got:
        return None
    k = next((i for i, (x, y) in enumerate(zip(exp, got)) if x != y), min(len(exp), len(got)))
    return {"kind": "correspondence-token-shift", "finding": None,
            "data": {"transformation": "a-tokens", "name": name, "base": T, "variant": HDR + T, "first_difference": [exp[k:k + 2], got[k:k + 2]]}}


def eval_comment(name, src, L, comment, base=None, misscoped=None):
    if base is None:
        base, stmts = analyse_stmts(src, name)
        misscoped = mis_scoped(line_states(src, name), stmts)
    lines = src.split("\n")
    v = "\n".join(lines[:L - 1] + [comment] + lines[L - 1:])
    rv = impl.analyse(v, name)
    data = {"transformation": "b-comment", "name": name, "base": src, "variant": v, "line": L, "comment": comment}
    if base["kind"] != "ok":
        return "skipped"
    if rv["kind"] != "ok":
        return {"kind": "comment-line-changes-the-outcome", "finding": "C19-misscoped-file" if misscoped else None,
                "data": dict(data, variant_kind=rv["kind"], msg=rv.get("msg"))}
    missing, extra = diff([shift(d, 1, L) for d in base["diags"]], rv["diags"])
    if not missing and not extra:
        return None
    fid = None
    if misscoped:
        fid = "C19-misscoped-file"
    elif all(d[0] in ADJACENT_CODES and all(L <= h[0] <= L + 2 for h in d[3]) for d in missing + extra):
        fid = "C19-adjacent-lines"
    return {"kind": "comment-line-does-not-only-shift", "finding": fid,
            "data": dict(data, missing_from_variant=missing[:6], unexpected_in_variant=extra[:6])}


def eval_append(name, src, func_text, base=None, misscoped=None):
    if base is None:
        base, stmts = analyse_stmts(src, name)
        states = line_states(src, name)
        if states is None or not states["balanced"]:
            return "skipped"      # braces of the text not closed at its end: what is appended is not at top level
        misscoped = mis_scoped(states, stmts)
    v = src + "\n" + func_text + "\n"
    rv = impl.analyse(v, name)
    data = {"transformation": "c-append", "name": name, "base": src, "variant": v, "function": func_text}
    if base["kind"] != "ok":
        return "skipped"
    eof = any(d[0] == "EMPTY_LINE_EOF" for d in base["diags"]) or not src.endswith("\n") or src.endswith("\n\n")
    if rv["kind"] != "ok":
        return {"kind": "appended-function-changes-the-outcome", "finding": "C19-misscoped-file" if misscoped else None,
                "data": dict(data, variant_kind=rv["kind"], msg=rv.get("msg"))}
    missing, extra = diff(base["diags"], rv["diags"])
    if not missing and not extra:
        return None
    fid = None
    if misscoped:
        fid = "C19-misscoped-file"
    elif eof and all(d[0] in ("EMPTY_LINE_EOF", "CONSECUTIVE_NEWLINES") for d in missing + extra):
        fid = "C19-end-of-file"
    return {"kind": "appended-function-changes-diagnostics", "finding": fid,
            "data": dict(data, missing_from_variant=missing[:6], unexpected_in_variant=extra[:6])}


def conforming_function(rnd):
    for _ in range(40):
        fl = family.func(rnd, family.lname(rnd, 8), rnd.random() < 0.5)
        text = "\n".join(fl)
        if any(len(l.expandtabs(4)) > 80 for l in fl):
            continue
        alone = impl.analyse(HDR + "\n" + text + "\n", "x.c")
        if alone["kind"] == "ok" and not alone["diags"]:
            return text
    return "void\tft_nop(void)\n{\n}"


# ------------------------------------------------------------------------------------------ one file = one job
def _init():
    common.ensure_impl_path()


def file_job(args):
    fseed, idx, npoints = args
    rnd = random.Random(fseed)
    name, src = family.program(rnd)
    variant = False
    if idx % 2 == 1:
        sp = pipeline.token_spans(src, name)
        for e in pipeline.edits(src, sp or [], rnd, 8):
            if e.startswith(HDR + "\n") and impl.analyse(e, name)["kind"] == "ok":
                src, variant = e, True
                break
    out = []        # (stream, result) with result None | "skipped" | dict
    rest = src[len(HDR) + 1:]
    fam = ("violating" if variant else "conforming") + name[-2:]
    for lab, T in (("a header/", rest), ("a header, first line empty/", "\n" + rest)):
        out.append((lab + fam, eval_header(name, T)))
    out.append(("a token streams shift/" + fam, eval_tokens(name, rest)))
    base, stmts = analyse_stmts(src, name)
    states = line_states(src, name)
    ms = mis_scoped(states, stmts)
    if not variant and ms:
        out.append(("sanity: conforming file reported mis-scoped", {"kind": "harness-scope-scan-disagrees-on-conforming-file", "finding": None,
                                                                 "data": {"transformation": "none", "name": name, "base": src, "variant": src}}))
    if base["kind"] == "ok" and states is not None:
        pts = insertion_points(src, states, stmts)
        if npoints and len(pts) > npoints:
            pts = sorted(rnd.sample(pts, npoints))
        for L in pts:
            for c in ("// comment", "/* c */"):
                out.append(("b %s line/%s%s" % (c[:2], fam, " (mis-scoped)" if ms else ""), eval_comment(name, src, L, c, base, ms)))
        nfun = sum(1 for _, _, r, _ in stmts if r == "IsFuncDeclaration")
        if not states["balanced"]:
            out.append(("c append: not applicable (braces of the variant are not balanced)/" + fam, "skipped"))
        elif name.endswith(".c") and nfun < 5 and sum(1 for l in src.split("\n") if l == "{") < 5:
            out.append(("c append/" + fam + (" (mis-scoped)" if ms else ""), eval_append(name, src, conforming_function(rnd), base, ms)))
    return name, variant, out


def run(run, tier, seed, replay=None):
    b = common.build(["C19"], need_driver=False)
    run.build = b
    found = False
    quick = tier == "quick"
    results = []
    if replay is not None:
        d = replay["data"]
        tr = d.get("transformation")
        if tr == "a-header":
            results.append(("replay", eval_header(d["name"], d["base"])))
        elif tr == "a-tokens":
            results.append(("replay", eval_tokens(d["name"], d["base"])))
        elif tr == "b-comment":
            results.append(("replay", eval_comment(d["name"], d["base"], d["line"], d["comment"])))
        elif tr == "c-append":
            results.append(("replay", eval_append(d["name"], d["base"], d["function"])))
    else:
        # corpus first: one fixed pair for each documented finding and its clean neighbour
        f2 = "int\tft_a(void)\n{\n\treturn (0);\n}\n\nint\tft_b(void)\n{\n\treturn (1);\n}\n"
        fixed = HDR + "\n" + f2
        results.append(("corpus/a header", eval_header("k.c", f2)))
        results.append(("corpus/a header, first line empty", eval_header("k.c", "\n" + f2)))
        results.append(("corpus/b comment between two functions", eval_comment("k.c", fixed, 18, "// comment")))
        results.append(("corpus/b comment before the blank line", eval_comment("k.c", fixed, 17, "/* c */")))
        two_blank = fixed.replace("}\n\nint\tft_b", "}\n\n\nint\tft_b")
        results.append(("corpus/b comment between two empty lines", eval_comment("k.c", two_blank, 18, "// comment")))
        glued = HDR + "\n#include <unistd.h>\nint\tg_x;\n\n" + f2
        results.append(("corpus/b comment between a preprocessor line and code", eval_comment("k.c", glued, 14, "// comment")))
        results.append(("corpus/c append", eval_append("k.c", fixed, "void\tft_c(void)\n{\n}")))
        results.append(("corpus/c append to a file that ends with an empty line", eval_append("k.c", fixed + "\n", "void\tft_c(void)\n{\n}")))
        # appending the FIFTH function: files with exactly four functions and globals of several shapes (array sizes with
        # sizeof / casts / macro calls, function pointers, prototypes) - nothing but the definitions may count as functions
        four = "".join("int\tft_%s(void)\n{\n\treturn (%d);\n}\n\n" % (c, i) for i, c in enumerate("abcd"))[:-1]
        for gi, glob_ in enumerate(["static char\tg_buf[sizeof(int)];", "static int\tg_v[(2 + 2)];", "static int\tg_w[(int)4];",
                                    "static int\tg_x[SZ(3)];", "static int\t(*g_fp)(int);", "static int\tft_proto(int a);",
                                    "static int\tg_y = (1 + 2);"]):
            base = HDR + "\n" + glob_ + "\n\n" + four
            results.append(("corpus/c append a fifth function after global %d" % gi, eval_append("k.c", base, "void\tft_e(void)\n{\n}")))
        # declarations whose braces sit in unusual places between two functions (brace on the keyword line, on the name
        # line, type definitions back to back): a comment line at every top-level point after them
        fa = "int\tft_a(int x)\n{\n\tif (x == 7)\n\t\treturn (1);\n\treturn(x);\n}\n"
        fb = "int\tft_b(void)\n{\n\treturn (1);\n}\n"
        for ti, mid in enumerate(["typedef struct s_pair {\n\tint\ta;\n\tint\tb;\n}\tt_pair;\n",
                                  "typedef struct s_pair\n{\n\tint\ta;\n}\tt_pair;\n",
                                  "struct s_pair {\n\tint\ta;\n};\n",
                                  "typedef enum e_k {\n\tA,\n\tB\n}\tt_k;\n",
                                  "typedef union u_v {\n\tint\ta;\n\tchar\tb;\n}\tt_v;\n\ntypedef struct s_q {\n\tint\tz;\n}\tt_q;\n",
                                  "static int\tg_t[2] = {\n\t1,\n\t2\n};\n"]):
            base_src = HDR + "\n" + fa + "\n" + mid + "\n" + fb
            bb, st = analyse_stmts(base_src, "k.c")
            sts = line_states(base_src, "k.c")
            if bb["kind"] != "ok" or sts is None:
                results.append(("corpus/b comment after a type definition %d" % ti, "skipped"))
                continue
            msc = mis_scoped(sts, st)
            for L in insertion_points(base_src, sts, st):
                for c in ("// comment", "/* c */"):
                    results.append(("corpus/b comment after a type definition %d%s" % (ti, " (mis-scoped)" if msc else ""),
                                    eval_comment("k.c", base_src, L, c, bb, msc)))
        nfiles = 90 if quick else 1000
        jobs = [(seed * 100003 + i, i, 8 if quick else 0) for i in range(nfiles)]
        with mp.Pool(common.NPROC, initializer=_init) as pool:
            for name, variant, out in pool.imap(file_job, jobs, chunksize=2):
                results += out
                if len(run.cov["samples"]) < 4 and out:
                    run.sample({"file": name, "violating_variant": variant, "cases": len(out)})
    for stream, r in results:
        if r == "skipped":
            run.count("skipped/" + stream, 1, 0)
            continue
        run.count(stream, 1, 1)
        if r is None:
            continue
        found |= run.violation(r["kind"], r["data"], finding_id=r["finding"])
    common.broken_obligations(run, b, found)
    disc = sum(1 for t in b.theorems if t not in b.open_assumptions) if b.make_ok else 0
    return run.finish(len(b.theorems) or 5, disc,
                      "programs of the family G (.c / .h) and, every second file, a violating-but-analysable token edit of one; per "
                      "file: header in front of the headerless text (also with an empty first line) with the token streams "
                      "compared; a `// comment` and a `/* c */` line at top-level insertion points (quick: 8 sampled per file, "
                      "thorough: all); a conforming function appended to .c files with fewer than five; non-trivial = every pair "
                      "of analyses compared",
                      extra={"exhaustive": False},
                      assumptions=["only the header diagnostic and the rigid shift of token positions are proved; that all other rules' "
                                   "diagnostics only shift is searched (history look-backs pinned to the reviewed table)",
                                   "top-level insertion point = brace/parenthesis depth 0 after `;`, `}` or a preprocessor line AND the "
                                   "tool's own scope there is the global one"])
