"""Whole-pipeline runs (lexer + Registry.run) with an engine probe, in worker processes with a
wall-clock limit per case; token-level edits of programs."""
import contextlib
import io
import multiprocessing as mp
import random

import common

_REG = None


def _init():
    common.ensure_impl_path()
    import impl  # noqa
    import lexcorr
    lexcorr.install_span_probe()


def run_probe(src, name, debug=0, limit=2.0):
    """-> dict(kind, exc, frame, msg, diags, ntokens, log=[(primary name|None, jump)], pops=[(stop, len_before)])
    The probe wraps Registry.run_rules (top-level calls only) and Context.pop_tokens from outside."""
    import impl
    from norminette.file import File
    from norminette.lexer import Lexer
    from norminette.context import Context
    from norminette.registry import Registry
    from norminette.rules import Primary
    from norminette.exceptions import CParsingError
    f = File(name, src)
    out = io.StringIO()
    log, pops, events = [], [], []
    inner_nl = []       # per statement: NEWLINE tokens before its last token
    res = {"kind": "ok", "log": log, "pops": pops, "events": events, "ntokens": None, "inner_newlines": inner_nl}
    reg = Registry()
    depth = [0]
    orig_rr = reg.run_rules
    iteration = {"matched": False}

    def rr(context, rule):
        top = depth[0] == 0
        depth[0] += 1
        try:
            r = orig_rr(context, rule)
        finally:
            depth[0] -= 1
        if top and isinstance(rule, type) and issubclass(rule, Primary) and context.state == "running":
            if r[0] is True:
                log.append((rule.__name__, r[1]))
                events.append(("match", rule.__name__, r[1]))
        return r
    reg.run_rules = rr
    try:
        with impl.time_limit(limit), contextlib.redirect_stdout(out):
            tokens = list(Lexer(f))
            res["ntokens"] = len(tokens)
            ctx = Context(f, tokens, debug, None)
            orig_pop = ctx.pop_tokens

            def pop(stop):
                pops.append((stop, len(ctx.tokens)))
                seg = ctx.tokens[:stop] if isinstance(stop, int) and stop > 0 else []
                inner_nl.append(sum(1 for t in seg[:-1] if t.type == "NEWLINE"))
                events.append(("pop", stop, len(ctx.tokens), seg[0].pos[1] if seg else None,
                               seg[-1].type if seg else None, ctx.scope.name))
                return orig_pop(stop)
            ctx.pop_tokens = pop
            reg.run(ctx)
            res["depth"] = ctx.scope.name
    except impl.Timeout:
        res["kind"] = "timeout"
    except CParsingError as e:
        res["kind"] = "fatal"
        res["msg"] = e.msg[:200]
    except BaseException as e:  # noqa
        if isinstance(e, KeyboardInterrupt):
            raise
        res["kind"] = "exc"
        res["exc"] = type(e).__name__
        res["frame"] = impl.innermost_frame(e.__traceback__)
        res["msg"] = str(e)[:120]
    if res["kind"] == "ok":
        res["diags"] = [impl.diag_tuple(x) for x in f.errors]
        res["status"] = f.errors.status
    res["uncaught"] = "uncaught ->" in out.getvalue()
    res["stdout"] = out.getvalue()[-300:]
    return res


def _work(args):
    src, name, debug = args
    r = run_probe(src, name, debug)
    return src, name, debug, r


def run_many(cases, procs=None):
    """cases: iterable of (src, name, debug).  Yields (src, name, debug, result)."""
    with mp.Pool(procs or common.NPROC, initializer=_init, maxtasksperchild=2000) as pool:
        for x in pool.imap_unordered(_work, cases, chunksize=16):
            yield x


# ------------------------------------------------------------------ token-level edits of a source text
def token_spans(src, name="a.c"):
    import lexcorr
    r = lexcorr.impl_lex(src, name)
    if r["kind"] != "ok":
        return None
    return [(t[4], t[5], t[0]) for t in r["tokens"]]


def prefixes(src, spans, rnd, k):
    cuts = sorted(set(hi for _, hi, _ in spans))
    if len(cuts) > k:
        cuts = sorted(rnd.sample(cuts, k))
    return [src[:c] for c in cuts]


FRAG = ["(", ")", "{", "}", "[", "]", ";", ",", "x", "0", "if", "else", "while", "return", "int", "*", "=", "\n", "\t", " ", "#", "struct",
        "typedef", "\"s\"", "'c'", ":", "?", "->", "//c\n", "/*c*/", "static", "sizeof", "void", "...", "enum", "union", "\\\n", "do", "for"]


def edits(src, spans, rnd, k):
    out = []
    if spans is None:        # the text could not be tokenised by the implementation (reported elsewhere): nothing to edit
        return []
    real = [s for s in spans]
    for _ in range(k):
        if not real:
            break
        kind = rnd.choice(["del", "ins", "rep", "swap", "del2"])
        i = rnd.randrange(len(real))
        lo, hi, _ = real[i]
        if kind == "del":
            out.append(src[:lo] + src[hi:])
        elif kind == "del2" and i + 1 < len(real):
            out.append(src[:lo] + src[real[i + 1][1]:])
        elif kind == "ins":
            out.append(src[:lo] + rnd.choice(FRAG) + src[lo:])
        elif kind == "rep":
            out.append(src[:lo] + rnd.choice(FRAG) + src[hi:])
        elif kind == "swap" and i + 1 < len(real):
            lo2, hi2, _ = real[i + 1]
            out.append(src[:lo] + src[lo2:hi2] + src[hi:lo2] + src[lo:hi] + src[hi2:])
    return out


# ------------------------------------------------------------------ the generic loop model against a recorded run
def engine_request(r, debug):
    """Build the oracle of the model from the events of a real run; -> (Enc, expected) or None."""
    from common import Enc
    oracle = []          # ("M", name, jump) | ("N",) | ("F", msg) | ("C",)
    pending = None
    pops = []
    for ev in r["events"]:
        if ev[0] == "match":
            pending = ev
        else:
            if pending is not None:
                oracle.append(("M", pending[1], pending[2]))
                pending = None
            else:
                oracle.append(("N",))
            pops.append((ev[1], ev[2]))
    unrec_fatal = r["kind"] == "fatal" and r.get("msg", "").startswith("Error: Unrecognized line")
    if pending is not None:
        oracle.append(("M", pending[1], pending[2]))      # matched, then the unrecognised test raised
    elif r["kind"] == "fatal" and not unrec_fatal:
        oracle.append(("F", r.get("msg", "")))
    elif r["kind"] == "exc":
        oracle.append(("C",))
    e = Enc().z(debug).z(r["ntokens"])

    def one(o):
        if o[0] == "M":
            e.z(0).str(o[1]).z(o[2])
        elif o[0] == "N":
            e.z(1)
        elif o[0] == "F":
            e.z(2).str(o[1])
        else:
            e.z(3)
    e.list(oracle, one)
    return e, {"pops": pops, "oracle": oracle, "unrec_fatal": unrec_fatal}


def engine_compare(d, r, exp):
    """d: Dec of the model's answer.  -> None if the model predicts the real run, else a description."""
    def body():
        segs = []
        for _ in range(d.z()):
            if d.z() == 0:
                segs.append(("M", d.str(), d.z(), d.z()))
            else:
                segs.append(("U", d.z()))
        return segs, d.b()
    oc = d.outcome(body)
    kind = r["kind"]
    if kind == "ok":
        if oc[0] != "Ok":
            return "model %r, implementation finished normally" % (oc,)
        segs, chain_ok = oc[1]
        before = [s[2] if s[0] == "M" else s[1] for s in segs]
        if before != [p[1] for p in exp["pops"]]:
            return "token consumption differs: model %r impl %r" % (before[:20], exp["pops"][:20])
        return None
    if kind == "fatal":
        if oc[0] != "Fatal":
            return "model %r, implementation raised CParsingError %r" % (oc[0], r.get("msg"))
        if exp["unrec_fatal"] != oc[1].startswith("Error: Unrecognized line"):
            return "fatal kinds differ: model %r impl %r" % (oc[1][:40], r.get("msg", "")[:40])
        return None
    if kind == "exc":
        return None if oc[0] == "Crash" else "model %r, implementation raised %s" % (oc[0], r.get("exc"))
    return None
