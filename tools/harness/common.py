"""Shared machinery of the checks: build (translate + make + extraction + driver), the
protocol with the extracted model, known findings, replays, evidence."""
import fcntl
import hashlib
import json
import os
import re
import subprocess
import sys
import time

VERIF = os.path.dirname(os.path.dirname(os.path.dirname(os.path.abspath(__file__))))
REPO = os.environ.get("NV_REPO", "/repo")
COQ = os.path.join(VERIF, "coq")
BUILD = os.path.join(VERIF, "build")
PY = os.environ.get("NV_PYTHON", "/venv/bin/python")
NPROC = min(16, os.cpu_count() or 4)

TRUSTED_BASE = [
    "Coq 8.16.1 kernel (coqc, full .vo build, vm_compute used, native_compute not used)",
    "no axioms: every property theorem is 'Closed under the global context' (Print Assumptions re-run on every check)",
    "tools/translate.py + tools/pyexpr.py (Python-ast/import based translator emitting coq/theories/Gen/*.v)",
    "extraction: ExtrOcamlBasic only (bool,list,option,prod,unit,sumbool -> OCaml), no Extract Constant; ml/drv_*.ml driver; ocamlfind ocamlopt",
    "the correspondence harness (tools/harness/*.py): same inputs to /repo's code and to the extracted model, canonicalised outputs compared",
    "CPython library behaviour taken as given: list.sort (stable, correct on strict weak orders), re, json.dumps, argparse, glob/pathlib, open()",
]


def env_impl():
    e = dict(os.environ)
    e["PYTHONPATH"] = REPO
    e["PYTHONHASHSEED"] = "0"
    e["PYTHONDONTWRITEBYTECODE"] = "1"
    e.pop("NORMINETTE_VERIF", None)
    return e


def ensure_impl_path():
    """Make `import norminette` resolve to REPO in this process."""
    if sys.path[0] != REPO:
        sys.path.insert(0, REPO)
    sys.dont_write_bytecode = True
    for k in list(sys.modules):
        if k == "norminette" or k.startswith("norminette."):
            m = sys.modules[k]
            f = getattr(m, "__file__", "") or ""
            if not f.startswith(REPO):
                del sys.modules[k]


class Lock:
    def __init__(self, name=".lock"):
        self.path = os.path.join(VERIF, name)

    def __enter__(self):
        self.f = open(self.path, "w")
        fcntl.flock(self.f, fcntl.LOCK_EX)
        return self

    def __exit__(self, *a):
        fcntl.flock(self.f, fcntl.LOCK_UN)
        self.f.close()


class BuildResult:
    def __init__(self):
        self.translate_errors = []      # [(gen file, message)]
        self.unrelated_translate_errors = []   # failures of Gen files this property does not depend on (reported, not counted)
        self.changed = []
        self.make_ok = True
        self.make_log = ""
        self.broken = []                # [{file, line, lemma, message}]
        self.assumptions = {}           # theorem -> text
        self.open_assumptions = []      # theorems not closed
        self.forbidden = []             # grep hits for Admitted/Axiom/...
        self.theorems = []
        self.driver_ok = True
        self.wall = 0.0

    @property
    def ok(self):
        return (not self.translate_errors and self.make_ok and not self.open_assumptions and not self.forbidden
                and self.driver_ok)

    def describe(self):
        out = []
        for f, m in self.translate_errors:
            out.append("translator: Gen/%s.v: %s" % (f, m))
        for b in self.broken:
            out.append("proof obligation: %s line %s (%s): %s" % (b["file"], b["line"], b.get("lemma"), b["message"][:300]))
        if not self.make_ok and not self.broken:
            out.append("make failed: " + self.make_log[-400:])
        for t in self.open_assumptions:
            out.append("open assumptions under %s: %s" % (t, self.assumptions.get(t, "")[:200]))
        for h in self.forbidden:
            out.append("forbidden construct: " + h)
        if not self.driver_ok:
            out.append("extracted driver failed to build")
        return out


FORBIDDEN = re.compile(r"\b(Admitted|admit|Axiom|Axioms|Parameter|Parameters|Conjecture|Hypothesis|Variable)\b|Unset Guard|bypass_check|type-in-type|impredicative-set|Admit Obligations")


def grep_forbidden():
    hits = []
    for root, _, files in os.walk(os.path.join(COQ, "theories")):
        for fn in files:
            if not fn.endswith(".v"):
                continue
            p = os.path.join(root, fn)
            depth = 0       # Section nesting: Variable/Hypothesis are allowed inside sections only
            with open(p) as f:
                txt = f.read()
            txt = re.sub(r"\(\*.*?\*\)", lambda m: " " * 0 + "\n" * m.group(0).count("\n"), txt, flags=re.S)
            txt = re.sub(r'"[^"]*"', '""', txt)
            for i, line in enumerate(txt.split("\n"), 1):
                if re.match(r"\s*Section\b", line):
                    depth += 1
                if re.match(r"\s*End\b", line) and depth > 0:
                    depth -= 1
                m = FORBIDDEN.search(line)
                if m:
                    w = m.group(1)
                    if w in ("Hypothesis", "Variable") and depth > 0:
                        continue
                    hits.append("%s:%d: %s" % (os.path.relpath(p, VERIF), i, line.strip()[:120]))
    return hits


def _enclosing_lemma(path, line):
    try:
        with open(path) as f:
            lines = f.read().split("\n")
    except OSError:
        return None
    for i in range(min(line, len(lines)) - 1, -1, -1):
        m = re.match(r"\s*(Theorem|Lemma|Corollary|Example|Definition|Fixpoint|Fact|Remark)\s+(\w+)", lines[i])
        if m:
            return m.group(2)
    return None


def build(prop_ids, need_driver=True, timeout=1500):
    """translate + make Props/<id>.vo (+ Extract) + Print Assumptions + driver.  Serialised by a lock."""
    t0 = time.time()
    r = BuildResult()
    with Lock():
        os.makedirs(BUILD, exist_ok=True)
        gen = os.path.join(COQ, "theories", "Gen")
        p = subprocess.run([sys.executable, os.path.join(VERIF, "tools", "translate.py"), REPO, gen],
                           capture_output=True, text=True, env=env_impl())
        try:
            with open(os.path.join(gen, "TRANSLATE_STATUS.json")) as f:
                st = json.load(f)
            r.translate_errors = [tuple(x) for x in st["errors"]]
            r.changed = st["changed"]
        except (OSError, ValueError):
            r.translate_errors = [("*", "translator crashed: " + (p.stdout + p.stderr)[-400:])]
        subprocess.run([os.path.join(VERIF, "tools", "mkproject.sh")], check=True)
        targets = ["theories/Props/%s.vo" % i for i in prop_ids]
        ml = os.path.join(BUILD, "ml", "nvmodel.ml")
        if need_driver:
            if not os.path.exists(ml):
                for ext in (".vo", ".glob"):
                    try:
                        os.remove(os.path.join(COQ, "theories", "Extract", "Extract" + ext))
                    except OSError:
                        pass
            targets.append("theories/Extract/Extract.vo")
        os.makedirs(os.path.join(BUILD, "ml"), exist_ok=True)
        ml_before = os.path.getmtime(ml) if os.path.exists(ml) else 0
        mk = subprocess.run(["timeout", str(timeout), "make", "-k", "-j%d" % NPROC] + targets, cwd=COQ,
                            capture_output=True, text=True)
        r.make_log = mk.stdout + mk.stderr
        r.make_ok = mk.returncode == 0
        if not r.make_ok:
            for m in re.finditer(r'File "\./([^"]+)", line (\d+), characters [^\n]*\n(Error:?.*?)(?=\n\n|\nmake|\Z)',
                                 r.make_log, flags=re.S):
                fp, ln, msg = m.group(1), int(m.group(2)), m.group(3)
                r.broken.append({"file": fp, "line": ln, "lemma": _enclosing_lemma(os.path.join(COQ, fp), ln),
                                 "message": " ".join(msg.split())})
        # Print Assumptions for every theorem of the property files that did build
        for pid in prop_ids:
            vo = os.path.join(COQ, "theories", "Props", pid + ".vo")
            src = os.path.join(COQ, "theories", "Props", pid + ".v")
            if not os.path.exists(vo) or os.path.getmtime(vo) < os.path.getmtime(src):
                continue
            with open(src) as f:
                names = re.findall(r"^\s*Theorem\s+(\w+)", f.read(), flags=re.M)
            r.theorems += names
            pa = os.path.join(BUILD, "pa_%s.v" % pid)
            with open(pa, "w") as f:
                f.write("From NV Require Import Props.%s.\n" % pid)
                for nme in names:
                    f.write('Goal True. idtac "@@%s". exact I. Qed.\nPrint Assumptions %s.\n' % (nme, nme))
            q = subprocess.run(["timeout", "300", "coqtop", "-R", "theories", "NV", "-batch", "-l", pa], cwd=COQ,
                               capture_output=True, text=True)
            chunks = re.split(r"@@(\w+)\n", q.stdout)
            for k in range(1, len(chunks) - 1, 2):
                nme, txt = chunks[k], chunks[k + 1].strip()
                r.assumptions[nme] = txt
                if "Closed under the global context" not in txt:
                    r.open_assumptions.append(nme)
            for nme in names:
                if nme not in r.assumptions:
                    r.assumptions[nme] = "(Print Assumptions produced no output: %s)" % q.stderr[-200:]
                    r.open_assumptions.append(nme)
        r.forbidden = grep_forbidden()
        # a translation failure only breaks the tie of the properties whose Props file depends on that Gen file
        # (the extraction also needs the Gen files the extracted models use)
        try:
            deps = {}
            with open(os.path.join(COQ, ".Makefile.d")) as f:
                for line in f:
                    if ".vo " in line.split(":")[0] + " " and ":" in line:
                        tg, _, src = line.partition(":")
                        for t in tg.split():
                            if t.endswith(".vo"):
                                deps[t] = [x for x in src.split() if x.endswith(".vo")]
            roots = ["theories/Props/%s.vo" % i for i in prop_ids] + (["theories/Extract/Extract.vo"] if need_driver else [])
            seen, todo = set(), list(roots)
            while todo:
                x = todo.pop()
                if x in seen:
                    continue
                seen.add(x)
                todo += deps.get(x, [])
            used = {os.path.basename(x)[:-3] for x in seen if x.startswith("theories/Gen/")}
            if seen - set(roots):
                r.unrelated_translate_errors = [e for e in r.translate_errors if e[0] != "*" and e[0] not in used]
                r.translate_errors = [e for e in r.translate_errors if e[0] == "*" or e[0] in used]
        except OSError:
            pass
        if need_driver:
            drv = os.path.join(BUILD, "nvdriver")
            stale = (not os.path.exists(drv)) or (os.path.exists(ml) and os.path.getmtime(ml) > os.path.getmtime(drv)) \
                or any(os.path.getmtime(os.path.join(VERIF, "ml", f)) > os.path.getmtime(drv)
                       for f in os.listdir(os.path.join(VERIF, "ml")))
            if not os.path.exists(ml):
                r.driver_ok = False
            elif stale:
                b = subprocess.run([os.path.join(VERIF, "tools", "build_driver.sh")], capture_output=True, text=True)
                r.driver_ok = b.returncode == 0 and os.path.exists(drv)
                if not r.driver_ok:
                    r.make_log += "\n[driver] " + b.stdout[-2000:] + b.stderr[-2000:]
    r.wall = time.time() - t0
    return r


# ---------------------------------------------------------------------- driver protocol
class Enc:
    """Flat-int encoder matching ml/drv_base.ml."""
    def __init__(self):
        self.o = []

    def z(self, v):
        self.o.append(int(v)); return self

    def b(self, v):
        self.o.append(1 if v else 0); return self

    def str(self, x):
        self.o.append(len(x)); self.o.extend(ord(c) for c in x); return self

    def opt(self, v, f):
        if v is None:
            self.o.append(0)
        else:
            self.o.append(1); f(v)
        return self

    def list(self, xs, f):
        self.o.append(len(xs))
        for x in xs:
            f(x)
        return self

    def hl(self, h):      # (line, col, length|None, hint|None)
        self.z(h[0]).z(h[1]).opt(h[2], self.z).opt(h[3], self.str); return self

    def diag(self, d):    # (name, text, level, [hl])
        self.str(d[0]).str(d[1]).str(d[2]).list(d[3], self.hl); return self

    def text(self):
        return " ".join(map(str, self.o))


class Dec:
    def __init__(self, line):
        if line.startswith("ERR"):
            raise RuntimeError("driver: " + line)
        self.t = [int(x) for x in line.split()]
        self.i = 0

    def z(self):
        v = self.t[self.i]; self.i += 1; return v

    def b(self):
        return self.z() != 0

    def str(self):
        n = self.z()
        v = "".join(chr(c) for c in self.t[self.i:self.i + n]); self.i += n; return v

    def opt(self, f):
        return f() if self.z() else None

    def list(self, f):
        return [f() for _ in range(self.z())]

    def hl(self):
        return (self.z(), self.z(), self.opt(self.z), self.opt(self.str))

    def diag(self):
        return (self.str(), self.str(), self.str(), self.list(self.hl))

    def outcome(self, f):
        k = self.z()
        if k == 0:
            return ("Ok", f())
        if k == 1:
            return ("Fatal", self.str())
        if k == 2:
            return ("Crash", EXN[self.z()])
        return ("Hang", None)


EXN = ["UnexpectedEOF", "MaybeInfiniteLoop", "RecursionError", "TypeError", "IndexError", "AttributeError", "KeyError",
       "UnboundLocalError", "AssertionError", "Unmodelled"]


class Driver:
    def __init__(self):
        self.p = subprocess.Popen([os.path.join(BUILD, "nvdriver")], stdin=subprocess.PIPE, stdout=subprocess.PIPE,
                                  text=True, bufsize=1 << 20)

    def call(self, cmd, enc):
        self.p.stdin.write(cmd + " " + enc.text() + "\n")
        self.p.stdin.flush()
        line = self.p.stdout.readline()
        if not line:
            raise RuntimeError("driver died on %s" % cmd)
        return Dec(line.strip())

    def batch(self, reqs):
        """reqs: list of (cmd, Enc) -> list of Dec; written in one go, read back in order."""
        data = "".join(c + " " + e.text() + "\n" for c, e in reqs)
        import threading
        t = threading.Thread(target=lambda: (self.p.stdin.write(data), self.p.stdin.flush()))
        t.start()
        out = []
        for _ in reqs:
            line = self.p.stdout.readline()
            if not line:
                raise RuntimeError("driver died in batch")
            out.append(line.strip())
        t.join()
        return [Dec(x) if not x.startswith("ERR") else x for x in out]

    def close(self):
        try:
            self.p.stdin.close()
            self.p.wait(timeout=5)
        except Exception:
            self.p.kill()


# ---------------------------------------------------------------------- findings / replays / evidence
def load_findings(pid):
    out = []
    p = os.path.join(VERIF, "KNOWN_FINDINGS.jsonl")
    if os.path.exists(p):
        with open(p) as f:
            for line in f:
                line = line.strip()
                if not line or line.startswith("#"):
                    continue
                d = json.loads(line)
                if d["property"] == pid:
                    out.append(d)
    return out


class Run:
    """One check run: collects violations, known findings, counts; writes evidence; decides exit."""
    def __init__(self, pid, tier, seed):
        self.pid, self.tier, self.seed = pid, tier, seed
        self.t0 = time.time()
        self.violations = []        # [(replay path, summary)]
        self.deferred = []          # correspondence differences: reported at the end, see finish()
        self.known_seen = {}        # finding id -> count
        self.known_example = {}     # finding id -> first input of this run that showed it
        self.findings = load_findings(pid)
        self.cov = {"evaluations": 0, "distinct_nontrivial": 0, "samples": [], "streams": {}}
        self.notes = []
        self.build = None

    def known(self, fid):
        return any(f["id"] == fid and f["status"] == "known" for f in self.findings)

    def count(self, stream, n=1, nontrivial=0):
        s = self.cov["streams"].setdefault(stream, {"evaluations": 0, "nontrivial": 0})
        s["evaluations"] += n
        s["nontrivial"] += nontrivial
        self.cov["evaluations"] += n
        self.cov["distinct_nontrivial"] += nontrivial

    def sample(self, x, cap=6):
        if len(self.cov["samples"]) < cap:
            self.cov["samples"].append(x)

    def violation(self, kind, data, finding_id=None, no_input=False):
        """Report a failing input (or a broken obligation).  Suppressed only by a `known` entry with that id.
        A difference between model and implementation (kind starting with `correspondence-`) is not by itself an
        input on which the PROPERTY fails: it is kept until the end and printed with `no-failing-input-found`
        unless the searches of this run also produced a concrete property violation."""
        if finding_id and self.known(finding_id):
            self.known_seen[finding_id] = self.known_seen.get(finding_id, 0) + 1
            if finding_id not in self.known_example:
                self.known_example[finding_id] = json.loads(json.dumps({"kind": kind, "data": data}, default=str)[:6000] + "") \
                    if len(json.dumps(data, default=str)) < 5900 else {"kind": kind, "data": str(data)[:3000]}
            return False
        if kind.startswith("correspondence-") and not no_input:
            if len(self.deferred) < 50:
                self.deferred.append((kind, data))
            return False
        d = os.path.join(VERIF, "replays", self.pid)
        os.makedirs(d, exist_ok=True)
        body = {"property": self.pid, "kind": kind, "seed": self.seed, "tier": self.tier, "data": data,
                "replay_cmd": "./check %s --replay <this file>" % self.pid}
        blob = json.dumps(body, sort_keys=True, default=str)
        h = hashlib.sha1(blob.encode()).hexdigest()[:12]
        path = os.path.join(d, "%s-%s.json" % (kind.replace(" ", "_")[:40], h))
        with open(path, "w") as f:
            f.write(json.dumps(body, indent=1, default=str))
        if len(self.violations) < 5:
            print("VIOLATION property=%s replay=%s%s" % (self.pid, path, " no-failing-input-found" if no_input else ""),
                  flush=True)
        self.violations.append((path, kind))
        return True

    def finish(self, obligations, discharged, rule, extra=None, assumptions=None):
        concrete = bool(self.violations)
        for kind, data in self.deferred[:5]:
            self.violation(kind, data, no_input=not concrete)
        for f in self.findings:
            if f["status"] == "known":
                n = self.known_seen.get(f["id"], 0)
                print("KNOWN-FINDING: property=%s %s [%s; seen %d times in this run]" % (self.pid, f["what"], f["id"], n))
        cov = dict(self.cov)
        cov["rule"] = rule
        cov["obligations"] = obligations
        cov["discharged"] = discharged
        cov["checker_cmd"] = "tools/translate.py /repo coq/theories/Gen && make -C coq theories/Props/%s.vo (coqc 8.16.1) && coqtop -batch Print Assumptions" % self.pid
        cov["trusted_base"] = TRUSTED_BASE
        if not cov["samples"]:
            cov["samples"] = ["(no case was generated)"]
        if extra:
            cov.update(extra)
        if self.build is not None:
            cov["theorems"] = self.build.theorems
            cov["assumptions"] = {k: v for k, v in self.build.assumptions.items()}
            cov["build_problems"] = self.build.describe()
            cov["gen_files_changed_this_run"] = self.build.changed
        cov["known_findings_seen"] = self.known_seen
        cov["known_findings_first_example"] = self.known_example
        ev = {"property_id": self.pid, "tier": self.tier, "seed": self.seed, "level": "proof", "coverage": cov,
              "assumptions": (assumptions or []) + self.notes, "wall_s": round(time.time() - self.t0, 2),
              "violations": len(self.violations)}
        os.makedirs(os.path.join(VERIF, "evidence"), exist_ok=True)
        with open(os.path.join(VERIF, "evidence", self.pid + ".json"), "w") as f:
            json.dump(ev, f, indent=1, default=str)
        print("%s %s: %d evaluations, %d obligations (%d discharged), %d violations, %.1fs" % (
            self.pid, self.tier, cov["evaluations"], obligations, discharged, len(self.violations), time.time() - self.t0))
        return 1 if self.violations else 0


def broken_obligations(run, b, found_input):
    """After the searches: if the build/tie is broken and no concrete failing input was reported, report
    the broken obligation itself (VIOLATION ... no-failing-input-found)."""
    if b.ok:
        return
    if found_input or run.violations:
        return
    run.violation("broken-obligation", {"problems": b.describe(), "make_log_tail": b.make_log[-1500:]}, no_input=True)


# ---------------------------------------------------------------------- independent re-check (thorough tier)
def coqchk(pid, timeout=3600):
    """Re-check Props/<pid>.vo and everything it depends on with the independent checker; -> dict(ok, axioms, summary)."""
    try:
        p = subprocess.run(["timeout", str(timeout), "coqchk", "-silent", "-o", "-R", "theories", "NV", "NV.Props.%s" % pid],
                           cwd=COQ, capture_output=True, text=True)
    except OSError as e:
        return {"ok": False, "axioms": None, "summary": "coqchk could not be started: %s" % e}
    out = p.stdout + p.stderr
    m = re.search(r"\* Axioms:(.*?)\n\s*\n\* Constants/Inductives relying on type-in-type:(.*?)\n\s*\n\* Constants/Inductives relying on unsafe \(co\)fixpoints:(.*?)\n\s*\n\* Inductives whose positivity is assumed:(.*?)\n", out, flags=re.S)
    if p.returncode != 0 or not m:
        return {"ok": False, "axioms": None, "summary": out[-600:]}
    fields = [" ".join(x.split()) for x in m.groups()]
    ok = all(f == "<none>" for f in fields)
    return {"ok": ok, "axioms": fields[0], "type_in_type": fields[1], "unsafe_fixpoints": fields[2], "assumed_positivity": fields[3],
            "summary": "coqchk -o NV.Props.%s: axioms %s; type-in-type %s; unsafe fixpoints %s; assumed positivity %s" % ((pid,) + tuple(fields))}
