"""L-corr: the lexer model (extracted) against Lexer on the same strings, plus the boolean
properties C09/C10 (extracted definitions) applied to the implementation's tokens."""
import itertools
import multiprocessing as mp
import os
import random
import re

import common
from common import Enc

_DRV = None
_W = None


def classes_for(src):
    w, d = [], []
    for ch in set(src):
        if ord(ch) >= 128:
            if re.match(r"\w", ch):
                w.append(ord(ch))
            if re.match(r"\d", ch):
                d.append(ord(ch))
    return sorted(w), sorted(d)


def enc_classes(e, src):
    w, d = classes_for(src)
    e.list(w, e.z).list(d, e.z)
    return e


def install_span_probe():
    """Wrap the sub-parsers of Lexer from outside so that the raw span of every token is recorded."""
    import norminette.lexer.lexer as LX
    L = LX.Lexer
    if getattr(L, "_nv_wrapped", False):
        return
    orig = L.parsers

    def wrap(p):
        def w(self):
            lo = self._Lexer__pos
            r = p(self)
            if r:
                sp = getattr(self, "_nv_spans", None)
                if sp is not None:
                    sp.append((lo, self._Lexer__pos))
            return r
        w.__name__ = p.__name__
        return w
    L.parsers = tuple(wrap(p) for p in orig)
    L._nv_wrapped = True


def impl_lex(src, name="a.c", limit=5.0):
    import impl
    from norminette.file import File
    from norminette.lexer import Lexer
    install_span_probe()
    f = File(name, src)
    lx = Lexer(f)
    lx._nv_spans = []
    toks = []
    try:
        with impl.time_limit(limit):
            while True:
                t = lx.get_next_token()
                if t is None:
                    break
                toks.append(t)
    except impl.Timeout:
        return {"kind": "timeout"}
    except BaseException as e:  # noqa
        if isinstance(e, KeyboardInterrupt):
            raise
        return {"kind": "exc", "exc": type(e).__name__, "frame": impl.innermost_frame(e.__traceback__)}
    if len(lx._nv_spans) != len(toks):
        return {"kind": "exc", "exc": "SpanProbeMismatch", "frame": None}
    return {"kind": "ok",
            "tokens": [(t.type, t.value, t.pos[0], t.pos[1], lo, hi) for t, (lo, hi) in zip(toks, lx._nv_spans)],
            "diags": [impl.diag_tuple(x) for x in f.errors._inner],
            "end": (lx._Lexer__pos, lx._Lexer__line, lx._Lexer__line_pos)}


def dec_item(d):
    k = d.z()
    if k == 0:
        ty, l, c, v = d.str(), d.z(), d.z(), d.opt(d.str)
        return ("tok", (ty, v, l, c, d.z(), d.z()))
    if k == 1:
        return ("bad", d.z())
    return ("skip", (d.z(), d.z()))


def dec_lex(d):
    def body():
        items = d.list(lambda: dec_item(d))
        ds = d.list(d.diag)
        end = (d.z(), d.z(), d.z())
        return items, ds, end
    oc = d.outcome(body)
    if oc[0] == "Ok":
        items, ds, end = oc[1]
        return {"kind": "ok", "tokens": [x for k, x in items if k == "tok"], "diags": ds, "end": end,
                "bad": [x for k, x in items if k == "bad"], "skips": [x for k, x in items if k == "skip"]}
    if oc[0] == "Crash":
        return {"kind": "exc", "exc": oc[1]}
    return {"kind": oc[0].lower()}


def req_lex(src):
    return ("lex", enc_classes(Enc(), src).str(src))


def req_props(src, r):
    e = Enc().str(src)
    e.list(r["tokens"], lambda t: (e.str(t[0]), e.z(t[2]), e.z(t[3]), e.opt(t[1], e.str), e.z(t[4]), e.z(t[5])))
    e.list(r["diags"], e.diag)
    return ("lexprops", e)


def dec_props(d):
    c09, tile, c10 = d.b(), d.b(), d.b()
    bad9 = d.list(lambda: dec_item(d))
    bad10 = d.list(lambda: dec_item(d))
    return {"c09": c09, "tile": tile, "c10": c10, "bad9": bad9, "bad10": bad10}


def same(a, b):
    if a["kind"] != b["kind"]:
        return False
    if a["kind"] == "exc":
        return a["exc"] == b["exc"]
    if a["kind"] != "ok":
        return True
    return a["tokens"] == b["tokens"] and a["diags"] == b["diags"] and tuple(a["end"]) == tuple(b["end"])


def _init():
    global _DRV
    common.ensure_impl_path()
    _DRV = common.Driver()


def _work(chunk):
    """-> (n, failures, histogram).  failures: list of dicts {what, src, ...}"""
    srcs = chunk
    res = _DRV.batch([req_lex(x) for x in srcs])
    fails = []
    hist = {}
    impls = []
    for src, d in zip(srcs, res):
        m = dec_lex(d) if not isinstance(d, str) else {"kind": "driver-error", "exc": d}
        r = impl_lex(src)
        impls.append(r)
        key = r["kind"] if r["kind"] != "exc" else "exc:" + r["exc"]
        hist[key] = hist.get(key, 0) + 1
        if r["kind"] == "ok":
            for t in r["tokens"]:
                hist["tok:" + t[0]] = hist.get("tok:" + t[0], 0) + 1
            for dg in r["diags"]:
                hist["diag:" + dg[0]] = hist.get("diag:" + dg[0], 0) + 1
        if not same(m, r):
            fails.append({"what": "correspondence-lexer", "src": src, "model": repr(m)[:1500], "impl": repr(r)[:1500]})
        if r["kind"] in ("exc", "timeout"):
            fails.append({"what": "lexer-not-total", "src": src, "exc": r.get("exc", "timeout"), "frame": r.get("frame")})
    # the extracted boolean properties are quadratic in the input: long inputs only go through the correspondence
    oks = [(src, r) for src, r in zip(srcs, impls) if r["kind"] == "ok" and len(src) <= 1500]
    hist["props-skipped-long"] = hist.get("props-skipped-long", 0) + sum(1 for src, r in zip(srcs, impls) if r["kind"] == "ok" and len(src) > 1500)
    if oks:
        pres = _DRV.batch([req_props(src, r) for src, r in oks])
        for (src, r), d in zip(oks, pres):
            if isinstance(d, str):
                fails.append({"what": "driver-error", "src": src, "msg": d})
                continue
            p = dec_props(d)
            if not p["c09"]:
                fails.append({"what": "c09-position", "src": src, "items": repr(p["bad9"])[:800]})
            if not p["c10"]:
                fails.append({"what": "c10-lossless", "src": src, "tile": p["tile"], "items": repr(p["bad10"])[:800]})
    return len(srcs), fails, hist


def run_strings(strings, chunk=400):
    """Run the correspondence + properties on an iterable of strings, in parallel.
    -> (count, failures, histogram)"""
    def chunks():
        buf = []
        for x in strings:
            buf.append(x)
            if len(buf) >= chunk:
                yield buf
                buf = []
        if buf:
            yield buf
    total, fails, hist = 0, [], {}
    with mp.Pool(common.NPROC, initializer=_init) as pool:
        for n, f, h in pool.imap_unordered(_work, chunks()):
            total += n
            if len(fails) < 200:
                fails.extend(f)
            for k, v in h.items():
                hist[k] = hist.get(k, 0) + v
    return total, fails, hist


# ------------------------------------------------------------------------- input families
REDUCED = ["a", "0", "1", "8", "x", "b", "e", "p", "u", "l", "f", ".", "+", "-", "'", '"', "\\", "/", "*", "\n", "\t", " ", "?",
           "<", ":", "%", ">", "=", "&", "|", "(", "{", "#", "@", "\u00e9", "_"]
NUMERIC = list("01789abefxpul.+-_")
QUOTE = ["a", "'", '"', "\\", "\n", "x", "0", "L", "u", "8", "q", "?", "/"]
SPLICE = ["a", " ", "\t", "\n", "\\", '"', "/", "*", "'"]
GRAPH = ["?", "<", ">", "%", ":", "/", "\n", "\\", "a", "=", "(", "'", '"', "!", "-"]


# characters that str.splitlines() / universal newlines treat as line ends but the tokenizer does not, and CR
LINEISH = ["a", " ", "\n", "\r", "\f", "\v", "\x1c", "\u0085", "\u2028"]
# escapes spelled with the trigraph backslash, next to tabs and quotes
ESCPIECES = ['"', "'", "??/", "\\", "\t", "a", " ", "\n"]   # trigraph backslash as ONE symbol: escapes and splices at depth
TRIESC = ['"', "'", "?", "/", "\t", "a", "\\"]


def exhaustive(alpha, maxlen, minlen=0):
    for n in range(minlen, maxlen + 1):
        for t in itertools.product(alpha, repeat=n):
            yield "".join(t)


LEXEMES = ["foo", "bar_2", "int", "return", "while", "NULL", "sizeof", "x", "_y", "0", "42", "0x1F", "0b101", "077", "1.5", "1e10",
           "1.5e-3f", "0x1.8p3", ".5", "5.", "10UL", "1ull", "0xb3ba", "'a'", "'\\n'", "'\\x41'", "'\\0'", "L'a'", "\"str\"", "\"a\\tb\"",
           "u8\"x\"", "\"\"", "+", "-", "*", "/", "%", "=", "==", "!=", "<=", ">=", "<<", ">>", "<<=", ">>=", "&&", "||", "->", "++",
           "--", "...", ".", ",", ";", ":", "?", "#", "~", "^", "&", "|", "!", "(", ")", "{", "}", "[", "]", "<%", "%>", "<:", ":>",
           "%:", "??<", "??>", "??(", "??)", "??=", "??'", "??!", "??-", " ", " ", "\t", "\n", "\n", "// c\n", "/* c */", "/* a\n\tb */",
           "\\\n", "??/\n", "// a \\\n b\n", "\"ab\\\ncd\"", "/*\t*/", "'\\\n'", "\u00e9", "@", "$", "`", "08", "0b12", "1.2.3", "1e+", "1.5q",
           "0xx1.8p1", "''", "'ab'", "'a", "\"abc", "/* open", "\\", "??/", "0xE+1", "12ab", "'\\q'", "\"\\x\"", "#define", "#include <a.h>"]


def structured(rnd, n, lo=5, hi=60):
    for _ in range(n):
        k = rnd.randint(lo, hi)
        yield "".join(rnd.choice(LEXEMES) for _ in range(k))


def malformed(rnd, n):
    for _ in range(n):
        base = "".join(rnd.choice(LEXEMES) for _ in range(rnd.randint(3, 30)))
        cut = rnd.randint(0, len(base))
        yield base[:cut]
    for k in (10, 99, 100, 101, 500, 1500, 5000):
        yield "@" * k
        yield "\\" * k
        yield "/*" * k
    for k in (98, 99, 100, 101):
        yield "\"" + "\\\n" * k + "a\""
        yield "// " + "\\\n" * k + "a\n"
        yield "'" + "a" * k + "'"
        yield "\\\n" * k + "x"


def repo_test_files():
    import glob
    out = []
    for p in sorted(glob.glob(os.path.join(common.REPO, "tests", "**", "*.[ch]"), recursive=True)):
        try:
            with open(p) as f:
                out.append(f.read())
        except (OSError, UnicodeDecodeError):
            pass
    return out


def standard_streams(tier, rnd, focus):
    """(name, iterable, exhaustive?) for a lexical check.  focus in {'c05','c09','c10','c11','c12'}"""
    q = tier == "quick"
    st = []
    st.append(("reduced alphabet (36 symbols), all strings", exhaustive(REDUCED, 3 if q else 4), True))
    if focus in ("c09", "c05", "c10"):
        st.append(("splice/tab alphabet (9 symbols), all strings", exhaustive(SPLICE, 5 if q else 7), True))
    if focus in ("c10", "c12", "c09", "c05"):
        st.append(("di/trigraph alphabet (15 symbols), all strings", exhaustive(GRAPH, 4 if q else 5), True))
    if focus in ("c10", "c11", "c05"):
        st.append(("quote/escape alphabet (13 symbols), all strings", exhaustive(QUOTE, 4 if q else 6), True))
    if focus in ("c11", "c05"):
        st.append(("numeric alphabet (17 symbols), all strings", exhaustive(NUMERIC, 4 if q else 5), True))
    st.append(("line-break look-alikes (CR, FF, VT, U+001C, U+0085, U+2028; 9 symbols), all strings", exhaustive(LINEISH, 4 if q else 5), True))
    st.append(("escapes and splices spelled with backslash or ??/ next to tabs, quotes and line ends (8 pieces), all sequences",
               exhaustive(ESCPIECES, 5 if q else 6), True))
    st.append(("trigraph-backslash escapes with tabs and quotes (7 symbols), all strings", exhaustive(TRIESC, 6 if q else 7), True))
    st.append(("structured lexeme sequences", structured(rnd, 1500 if q else 40000), False))
    st.append(("malformed: truncations, long runs", malformed(rnd, 400 if q else 8000), False))
    st.append(("repository test files", repo_test_files(), False))
    return st


def run_lexical_check(run, tier, seed, focus, mine, replay=None):
    """Shared body of C05a/C09/C10/C11/C12 lexical checks.  `mine`: failure kinds that are violations of THIS
    property (others are only counted).  Returns found(bool)."""
    rnd = random.Random(seed)
    found = False
    if replay is not None:
        streams = [("replay", [replay["data"]["src"]], False)]
    else:
        streams = standard_streams(tier, rnd, focus)
    other = {}
    allfails = []
    for name, gen, exh in streams:
        n, fails, hist = run_strings(gen)
        nontrivial = n - hist.get("exc:MaybeInfiniteLoop", 0)
        run.count(name, n, nontrivial)
        run.cov.setdefault("histogram", {})
        for k, v in hist.items():
            run.cov["histogram"][k] = run.cov["histogram"].get(k, 0) + v
        allfails.extend(fails)
    # smallest failing inputs first: they are the replays a reader wants
    allfails.sort(key=lambda f: (len(f["src"]), f["src"]))
    for f in allfails:
        w = f["what"]
        if w == "lexer-not-total" and f.get("exc") == "MaybeInfiniteLoop" and "lexer-not-total" in mine:
            found |= run.violation("lexer-not-total", f, finding_id="C05-maybe-infinite-loop")
        elif w in mine or w in ("correspondence-lexer", "driver-error"):
            found |= run.violation(w, f)
        else:
            other[w] = other.get(w, 0) + 1
    run.cov["failures_of_other_properties_seen"] = other
    for x in list(structured(random.Random(seed), 2, 4, 8)):
        run.sample(x)
    return found
