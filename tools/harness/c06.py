"""C06 - the verdict is a pure function of the file."""
import json
import os
import random
import subprocess
from concurrent.futures import ThreadPoolExecutor

import common
import family
import impl
import pipeline

WORKER = os.path.join(os.path.dirname(os.path.abspath(__file__)), "c06_worker.py")


def worker(req):
    p = subprocess.run([common.PY, WORKER], input=json.dumps(req), capture_output=True, text=True, env=common.env_impl(), timeout=300)
    if p.returncode != 0:
        return {"error": p.stderr[-800:]}
    return json.loads(p.stdout)


DEEP_IF = impl.HDR + "\n#if " + "(" * 150 + "1" + ")" * 150 + "\n#endif\n"
FATAL = impl.HDR + "\nint\tmain(void\n{\n\treturn (0);\n}\n"
UNREC = impl.HDR + "\nint\tmain(void)\n{\n\t)\n\treturn (0);\n}\n"          # fatal because of unrecognised tokens
GUARD_OK = impl.HDR + "\n#ifndef FOO_H\n# define FOO_H\n\nint\tf(void);\n\n#endif\n"
GUARD_NODEF = impl.HDR + "\n#ifndef FOO_H\n\nint\tf(void);\n\n#endif\n"       # same guard name, its #define missing
NESTED = impl.HDR + "\nint\tmain(void)\n{\n\treturn (" + "(" * 60 + "1" + ")" * 60 + ");\n}\n"


def run(run, tier, seed, replay=None):
    b = common.build(["C06"], need_driver=False)
    run.build = b
    found = False
    rnd = random.Random(seed)
    nfiles = 24 if tier == "quick" else 300
    files = []
    if replay is not None:
        files = [tuple(x) for x in replay["data"]["files"]]
    else:
        for i in range(nfiles):
            name, src = family.program(rnd)
            if i % 2 == 1:          # a violating variant that still analyses
                sp = pipeline.token_spans(src, name)
                for e in pipeline.edits(src, sp, rnd, 6):
                    if impl.analyse(e, name)["kind"] == "ok":
                        src = e
                        break
            files.append((name, src))
        files.append(("nested.c", NESTED))
        files.append(("foo.h", GUARD_NODEF))
        files.append(("cmt.c", impl.HDR + "\nint\tmain(void)\t/* a */ /* b */\n{\n\treturn (0);\n}\n"))
    hist_pool = {"clean": files[0], "erroneous": files[1] if len(files) > 1 else files[0], "fatal": ("f.c", FATAL),
                 "other-type": ("o.h", "int\tf(void);\n"), "deep-if": ("d.c", DEEP_IF), "nested": ("n.c", NESTED),
                 "fatal-unrecognised": ("u.c", UNREC), "same-guard-header": ("foo.h", GUARD_OK)}
    # baseline: each file alone in a fresh interpreter
    with ThreadPoolExecutor(common.NPROC) as ex:
        base = list(ex.map(lambda f: worker({"listing_seed": None, "history": [], "files": [list(f)]}), files))
    bad = [b_ for b_ in base if "error" in b_]
    if bad:
        found |= run.violation("worker-failed", {"stderr": bad[0]["error"]})
        base = [b_ if "error" not in b_ else {"results": [None], "primaries": None, "dependencies": None} for b_ in base]
    baseline = [b_["results"][0] for b_ in base]
    order0 = (base[0]["primaries"], base[0]["dependencies"])
    run.count("files analysed alone in a fresh interpreter", len(files), len(files))
    # histories: length 1..3 over the classes, all files after each history in one process
    hists = []
    keys = list(hist_pool)
    nh = 10 if tier == "quick" else 80
    for _ in range(nh):
        hists.append([rnd.choice(keys) for _ in range(rnd.randint(1, 3))])
    hists += [["deep-if"], ["fatal", "deep-if", "nested"], ["erroneous", "erroneous"], ["fatal-unrecognised"], ["same-guard-header"],
              ["clean", "fatal-unrecognised", "clean"]]
    reqs = [{"listing_seed": None, "history": [list(hist_pool[k]) for k in h], "files": [list(f) for f in files]} for h in hists]
    # twice in a row, and in reversed order
    reqs.append({"listing_seed": None, "history": [list(f) for f in files], "files": [list(f) for f in files]})
    rev = list(reversed(files))
    reqs.append({"listing_seed": None, "history": [], "files": [list(f) for f in rev]})
    labels = [("history", h) for h in hists] + [("twice", None), ("reversed", None)]
    # permutations of the rules directory listing
    nperm = 8 if tier == "quick" else 40
    for k in range(nperm):
        reqs.append({"listing_seed": seed * 1000 + k, "history": [], "files": [list(f) for f in files]})
        labels.append(("listing-permutation", seed * 1000 + k))
    with ThreadPoolExecutor(common.NPROC) as ex:
        outs = list(ex.map(worker, reqs))
    for (kind, what), req, out in zip(labels, reqs, outs):
        if "error" in out:
            found |= run.violation("worker-failed", {"stderr": out["error"], "kind": kind})
            continue
        got = out["results"]
        if kind == "reversed":
            got = list(reversed(got))
        for f, a, g in zip(files, baseline, got):
            if a != g:
                found |= run.violation("verdict-depends-on-" + kind, {"what": what, "files": [list(f)], "alone": a, "here": g,
                                                                       "history": req["history"][-3:] if kind == "history" else None})
                break
        if (out["primaries"], out["dependencies"]) != order0:
            found |= run.violation("rule-order-depends-on-" + kind, {"what": what, "primaries": out["primaries"], "expected": order0[0]})
        if out["recursion_limit"] != base[0]["recursion_limit"]:
            found |= run.violation("recursion-limit-leaks", {"what": what, "limit": out["recursion_limit"]})
        run.count(kind, len(files), len(files))
    run.sample({"history": hists[0], "file": files[0][0]})
    run.sample({"listing_permutation_seed": seed * 1000, "primaries": order0[0][:5]})
    common.broken_obligations(run, b, found)
    disc = sum(1 for t in b.theorems if t not in b.open_assumptions) if b.make_ok else 0
    return run.finish(max(len(b.theorems), 7), disc,
                      "conforming and violating programs of the family G (+ a deeply nested file): each analysed alone in a fresh "
                      "interpreter, then after random histories of length 1..3 over {clean, erroneous, fatal (two kinds), other type, deep #if, "
                      "deeply nested, a header defining the same guard name} in one process with one Registry, twice in a row, in reversed order, and in fresh interpreters "
                      "whose os.listdir is shuffled (rule discovery order); all diagnostics, the rule order and the recursion limit "
                      "must equal the alone/unshuffled ones; non-trivial = every compared file",
                      assumptions=["the shared-state table is a syntactic over-approximation (no getattr/setattr/exec tricks: the translator fails closed on them)"])
