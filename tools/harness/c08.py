"""C08 - reports are well-formed, ordered and identical in both output formats."""
import glob
import itertools
import json
import os
import random
import shutil
import tempfile

import common
import impl
from common import Enc


def small_domain():
    hls = [(l, c, None, h) for l in (1, 2) for c in (1, 2) for h in (None, "a")]
    errs = []
    for name in ("A", "B"):
        errs.append((name, "t", "Error", []))
        for h in hls:
            errs.append((name, "t", "Error", [h]))
        for h1 in hls:
            for h2 in hls:
                errs.append((name, "t", "Error", [h1, h2]))
    return hls, errs


def py_err(d):
    from norminette.errors import Error, Highlight
    return Error(d[0], d[1], d[2], [Highlight(*h) for h in d[3]])


def corpus_files(rnd, tier):
    """(name, source) pairs that produce many diagnostics: every .c/.h of the repository's tests, random
    perturbations of them, and lexical-error snippets."""
    out = []
    paths = sorted(glob.glob(os.path.join(common.REPO, "tests", "**", "*.[ch]"), recursive=True))
    for p in paths:
        try:
            with open(p) as f:
                out.append((os.path.basename(p), f.read()))
        except (OSError, UnicodeDecodeError):
            pass
    # characters that str.splitlines() treats as line ends inside a block comment in front of an over-long line near the
    # end of the file: a line number counted with them lies outside the file
    long_ = "x" * 90
    for i, ch in enumerate(["\f", "\v", "\x1c", "\u0085", "\u2028", "\f\v\u2028"]):
        out.append(("exotic%d.c" % i, "/*\n** a%sb%sc\n** %s\n*/\nint\tg_a;\n" % (ch, ch, long_)))
        out.append(("exotic%d.h" % i, "int\tf(void); /* %s%s */\n/* %s\n%s */\n" % (ch, ch, ch, long_)))
    base = list(out)
    n = 150 if tier == "quick" else 3000
    for _ in range(n):
        name, src = rnd.choice(base)
        lines = src.split("\n")
        for _ in range(rnd.randint(1, 3)):
            k = rnd.random()
            if k < 0.3 and len(lines) > 2:
                del lines[rnd.randrange(len(lines))]
            elif k < 0.6:
                i = rnd.randrange(len(lines))
                lines[i] = lines[i] + rnd.choice([" ", "\t", " ;", " // x", " 0x1g", " '\\q'", " 1e+", " \"a\\x\"", " ''", " 'ab'", " @"])
            elif k < 0.8:
                i = rnd.randrange(len(lines))
                lines[i] = lines[i].replace("\t", "    ", 1)
            else:
                i = rnd.randrange(len(lines))
                lines.insert(i, rnd.choice(["", "int a;", "/* c */", "char g_c = '\\q", "x = 08 + 0b12 + 1.2.3 + 1.5q;", "\u00e9 = 1;"]))
        out.append((name, "\n".join(lines)))
    lex_snips = ["char g_c = '\\q\n", "int\tg_a = 0b12;\n", "int\tg_a = 089;\n", "char\t*g_s = \"abc\\x\";\n", "int\tg_a = 1.2.3;\n",
                 "int g = '' + 'ab' + 1e+ + 0x1g;\n", "@ $ `\n", "int\tg_\u00e9;\n", "char\t*g_s = \"\u00e9\u00e8\";\n"]
    for sn in lex_snips:
        out.append(("lex.c", impl.HDR + "\n" + sn))
        out.append(("lex.h", sn))
    return out


def check_report(run, name, src, cat, tmp, k):
    """Both formatters on one file through main(); the property evaluated on the real output."""
    d = os.path.join(tmp, "f%d" % k)
    os.makedirs(d)
    with open(os.path.join(d, name), "w") as f:
        f.write(src)
    found = False
    ch, oh, eh, xh = impl.run_main(["--no-colors", name], cwd=d)
    cj, oj, ej, xj = impl.run_main(["-f", "json", name], cwd=d)
    shutil.rmtree(d, ignore_errors=True)
    data = {"name": name, "source": src, "human": oh[-4000:], "json": oj[-4000:]}
    if xh or xj:
        return False, "crash"           # C05's business, not C08's
    if (name + ": Error!\n\t") in oh:
        return False, "fatal"
    try:
        hv = impl.parse_human(oh)
    except ValueError as e:
        return run.violation("human-report-malformed", dict(data, why=str(e))), "bad"
    try:
        js = json.loads(oj)
        jf = js["files"]
        jv = [(os.path.basename(x["path"]), x["status"],
               [(e["level"], e["name"], e["highlights"][0]["lineno"], e["highlights"][0]["column"], e["text"]) for e in x["errors"]])
              for x in jf]
    except (ValueError, KeyError, IndexError, TypeError) as e:
        return run.violation("json-invalid", dict(data, why=repr(e))), "bad"
    if jv != hv:
        found |= run.violation("formats-differ", dict(data, human_view=hv, json_view=jv))
    nlines = src.count("\n") + 1
    for base, verdict, ds in hv:
        pos = [(l, c) for _, _, l, c, _ in ds]
        if pos != sorted(pos):
            found |= run.violation("not-ascending", dict(data, positions=pos))
        for level, code, l, c, text in ds:
            if level not in ("Error", "Notice"):
                found |= run.violation("bad-level", dict(data, diag=(level, code)))
            if code not in cat or cat[code] != text:
                # (BAD_LEXEME, once built with a free-form text, is a catalogue entry since the repair: no finding id suppresses here)
                found |= run.violation("not-catalogue-text", dict(data, diag=(code, text)))
            if not (1 <= l <= nlines and c >= 1):
                found |= run.violation("position-outside-file", dict(data, diag=(code, l, c), nlines=nlines))
        if (verdict == "OK") != all(lv == "Notice" for lv, *_ in ds):
            found |= run.violation("verdict-vs-levels", dict(data))
    return found, ("multi" if any(len(ds) >= 2 for _, _, ds in hv) else "plain")


def run(run, tier, seed, replay=None):
    rnd = random.Random(seed)
    b = common.build(["C08"])
    run.build = b
    found = False
    drv = common.Driver() if b.driver_ok and os.path.exists(os.path.join(common.BUILD, "nvdriver")) else None
    import norminette.norm_error as NE
    from norminette.errors import HumanizedErrorsFormatter
    from norminette.file import File
    cat = dict(NE.errors)
    # the PUBLISHED catalogue is the pinned one: a reworded entry must not hide behind the table it was edited in
    with open(os.path.join(common.VERIF, "tools", "harness", "data", "catalogue_pinned.json")) as f:
        cat.update(json.load(f))
    tmp = tempfile.mkdtemp(prefix="nvc08_")
    try:
        if replay and "source" in replay["data"]:
            f, _ = check_report(run, replay["data"]["name"], replay["data"]["source"], cat, tmp, 0)
            found |= f
        else:
            # ---- E-corr 1: comparators, exhaustively on the small domain
            hls, errs = small_domain()
            if drv:
                reqs = [("hl_lt", Enc().hl(a).hl(b_)) for a in hls for b_ in hls]
                res = drv.batch(reqs)
                from norminette.errors import Highlight
                i = 0
                for a in hls:
                    for b_ in hls:
                        got = res[i].b(); i += 1
                        exp = Highlight(*a) < Highlight(*b_)
                        if got != exp:
                            found |= run.violation("correspondence-hl_lt", {"a": a, "b": b_, "model": got, "impl": exp})
                run.count("hl_lt pairs (exhaustive)", len(reqs), len(reqs))
                pairs = list(itertools.product(range(len(errs)), repeat=2))
                if tier == "quick":
                    pairs = rnd.sample(pairs, 8000)
                pe = [py_err(e) for e in errs]
                res = drv.batch([("err_lt", Enc().diag(errs[i]).diag(errs[j])) for i, j in pairs])
                bad = 0
                for (i, j), r in zip(pairs, res):
                    got = r.b()
                    exp = pe[i] < pe[j]
                    if got != exp and bad < 3:
                        bad += 1
                        found |= run.violation("correspondence-err_lt", {"a": errs[i], "b": errs[j], "model": got, "impl": exp})
                run.count("err_lt pairs", len(pairs), len(pairs))
                run.sample({"err_lt": [errs[pairs[0][0]], errs[pairs[0][1]]]})
                # ---- E-corr 2: sort + humanized format, byte for byte, on synthetic error lists
                withhl = [e for e in errs if e[3]]
                names = list(cat)[:60] + ["BAD_LEXEME", "ZZ"]
                nl = 300 if tier == "quick" else 5000
                reqs = []
                rnd3 = random.Random(seed + 1)
                exps = []
                for _ in range(nl):
                    k = rnd3.randint(0, 7)
                    ds = []
                    for _ in range(k):
                        nm = rnd3.choice(names)
                        hl = [(rnd3.randint(1, 120), rnd3.randint(1, 90), rnd3.choice([None, 1, 3]), rnd3.choice([None, "hint", ""]))
                              for _ in range(rnd3.choice([1, 1, 1, 2, 3]))]
                        ds.append((nm, cat.get(nm, "free text \u00e9"), rnd3.choice(["Error", "Error", "Notice"]), hl))
                    if rnd3.random() < 0.3:
                        ds = [rnd3.choice(withhl) for _ in range(k)]
                    col = rnd3.random() < 0.5
                    f = File("dir/x y.c", "")
                    for d_ in ds:
                        f.errors.add(py_err(d_))
                    exps.append((str(HumanizedErrorsFormatter([f], use_colors=col)), ds, col))
                    e = Enc().b(col)
                    e.list([("x y.c", ds)], lambda fl, e=e: (e.str(fl[0]), e.list(fl[1], e.diag)))
                    reqs.append(("human", e))
                res = drv.batch(reqs)
                for (exp, ds, col), r in zip(exps, res):
                    oc = r.outcome(r.str)
                    if oc != ("Ok", exp):
                        found |= run.violation("correspondence-human_fmt", {"diags": ds, "colors": col, "model": repr(oc)[:2000], "impl": exp})
                        break
                run.count("humanized format on synthetic lists", nl, sum(1 for _, ds, _ in exps if len(ds) >= 2))
            # ---- the property on real reports
            files = corpus_files(rnd, tier)
            kinds = {}
            for k, (name, src) in enumerate(files):
                f, kind = check_report(run, name, src, cat, tmp, k)
                found |= f
                kinds[kind] = kinds.get(kind, 0) + 1
                if kind == "multi" and k % 40 == 0:
                    run.sample({"file": name, "chars": len(src)})
            run.count("real reports (human vs json, order, catalogue, positions)", len(files), kinds.get("multi", 0))
            # ---- several files in ONE run, argument order not sorted: both formats must list the same files in the same order
            nmf = 0
            for trial in range(6 if tier == "quick" else 60):
                d = os.path.join(tmp, "mf%d" % trial)
                os.makedirs(os.path.join(d, "sub"))
                pick = rnd.sample([f for f in files if f[0].endswith(".c") and len(f[1]) < 4000], 3)
                names = ["zeta.c", "alpha.c", os.path.join("sub", "mid.c")]
                rnd.shuffle(names)
                for (_, src), nm in zip(pick, names):
                    with open(os.path.join(d, nm), "w") as fh:
                        fh.write(src)
                ch, oh, eh, xh = impl.run_main(["--no-colors"] + names, cwd=d)
                cj, oj, ej, xj = impl.run_main(["-f", "json"] + names, cwd=d)
                shutil.rmtree(d, ignore_errors=True)
                if xh or xj or ": Error!\n\t" in oh:
                    continue
                try:
                    hv = [(b_, v) for b_, v, _ in impl.parse_human(oh)]
                    jv = [(os.path.basename(x["path"]), x["status"]) for x in json.loads(oj)["files"]]
                except (ValueError, KeyError, TypeError):
                    continue
                nmf += 1
                if hv != jv or [b_ for b_, _ in hv] != [os.path.basename(n_) for n_ in names]:
                    found |= run.violation("formats-differ", {"argv": names, "human_files": hv, "json_files": jv,
                                                              "sources": [p_[1] for p_ in pick]})
            run.count("multi-file runs with unsorted argument order (file order and verdicts in both formats)", nmf, nmf)
            run.cov["report_kinds"] = kinds
            # ---- every real diagnostic list: first highlight position-minimal (hypothesis of C08_displayed_sorted)
            nfm = 0
            for name, src in files[:: (3 if tier == "quick" else 1)]:
                r = impl.analyse(src, name, sort=False)
                if r["kind"] != "ok":
                    continue
                for d_ in r["diags"]:
                    hs = d_[3]
                    nfm += 1
                    if not hs or any((h[0], h[1]) < (hs[0][0], hs[0][1]) for h in hs[1:]):
                        found |= run.violation("first-highlight-not-minimal", {"name": name, "source": src, "diag": d_})
            run.count("diagnostics checked for first_min", nfm, 0)
    finally:
        shutil.rmtree(tmp, ignore_errors=True)
        if drv:
            drv.close()
    common.broken_obligations(run, b, found)
    disc = sum(1 for t in b.theorems if t not in b.open_assumptions) if b.make_ok else 0
    return run.finish(max(len(b.theorems), 5), disc,
                      "comparators: all highlight pairs and (sampled in quick) all error pairs over lines,cols in {1,2}, hints {None,'a'}, "
                      "names {A,B}, 0..2 highlights; humanized format byte-exact on random error lists; real reports of every test "
                      "sample, random perturbations of them and lexical-error snippets in both formats; non-trivial = a report with "
                      "at least two diagnostics in one file / a pair of distinct errors",
                      assumptions=["byte-level JSON validity is json.dumps's; the check parses it back with json.loads"])
