"""C14 - include-guard validation follows the file name.

1. build: translate (Gen/Guard.v = CheckPreprocessorProtection.run translated from the source) + Props/C14.vo.
2. every generated file is analysed by /repo's code under a probe (Registry.run_rules wrapped from outside): the
   real statement sequence, and after each statement context.preproc.indent / .macros / context.protected /
   context.history and the HEADER_PROT_* diagnostics it produced.
3. correspondence: the statements are abstracted into the model's statement type (the abstraction is itself
   cross-checked on the real tokens), the model is run on the abstract trace INSIDE Coq (generated
   build/cases_C14/cases_k.v, `Eval vm_compute in (mismatches cases)`) and must give the same File.type, the same
   guard symbol, the same state after every statement and the same codes at the same statement.
4. search = the property on the implementation: names x bodies x {correct guard, G1..G8} x placements."""
import ast
import hashlib
import multiprocessing as mp
import os
import random
import re
import subprocess
from concurrent.futures import ThreadPoolExecutor

import common
import family
import impl

CODES = ["HEADER_PROT_ALL", "HEADER_PROT_ALL_AF", "HEADER_PROT_NAME", "HEADER_PROT_UPPER", "HEADER_PROT_NODEF",
         "HEADER_PROT_MULT"]
EXPECT = {"G1": "HEADER_PROT_NAME", "G2": "HEADER_PROT_UPPER", "G3": "HEADER_PROT_NODEF", "G4": "HEADER_PROT_MULT",
          "G5": "HEADER_PROT_ALL", "G6": "HEADER_PROT_ALL_AF"}
HIST = {"IsComment": 0, "IsEmptyLine": 1, "IsPreprocessorStatement": 2}
KINDS = {"ifndef": "DIfndef", "define": "DDefine", "endif": "DEndif", "if": "DIf", "ifdef": "DIfdef", "else": "DElse",
         "elif": "DElif", "include": "DInclude", "undef": "DOther", "pragma": "DOther", "error": "DOther",
         "warning": "DOther", "import": "DOther"}
WS = ("SPACE", "TAB", "ESCAPED_NEWLINE")
TRIVIA_TOKENS = ("SPACE", "TAB", "ESCAPED_NEWLINE", "NEWLINE", "COMMENT", "MULT_COMMENT")
CASES_DIR = os.path.join(common.BUILD, "cases_C14")
FINDING_G7 = "C14-no-guard-unreported"


# ------------------------------------------------------------------------------------------ the implementation
def source_guard_expr():
    """the guard expression of the CURRENT source, compiled: basename -> expected symbol as the code computes it"""
    with open(os.path.join(common.REPO, "norminette", "rules", "check_preprocessor_protection.py")) as f:
        tree = ast.parse(f.read())
    for n in ast.walk(tree):
        if isinstance(n, ast.Assign) and len(n.targets) == 1 and isinstance(n.targets[0], ast.Name) and n.targets[0].id == "guard":
            return compile(ast.Expression(n.value), "<guard>", "eval")
    return None


_GUARD = None


def impl_guard(base):
    global _GUARD
    if _GUARD is None:
        _GUARD = source_guard_expr() or False
    if not _GUARD:
        return None

    class F:
        pass
    cx, fl = F(), F()
    fl.basename = base
    cx.file = fl
    try:
        v = eval(_GUARD, {"context": cx})
    except Exception:
        return None
    return v if isinstance(v, str) else None


def probe(args):
    """analyse one file; -> dict(kind, msg, ftype, stmts=[...], codes=[...all HEADER_PROT in emission order],
    all_names=[every diagnostic name])"""
    name, src = args
    import contextlib
    import io
    from norminette.file import File
    from norminette.lexer import Lexer
    from norminette.context import Context
    from norminette.registry import Registry
    from norminette.rules import Primary
    from norminette.exceptions import CParsingError
    f = File(name, src)
    res = {"kind": "ok", "ftype": f.type, "stmts": [], "codes": [], "all_names": []}
    reg = Registry()
    depth = [0]
    orig = reg.run_rules

    def rr(context, rule):
        top = depth[0] == 0
        n0 = len(context.errors._inner) if top else 0
        depth[0] += 1
        try:
            r = orig(context, rule)
        finally:
            depth[0] -= 1
        if top and context.state == "running" and r[0] is True and isinstance(rule, type) and issubclass(rule, Primary):
            jump = r[1]
            toks = [(t.type, t.value) for t in context.tokens[:jump]]
            st = {"rule": rule.__name__, "toks": toks,
                  "indent": context.preproc.indent, "macros_n": len(context.preproc.macros),
                  "macro_last": (context.preproc.macros[-1].name if context.preproc.macros else ""),
                  "protected": bool(context.protected), "hist_n": len(context.history),
                  "hist_last": context.history[-1].name if context.history else "",
                  "codes": [e.name for e in context.errors._inner[n0:] if e.name.startswith("HEADER_PROT")],
                  "rest_nontrivia": any(t.type not in TRIVIA_TOKENS for t in context.tokens[jump:])}
            if rule.__name__ == "IsPreprocessorStatement":
                # the positions the check visits, recomputed on the real tokens with the real helpers
                i = context.skip_ws(0)
                i = context.skip_ws(i + 1)
                t = context.peek_token(i)
                st["dir"] = (t.type, t.value) if t is not None else None
                a = context.peek_token(context.skip_ws(i + 1))
                st["arg"] = (a.type, a.value) if a is not None else None
                st["trail"] = context.peek_token(context.skip_ws(i + 1, nl=True, comment=True)) is not None
            res["stmts"].append(st)
        return r
    reg.run_rules = rr
    out = io.StringIO()
    try:
        with impl.time_limit(5.0), contextlib.redirect_stdout(out):
            tokens = list(Lexer(f))
            ctx = Context(f, tokens, 0, None)
            reg.run(ctx)
    except impl.Timeout:
        res["kind"] = "timeout"
    except CParsingError as e:
        res["kind"] = "fatal"
        res["msg"] = e.msg[:200]
    except BaseException as e:  # noqa
        if isinstance(e, KeyboardInterrupt):
            raise
        res["kind"] = "exc"
        res["msg"] = "%s: %s" % (type(e).__name__, str(e)[:160])
        res["frame"] = impl.innermost_frame(e.__traceback__)
    res["all_names"] = [e.name for e in f.errors._inner]
    res["codes"] = [n for n in res["all_names"] if n.startswith("HEADER_PROT")]
    return res


def _init():
    common.ensure_impl_path()


def probe_many(files):
    if len(files) < 8:
        return [probe(x) for x in files]
    with mp.Pool(common.NPROC, initializer=_init) as pool:
        return pool.map(probe, files, chunksize=8)


# ------------------------------------------------------------------------------------------ abstraction
def abstract(stmts):
    """real statements -> ([(coq constructor text, kind tag)], problems)"""
    out, problems = [], []
    for k, st in enumerate(stmts):
        types = [t for t, _ in st["toks"]]
        rule = st["rule"]
        if rule == "IsPreprocessorStatement":
            d = st.get("dir")
            if d is None or d[0] == "NEWLINE":
                out.append(("SPre DNull (zs [])", "pre:null"))
                continue
            direc = (d[1] if d[0] == "IDENTIFIER" else d[0]).lower()
            kind = KINDS.get(direc)
            if kind is None:
                problems.append("statement %d: directive %r accepted by the implementation, unknown to the model" % (k, direc))
                kind = "DOther"
            # the check's own classification (upper-case test on identifier tokens) must agree with the dispatch (lower-case)
            chk = d[0] == "IDENTIFIER" and d[1].upper() in ("IFNDEF", "ENDIF")
            if chk != (kind in ("DIfndef", "DEndif")):
                problems.append("statement %d: directive token %r classified differently by the check and by the dispatch" % (k, d))
            arg = ""
            if kind in ("DIfndef", "DIfdef", "DDefine"):
                a = st.get("arg")
                if a is None or a[0] != "IDENTIFIER":
                    problems.append("statement %d: #%s without identifier was accepted" % (k, direc))
                else:
                    arg = a[1]
            out.append(("SPre %s (zs [%s])" % (kind, ";".join(str(ord(c)) for c in arg)), "pre:" + direc))
        elif rule == "IsEmptyLine":
            if any(t not in ("SPACE", "TAB", "NEWLINE") for t in types):
                problems.append("statement %d: IsEmptyLine consumed %r" % (k, types))
            out.append(("SBlank", "blank"))
        elif rule == "IsComment":
            if any(t not in TRIVIA_TOKENS for t in types):
                problems.append("statement %d: IsComment consumed %r" % (k, types))
            out.append(("SComment", "comment"))
        else:
            if all(t in TRIVIA_TOKENS for t in types):
                problems.append("statement %d: %s consumed only white space/comments %r" % (k, rule, types))
            out.append(("SDecl", "decl"))
    # look-ahead of the model (trail_of) against the real tokens
    for k, st in enumerate(stmts):
        later = any(tag not in ("blank", "comment") for _, tag in out[k + 1:])
        if st["rest_nontrivia"] != later:
            problems.append("statement %d: tokens after it %s a non-blank non-comment token, later statements say %s" % (
                k, "contain" if st["rest_nontrivia"] else "do not contain", later))
        if st["rule"] == "IsPreprocessorStatement" and out[k][1] == "pre:endif" and st.get("trail") != later:
            problems.append("statement %d: skip_ws(nl, comment) after #endif %s a token, later statements say %s" % (
                k, "finds" if st.get("trail") else "finds no", later))
    return out, problems


def enc_str(x):
    return [len(x)] + [ord(c) for c in x]


def expected_states(stmts):
    out = []
    for st in stmts:
        out.append([st["indent"], 1 if st["protected"] else 0, st["hist_n"], HIST.get(st["hist_last"], 3), st["macros_n"]]
                   + enc_str(st["macro_last"]) + [len(st["codes"])]
                   + [CODES.index(c) if c in CODES else 99 for c in st["codes"]])
    return out


def zl(xs):
    return "[" + ";".join(str(int(x)) for x in xs) + "]"


def coq_case(idx, base, absd, head, states):
    return "(%d, zs %s, [%s], %s, [%s])" % (idx, zl([ord(c) for c in base]), "; ".join(a for a, _ in absd), zl(head),
                                             ";".join(zl(s) for s in states))


def run_coq(k, cases_text):
    """-> list of (case id, model head, model states) that differ; or ('error', text)"""
    os.makedirs(CASES_DIR, exist_ok=True)
    path = os.path.join(CASES_DIR, "cases_%d.v" % k)
    with open(path, "w") as f:
        f.write("From NV Require Import Model.Base Model.GuardBase Gen.Guard Model.Guard.\n")
        f.write("Definition cases : list (Z * str * list stmt * list Z * list (list Z)) :=\n [%s].\n" % ";\n  ".join(cases_text))
        f.write("Eval vm_compute in (mismatches cases).\n")
    p = subprocess.run(["timeout", "600", "coqc", "-R", os.path.join(common.COQ, "theories"), "NV", path], cwd=CASES_DIR,
                       capture_output=True, text=True)
    for ext in (".vo", ".glob", ".vok", ".vos"):
        try:
            os.remove(path[:-2] + ext)
        except OSError:
            pass
    try:
        os.remove(os.path.join(CASES_DIR, ".cases_%d.aux" % k))
    except OSError:
        pass
    if p.returncode != 0:
        return ("error", (p.stderr + p.stdout)[-600:])
    m = re.search(r"=\s*(\[.*\])\s*:\s*list", p.stdout, flags=re.S)
    if not m:
        return ("error", "unparsable coqc output: " + p.stdout[-300:])
    txt = m.group(1).replace(";", ",")
    try:
        val = ast.literal_eval(txt)
    except (ValueError, SyntaxError):
        return ("error", "unparsable result: " + txt[:300])
    return [(i, list(h), [list(s) for s in sts]) for (i, (h, sts)) in val]


# ------------------------------------------------------------------------------------------ generators
ALPHA = "abcdefghijklmnopqrstuvwxyz0123456789_."


def prop_guard(base):
    """the symbol the PROPERTY asks for: file name upper-cased, dots replaced by underscores"""
    return "".join("_" if c == "." else (chr(ord(c) - 32) if "a" <= c <= "z" else c) for c in base)


def base_name(rnd):
    k = rnd.randint(0, 9)
    if k <= 2:
        stem = family.lname(rnd, rnd.randint(0, 12))
    elif k == 3:
        stem = rnd.choice(["libft", "get_next_line", "ft_printf", "push_swap", "so_long", "minishell", "cub3d", "h", "a", "x9", "_", "__"])
    elif k == 4:      # several dots
        stem = ".".join(family.lname(rnd, rnd.randint(0, 3)) for _ in range(rnd.randint(2, 4)))
    elif k == 5:      # dots anywhere, also leading / doubled / trailing
        n = rnd.randint(1, 17)
        stem = "".join(rnd.choice("ab_9.") for _ in range(n))
    elif k == 6:      # digit first (the symbol is then no identifier)
        stem = rnd.choice("0123456789") + "".join(rnd.choice(ALPHA) for _ in range(rnd.randint(0, 6)))
    elif k == 7:      # long
        stem = "".join(rnd.choice(ALPHA[:37]) for _ in range(rnd.randint(14, 18)))
    elif k == 8:      # ends like an extension
        stem = family.lname(rnd, 4) + rnd.choice([".h", ".c", ".h.h", "_h", ".hh"])
    else:
        stem = "".join(rnd.choice(ALPHA) for _ in range(rnd.randint(1, 18)))
    stem = stem[:18]
    if not stem:
        stem = "a"
    return stem + ".h"


def other_symbol(rnd, g):
    while True:
        k = rnd.randint(0, 6)
        if k == 0:
            x = g + "_"
        elif k == 1:
            x = "_" + g
        elif k == 2:
            x = g[:-2] if len(g) > 3 and g[:-2][0] not in "0123456789" else "X" + g
        elif k == 3:
            x = family.mname(rnd) + "_H"
        elif k == 4 and "_" in g[:-2]:
            i = rnd.choice([j for j, c in enumerate(g[:-2]) if c == "_"])
            x = g[:i] + g[i + 1:]                    # one underscore (a dot of the name) forgotten
        elif k == 5:
            x = "__" + g + "__"
        else:
            x = g.replace("_H", "_HPP") if g.endswith("_H") else g + "X"
        if x and x.upper() != g and re.fullmatch(r"[A-Za-z_][A-Za-z0-9_]*", x) and x not in family.KW:
            return x


def other_case(rnd, g):
    letters = [i for i, c in enumerate(g) if c.isalpha()]
    while True:
        k = rnd.randint(0, 3)
        if k == 0:
            x = g.lower()
        elif k == 1:
            i = rnd.choice(letters)
            x = g[:i] + g[i].lower() + g[i + 1:]
        elif k == 2:
            x = g.capitalize() if g[0].isalpha() else g[:-1] + "h"
        else:
            x = "".join(c.lower() if rnd.random() < 0.5 else c for c in g)
        if x != g and x not in family.KW:
            return x


def hashline(depth, text):
    return "#" + " " * depth + text


def gen_body(rnd, depth, budget=None, allow_cond=True, want_decl=True):
    """header body lines (declarations, includes, defines, nested conditionals); directives indented for `depth`"""
    L = []
    budget = budget or [rnd.randint(2, 9)]
    protos = []

    def flush_protos():
        if protos:
            ends = [1 + len(t) for t, _ in protos]
            target = max(((e - 1) // 4 + 1) * 4 + 1 for e in ends)
            for t, d in protos:
                L.append(t + "\t" * family.tabs_to(1 + len(t), target) + d)
            del protos[:]
    while budget[0] > 0:
        budget[0] -= 1
        k = rnd.randint(0, 11)
        if k <= 1:
            flush_protos()
            L.append(hashline(depth, rnd.choice(['include "%s.h"', "include <%s.h>"]) % family.lname(rnd, 6)))
        elif k <= 3:
            flush_protos()
            L.append(hashline(depth, "define %s %s" % (family.mname(rnd), rnd.choice([family.intc(rnd), family.strc(rnd), family.charc(rnd)]))))
        elif k <= 6:
            rt = rnd.choice(["int", "char", "void", "unsigned int", "long", "t_list", "size_t"])
            star = rnd.choice(["", "", "*", "**"])
            np_ = rnd.randint(0, 3)
            params = ", ".join(rnd.choice(["int ", "char ", "char *", "t_list *", "const char *"]) + family.lname(rnd, 5)
                               for _ in range(np_)) if np_ else "void"
            protos.append((rt, star + family.lname(rnd, 8) + "(" + params + ");"))
        elif k == 7:
            flush_protos()
            kind = rnd.choice(["struct", "union", "enum"])
            tag = {"struct": "s_", "union": "u_", "enum": "e_"}[kind] + family.lname(rnd, 5)
            L.append("typedef %s %s" % (kind, tag))
            L.append("{")
            if kind == "enum":
                n = rnd.randint(1, 3)
                L += ["\t" + family.mname(rnd) + ("," if i < n - 1 else "") for i in range(n)]
            else:
                fields = [(rnd.choice(["int", "char", "long", "t_list"]), rnd.choice(["", "*"]) + family.lname(rnd, 5) + ";")
                          for _ in range(rnd.randint(1, 3))]
                L += ["\t" + x for x in family.align(fields, 5)]
            L.append("}\tt_" + family.lname(rnd, 5) + ";")
        elif k == 8:
            flush_protos()
            L.append(rnd.choice(["", "/* %s */" % family.lname(rnd, 8), "// %s" % family.lname(rnd, 5)]))
        elif k <= 10 and allow_cond and depth < 4:
            flush_protos()
            op = rnd.choice(["ifdef", "ifndef", "if"])
            m = family.mname(rnd)
            arg = m if op != "if" else rnd.choice(["defined(%s)" % m, "%s > 2" % m, "1", "!defined %s" % m])
            L.append(hashline(depth, op + " " + arg))
            L += gen_body(rnd, depth + 1, [rnd.randint(0, 3)], True, False)
            if rnd.random() < 0.3 and op == "if":
                L.append(hashline(depth, "elif %s" % rnd.choice(["0", family.mname(rnd)])))
                L += gen_body(rnd, depth + 1, [rnd.randint(0, 2)], True, False)
            if rnd.random() < 0.4:
                L.append(hashline(depth, "else"))
                L += gen_body(rnd, depth + 1, [rnd.randint(0, 2)], True, False)
            L.append(hashline(depth, "endif" + rnd.choice(["", "", " /* %s */" % m])))
        else:
            flush_protos()
            L.append(hashline(depth, rnd.choice(["undef %s" % family.mname(rnd), "pragma once", "error \"x\"", ""]).rstrip()))
    if want_decl and not any(not x.startswith("#") and x and not x.startswith("/") for x in L + [d for _, d in protos]):
        protos.append(("int", family.lname(rnd, 6) + "(void);"))
    flush_protos()
    return L


def family_body(rnd, base):
    """the lines between `# define G` and the closing `#endif` of a conforming header of family.unit_h"""
    for _ in range(10):
        src = family.unit_h(rnd, base)
        if not family.wide(src):
            break
    lines = src.rstrip("\n").split("\n")
    i = max(k for k, x in enumerate(lines) if x.startswith("# define ") and lines[k - 1].startswith("#ifndef "))
    j = max(k for k, x in enumerate(lines) if x == "#endif")
    body = lines[i + 1:j]
    while body and body[0] == "":
        body = body[1:]
    while body and body[-1] == "":
        body = body[:-1]
    return body


def outside_stmt(rnd):
    k = rnd.randint(0, 4)
    if k == 0:
        return ["int\t%s(void);" % family.lname(rnd, 6)]
    if k == 1:
        return ['#include "%s.h"' % family.lname(rnd, 5)]
    if k == 2:
        return ["#define %s %s" % (family.mname(rnd), family.intc(rnd))]
    if k == 3:
        return ["typedef struct s_%s" % family.lname(rnd, 4), "{", "\tint\tx;", "}\tt_%s;" % family.lname(rnd, 4)]
    return ["/* %s */" % family.lname(rnd, 5), "char\t*%s(int %s);" % (family.lname(rnd, 6), family.lname(rnd, 3))]


def trivia(rnd, mx=2):
    out = []
    for _ in range(rnd.randint(0, mx)):
        out.append(rnd.choice(["", "", "/* %s */" % family.lname(rnd, 6), "// %s" % family.lname(rnd, 4), "/*\n** %s\n*/" % family.lname(rnd, 5)]))
    return out


VARIANTS = ["ok", "G1", "G2", "G3", "G4", "G5", "G6", "G7", "G8"]


def gen_case(rnd, variant=None, base=None):
    base = base or base_name(rnd)
    variant = variant or rnd.choice(VARIANTS)
    g = prop_guard(base)
    writable = re.fullmatch(r"[A-Za-z_][A-Za-z0-9_]*", g) is not None and g not in family.KW
    placement = rnd.randint(0, 2)        # 0: directly after the 42 header, 1: comments/blank lines around, 2: + no final newline / trailing comment
    pre = [""] if placement == 0 else [""] + trivia(rnd, 3)
    post = [] if placement == 0 else trivia(rnd, 2)
    canonical = False
    if rnd.random() < 0.4:
        body = family_body(rnd, base)      # a conforming header body of the family G (DESIGN 4.1)
        kind = "family"
        canonical = placement == 0
    else:
        body = gen_body(rnd, 1)            # structurally rich: nested conditionals, typedef blocks, comments, odd directives
        kind = "rich"
    sym, dsym = g, g
    meta = {"variant": variant, "placement": placement, "base": base, "guard": g, "writable": writable, "body": kind}
    if variant in ("G1",):
        sym = dsym = other_symbol(rnd, g)
        meta["symbol"] = sym
    elif variant == "G2":
        sym = dsym = other_case(rnd, g)
        meta["symbol"] = sym
    name = base
    L = impl.HDR.rstrip("\n").split("\n")
    if variant == "G7":
        cond = rnd.random() < 0.3
        L += [""] + gen_body(rnd, 0, None, cond, True) + post
        meta["has_conditional"] = any(re.match(r"#\s*(if|ifdef|ifndef|endif)\b", x) for x in L)
    else:
        if variant == "G5":
            pre = pre + outside_stmt(rnd) + ([""] if rnd.random() < 0.5 else [])
        head = ["#ifndef " + sym]
        if variant == "G3":
            if rnd.random() < 0.5:
                alt = rnd.choice([g + "_", g.lower(), family.mname(rnd), "_" + g])
                if alt == g or alt in family.KW:
                    alt = g + "__"
                head.append("# define " + alt)
                meta["defines"] = alt
        else:
            head.append("# define " + dsym + ("" if canonical else rnd.choice(["", "", " 1"])))
        if canonical or rnd.random() < 0.7:
            head.append("")
        tail = ["#endif" + ("" if canonical else rnd.choice(["", "", " /* %s */" % g, " // %s" % g]))]
        after = []
        if variant == "G6":
            after = ([""] if rnd.random() < 0.6 else []) + outside_stmt(rnd)
        if variant == "G4":
            g2 = g if rnd.random() < 0.6 else other_symbol(rnd, g)
            after = rnd.choice([[], [""]]) + ["#ifndef " + g2, "# define " + g2, "int\t%s(void);" % family.lname(rnd, 5), "#endif"]
        L += pre + head + body + ([""] if (canonical or rnd.random() < 0.7) else []) + tail + after + post
        if variant == "G8":
            # the same kind of text (correct or broken in any of the ways above) under a .c name
            inner = rnd.choice(["ok", "G1", "G2", "G3", "G4", "G5", "G6"])
            c = gen_case(rnd, inner, base)
            L = c["src"].rstrip("\n").split("\n")
            meta["inner"] = inner
            name = base[:-2] + ".c"
    # (a bare `#` as last line without newline is a fatal parse error of IsPreprocessorStatement: not this property's business)
    src = "\n".join(L) + ("" if (placement == 2 and rnd.random() < 0.4 and L[-1].strip() != "#") else "\n")
    return {"name": name, "src": src, "meta": meta}


def corr_extra(rnd):
    """inputs only for the correspondence (no verdict expected): odd spellings and names without a .h type"""
    out = []
    d = "int\tf(void);\n"
    h = impl.HDR + "\n"
    out.append(("foo.h", h + "#IFNDEF FOO_H\n# Define FOO_H\n" + d + "#ENDIF\n"))
    out.append(("foo.h", h + "# ifndef FOO_H\n#  define FOO_H\n" + d + "# endif\n"))
    out.append(("foo.h", h + "#\n#ifndef FOO_H\n#define FOO_H\n#\n" + d + "#endif\n#\n"))
    out.append(("foo.h", h + "#ifndef FOO_H\n#define FOO_H\n#undef FOO_H\n" + d + "#endif\n"))
    out.append(("foo.h", h + "#endif\n" + d))
    out.append(("foo.h", h + "#endif\n#endif\n#ifndef FOO_H\n#define FOO_H\n#endif\n"))
    out.append(("foo.h", h + "#ifdef A\n#endif\n#ifndef FOO_H\n# define FOO_H\n" + d + "#endif\n"))
    out.append(("foo.h", h + "#if 1\n# ifndef FOO_H\n#  define FOO_H\n# endif\n#else\n#endif\n" + d))
    out.append(("foo.h", h + "#ifndef FOO_H\n# define FOO_H(x) x\n" + d + "#endif\n"))
    out.append(("foo.h", h + "#define FOO_H\n#ifndef FOO_H\n" + d + "#endif\n"))
    out.append(("foo.h", h + "#ifndef FOO_H\n# define FOO_H\n" + d + "#endif \\\n\n"))
    out.append(("foo.h", "#ifndef FOO_H\n# define FOO_H\n" + d + "#endif\n"))
    out.append(("foo.h", h + "#ifndef FOO_H /* c */\n# define FOO_H // d\n" + d + "#endif /* e */ /* f */\n/* g */\n"))
    for nm in (".h", "..h", "...h", "a.", "a", "a.hh", "a.H", "a.h.c", ".a", "h", "a.ch"):
        out.append((nm, h + "#ifndef X_H\n# define X_H\n" + d + "#endif\n" + d))
    return out


# ------------------------------------------------------------------------------------------ verdicts
def judge(run, case, r):
    """the property on the implementation's answer for one generated case -> found (bool)"""
    meta = case["meta"]
    v = meta["variant"]
    data = {"name": case["name"], "src": case["src"], "meta": meta, "observed": r["codes"], "kind": r["kind"], "msg": r.get("msg")}
    sym = meta.get("symbol", meta["guard"])
    if v != "G8" and not any(ch != "." for ch in meta["base"][:-2]):
        # `.h`, `..h`: os.path.splitext gives no extension (File.type == ""), the file is not a header for the tool;
        # DESIGN 4.14 puts these names outside the quantifier.  Kept for the correspondence (File.type model).
        if r["kind"] == "ok" and r["codes"]:
            return "bad", run.violation("non-header-subject-to-guard-check", dict(data, expected="no HEADER_PROT_* diagnostic"))
        return "n/a", False
    if r["kind"] != "ok":
        ident = re.fullmatch(r"[A-Za-z_][A-Za-z0-9_]*", sym) is not None
        if v != "G7" and not ident and r["kind"] == "fatal":
            return "n/a", False          # `#ifndef 9_H`: the symbol is no C identifier, the file is not C
        return "bad", run.violation("header-not-analysed", dict(data, expected="an analysis result"))
    codes = r["codes"]
    if v in ("ok", "G8"):
        if codes:
            return "bad", run.violation("guard-reported" if v == "ok" else "c-file-subject-to-guard-check",
                                        dict(data, expected="no HEADER_PROT_* diagnostic"))
        return "good", False
    if v == "G7":
        if not codes:
            if not meta.get("has_conditional"):
                return "known", run.violation("unguarded-header-unreported", dict(data, expected="a HEADER_PROT_* diagnostic"),
                                              finding_id=FINDING_G7)
            return "bad", run.violation("unguarded-header-unreported", dict(data, expected="a HEADER_PROT_* diagnostic"))
        return "good", False
    want = EXPECT[v]
    if want not in codes:
        return "bad", run.violation("mutation-%s-not-reported" % v, dict(data, expected=want))
    return "good", False


def correspond(run, items, b):
    """items: [(case dict, probe result)] -> found"""
    found = False
    texts, index = [], {}
    nabs = 0
    for idx, (case, r) in enumerate(items):
        if r["kind"] not in ("ok", "fatal"):
            continue
        absd, problems = abstract(r["stmts"])
        if problems and r["kind"] == "ok":
            nabs += 1
            found |= run.violation("correspondence-abstraction", {"name": case["name"], "src": case["src"], "problems": problems[:5]})
            continue
        g = impl_guard(case["name"])
        if g is None:
            found |= run.violation("correspondence-guard-expression", {"name": case["name"], "why": "the source's guard expression could not be evaluated"})
            continue
        head = enc_str(r["ftype"]) + enc_str(g)
        texts.append(coq_case(idx, case["name"], absd, head, expected_states(r["stmts"])))
        index[idx] = (case, r, absd)
    if not texts:
        return found, 0
    chunks = [texts[i:i + 400] for i in range(0, len(texts), 400)]
    with ThreadPoolExecutor(min(common.NPROC, len(chunks))) as ex:
        outs = list(ex.map(lambda kc: run_coq(kc[0], kc[1]), enumerate(chunks)))
    for out in outs:
        if isinstance(out, tuple):
            found |= run.violation("correspondence-model-run-failed", {"coqc": out[1]})
            continue
        for (i, mh, ms) in out[:20]:
            case, r, absd = index[i]
            real = expected_states(r["stmts"])
            first = next((k for k in range(max(len(ms), len(real))) if k >= len(ms) or k >= len(real) or ms[k] != real[k]), None)
            found |= run.violation("correspondence-guard-model", {
                "name": case["name"], "src": case["src"], "meta": case.get("meta"),
                "trace": [a for a, _ in absd], "first_difference_at_statement": first,
                "model_head": mh, "impl_head": enc_str(r["ftype"]) + enc_str(impl_guard(case["name"]) or ""),
                "model_state": ms[first] if first is not None and first < len(ms) else None,
                "impl_state": real[first] if first is not None and first < len(real) else None,
                "encoding": "[indent, protected, len(history), last history kind, n macros, len+chars of last macro, n codes, codes...]"})
    return found, len(texts)


def matcher_correspond(run, items, cap):
    """the translated matcher of IsPreprocessorStatement (Gen/IsPreproc.ispreproc_run) on the recorded invocations: for
    every distinct preprocessor statement the implementation matched, the model run in Coq on the statement's tokens
    must answer (True, number of tokens consumed) or `not decided` (-1).  -> (found, n cases, n decided)"""
    seen, cases = set(), []
    for case, r in items:
        if r["kind"] not in ("ok", "fatal"):
            continue
        for st in r["stmts"]:
            if st["rule"] != "IsPreprocessorStatement":
                continue
            key = tuple((a, b) for a, b in st["toks"])
            if key in seen or len(cases) >= cap:
                continue
            seen.add(key)
            cases.append((key, case["name"]))
    if not cases:
        return False, 0, 0

    def tok(ty, v):
        return "tk %s %s" % (zl([ord(c) for c in ty]), "None" if v is None else "(Some %s)" % zl([ord(c) for c in v]))
    os.makedirs(CASES_DIR, exist_ok=True)
    found, decided = False, 0
    chunks = [cases[i:i + 500] for i in range(0, len(cases), 500)]

    def one(kc):
        k, chunk = kc
        path = os.path.join(CASES_DIR, "matcher_%d.v" % k)
        with open(path, "w") as f:
            f.write("From NV Require Import Model.Base Model.Lexer Model.Guard Gen.IsPreproc.\n")
            f.write("Definition tk (ty : list Z) (v : option (list Z)) : token := mktok (zs ty) 0 0 (option_map zs v).\n")
            f.write("Definition enc (r : option (bool * Z)) : Z := match r with None => -1 | Some (false, _) => -2 | Some (true, j) => j end.\n")
            f.write("Eval vm_compute in (map (fun l => enc (ispreproc_run l)) [%s]).\n" % ";\n ".join(
                "[" + "; ".join(tok(a, b) for a, b in key) + "]" for key, _ in chunk))
        p = subprocess.run(["timeout", "600", "coqc", "-R", os.path.join(common.COQ, "theories"), "NV", path], cwd=CASES_DIR,
                           capture_output=True, text=True)
        for ext in (".vo", ".glob", ".vok", ".vos"):
            try:
                os.remove(path[:-2] + ext)
            except OSError:
                pass
        try:
            os.remove(os.path.join(CASES_DIR, ".matcher_%d.aux" % k))
        except OSError:
            pass
        m = re.search(r"=\s*(\[.*\])\s*:\s*list", p.stdout, flags=re.S)
        if p.returncode != 0 or not m:
            return ("error", (p.stderr + p.stdout)[-500:])
        try:
            return list(ast.literal_eval(m.group(1).replace(";", ",")))
        except (ValueError, SyntaxError):
            return ("error", "unparsable: " + m.group(1)[:200])
    with ThreadPoolExecutor(min(common.NPROC, len(chunks))) as ex:
        outs = list(ex.map(one, enumerate(chunks)))
    for chunk, out in zip(chunks, outs):
        if isinstance(out, tuple):
            found |= run.violation("correspondence-matcher-run-failed", {"coqc": out[1]})
            continue
        for (key, name), got in zip(chunk, out):
            if got == -1:
                continue
            decided += 1
            if got != len(key):
                found |= run.violation("correspondence-ispreproc-matcher", {
                    "name": name, "tokens": [list(x) for x in key], "implementation_jump": len(key), "model": got,
                    "meaning": "model: jump, or -2 = returns (False, 0); the implementation matched the statement with this many tokens"})
    return found, len(cases), decided


def run(run, tier, seed, replay=None):
    b = common.build(["C14"], need_driver=False)
    run.build = b
    rnd = random.Random(seed)
    found = False
    model_ok = os.path.exists(os.path.join(common.COQ, "theories", "Model", "Guard.vo")) and \
        os.path.getmtime(os.path.join(common.COQ, "theories", "Model", "Guard.vo")) >= os.path.getmtime(
            os.path.join(common.COQ, "theories", "Gen", "Guard.v")) and not any(f == "Guard" for f, _ in b.translate_errors)
    if replay is not None:
        d = replay.get("data", {})
        if "src" not in d:
            common.broken_obligations(run, b, False)
            return run.finish(len(b.theorems), 0, "replay of a broken obligation: rebuilt, no input to re-run")
        case = {"name": d["name"], "src": d["src"], "meta": d.get("meta")}
        r = probe((case["name"], case["src"]))
        if case["meta"] and "variant" in case["meta"]:
            verdict, f = judge(run, case, r)
            found |= f
            run.count("replayed case: " + verdict, 1, 1)
        if model_ok:
            f, n = correspond(run, [(case, r)], b)
            found |= f
            run.count("replayed case: model run in Coq and compared", n, 0)
        run.sample({"name": case["name"], "codes": r["codes"], "kind": r["kind"]})
        common.broken_obligations(run, b, found)
        return run.finish(len(b.theorems), sum(1 for t in b.theorems if t not in b.open_assumptions) if b.make_ok else 0,
                          "replay of one recorded file")
    ncases = 1300 if tier == "quick" else 24000
    if not b.ok:
        ncases *= 2           # a broken tie/proof: look harder for an input on which the property fails
    cases = []
    # corpus first: the sample shapes of the property text under a few fixed names
    for base in ("foo.h", "get_next_line.h", "a.b.h", "a..h", ".a.h", "_.h", "x9.h"):
        for v in VARIANTS:
            cases.append(gen_case(rnd, v, base))
    while len(cases) < ncases:
        cases.append(gen_case(rnd))
    results = probe_many([(c["name"], c["src"]) for c in cases])
    seen = set()
    tally = {}
    clean = 0
    for c, r in zip(cases, results):
        verdict, f = judge(run, c, r)
        found |= f
        v = c["meta"]["variant"]
        key = hashlib.sha1((c["name"] + "\0" + c["src"]).encode()).hexdigest()
        nontrivial = 0
        if key not in seen:
            seen.add(key)
            if verdict != "n/a" and not (v == "G8") and (v != "G7" or c["meta"].get("has_conditional")):
                nontrivial = 1
        run.count("search %s -> %s" % (v, verdict), 1, nontrivial)
        tally[(v, verdict)] = tally.get((v, verdict), 0) + 1
        if v == "ok" and r["kind"] == "ok" and not r["all_names"]:
            clean += 1
    # correspondence on the same runs + odd spellings / names without a .h type
    extra = [{"name": n, "src": s_, "meta": None} for n, s_ in corr_extra(rnd)]
    extra_res = probe_many([(c["name"], c["src"]) for c in extra])
    ncorr = 0
    matcher = {}
    if model_ok:
        items = list(zip(cases, results)) + list(zip(extra, extra_res))
        if tier == "quick":
            items = items[:900] + items[-len(extra):]
        f, ncorr = correspond(run, items, b)
        found |= f
        nstm = sum(len(r["stmts"]) for _, r in items if r["kind"] in ("ok", "fatal"))
        run.count("correspondence: traces run in Coq and compared statement by statement", ncorr, 0)
        if os.path.exists(os.path.join(common.COQ, "theories", "Gen", "IsPreproc.vo")):
            f, nm, nd = matcher_correspond(run, items, 3000 if tier == "quick" else 40000)
            found |= f
            matcher = {"distinct_preprocessor_statements": nm, "decided_by_the_translated_matcher": nd}
            run.count("correspondence: translated IsPreprocessorStatement matcher on recorded statements", nm, 0)
    else:
        nstm = 0
        run.notes.append("the guard model did not build in this run: the correspondence was skipped, the search ran")
    for c in cases[:3] + cases[63:66]:
        run.sample({"name": c["name"], "variant": c["meta"]["variant"], "tail_of_file": c["src"][len(impl.HDR):][:400]})
    common.broken_obligations(run, b, found)
    disc = sum(1 for t in b.theorems if t not in b.open_assumptions) if b.make_ok else 0
    names = sorted(set(c["meta"]["base"] for c in cases))
    return run.finish(
        len(b.theorems), disc,
        "headers = 42 header + guard + body (prototypes, typedef struct/union/enum, includes, defines, nested #if/#ifdef/#ifndef "
        "blocks with #else/#elif, comments) x base names over [a-z0-9_.] (length 1..20: several dots, leading/doubled dots, digit "
        "first, long, extension-like stems) x {correct guard, G1..G8} x 3 placements; expected: no HEADER_PROT_* for the correct "
        "guard and under a .c name, the specific code for G1..G6, some HEADER_PROT_* for G7; a case is non-trivial when it is a "
        "distinct (name, text) pair whose verdict depends on the check (not G8, not a G7 without conditional, not a name whose "
        "symbol is no C identifier)",
        extra={"distinct_base_names": len(names), "name_lengths": sorted(set(len(n) for n in names)),
               "verdicts": {"%s/%s" % k: n for k, n in sorted(tally.items())},
               "correct_guard_files_without_any_diagnostic": clean,
               "correspondence_traces": ncorr, "correspondence_statements": nstm, "matcher_correspondence": matcher,
               "modelled": ["IsPreprocessorStatement (state effect)", "CheckPreprocessorProtection (generated)", "Registry.run_rules (history)", "File.type"],
               "exhaustive": False},
        assumptions=["Python's str.upper is taken character-wise on ASCII (table computed live, proved equal to the model for all ASCII strings)",
                     "statements other than preprocessor/blank/comment are abstract: the frame (they do not write indent/macros/protected/history) is the syntactic writer table pinned in C14_state_frame plus the per-statement state comparison",
                     "positions of the HEADER_PROT_* diagnostics are not modelled (only which code, at which statement)"])
