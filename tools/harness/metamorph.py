"""Metamorphic helpers shared by C17 (comment / literal contents are opaque) and C18 (identifier spellings
do not matter): file families with comments, admissible renamings / replacements as PURE predicates (the
same predicates exist in Coq: Spec/Respell.v, cross-checked by obscorr.py), application by raw spans,
comparison of two analyses and of two token streams."""
import os
import random
import re

import common
import family
import impl
import lexcorr
import pipeline

common.ensure_impl_path()
# REVIEWED list of keyword spellings (= Model/Obs.v reviewed_keywords, tied to the live dictionary by the theorem
# C18_keywords_reviewed and by the rename_ok correspondence): deliberately NOT read from norminette.lexer.dictionary,
# so that a spelling added to the tool's keyword table is still used as a user name by the search.
keywords = set("auto break case char const continue default do double else enum extern float for goto if int long register "
               "return short signed sizeof static struct switch typedef union unsigned void volatile while inline NULL "
               "restrict".split())

# ---------------------------------------------------------------------------------------------- C18: names
# Spellings the tool compares identifier values with (rules/*.py, context.py; the directive names are compared
# case-insensitively in places: `.value.upper() in ("IFNDEF", ...)`, `.lower()` in is_preprocessor_statement).
# `main` is NOT here: no rule of the tool looks for the spelling `main` (grep over norminette/), so it is renamed
# like every other name.
REVIEWED_SPECIALS = ["__attribute__", "environ", "defined", "include", "import", "define", "undef", "if", "ifdef",
                     "ifndef", "elif", "else", "endif", "error", "warning", "pragma", "h", ".h"]   # = Model/Obs.v reviewed_specials (cross-checked by obscorr)
PREFIXES = ("g_", "s_", "t_", "u_", "e_")
LOWER = "abcdefghijklmnopqrstuvwxyz"
UPPER = "ABCDEFGHIJKLMNOPQRSTUVWXYZ"
DIGIT_ = "0123456789_"
IDCHARS = set(LOWER + UPPER + DIGIT_)


def is_special(v):
    return v.lower() in REVIEWED_SPECIALS


def guard_of(filename):
    return os.path.basename(filename).upper().replace(".", "_")


def name_class(v):
    """(length, number of upper-case ASCII letters, has a lower-case ASCII letter, prefix class)"""
    p = v[:2]
    return (len(v), sum(1 for c in v if c in UPPER), any(c in LOWER for c in v), p if p in PREFIXES else "")


def is_name(v):
    return v != "" and all(c in IDCHARS for c in v) and v[0] not in "0123456789"


def pair_ok(a, b, guard):
    if a == b:
        return True
    return (name_class(a) == name_class(b) and is_name(a) and is_name(b)
            and a not in keywords and b not in keywords
            and not is_special(a) and not is_special(b)
            and a.upper() != guard and b.upper() != guard)


def rename_ok(pairs, guard):
    """pairs: [(old, new)] covering EVERY distinct IDENTIFIER spelling of the file (identity pairs for the names
    that stay).  Every pair admissible, old names pairwise distinct, new names pairwise distinct."""
    olds = [a for a, _ in pairs]
    news = [b for _, b in pairs]
    return (all(pair_ok(a, b, guard) for a, b in pairs)
            and len(set(olds)) == len(olds) and len(set(news)) == len(news))


def fixed_name(v, guard):
    """Names no admissible renaming moves."""
    return v in keywords or is_special(v) or v.upper() == guard or not is_name(v)


def _near_pool():
    base = ["iff", "int_", "nul", "els", "fo_", "whil", "defined_", "environ2", "includ", "mai", "__attribute_x",
            "__attribute_", "_attribute__", "environ_", "enviro", "define_", "defin", "ifdef_", "ifnde", "endi",
            "h_", "h2", "_h", "hh", "line_", "lin", "erro", "pragm", "unde", "impor", "eli", "main_", "nain"]
    out = set(base)
    for k in list(keywords) + REVIEWED_SPECIALS:
        k = k.lower()
        for v in (k[:-1], k + "_", k + "0", k + "2", "_" + k, k[:-1] + "_", k[:-1] + "1", k + k[-1], k[1:], k + "s"):
            out.add(v)
    for v in list(out):
        out.add(v.upper())
        for p in PREFIXES:
            out.add(p + v)
    pool = {}
    for v in sorted(out):
        if is_name(v) and v not in keywords and not is_special(v):
            pool.setdefault(name_class(v), []).append(v)
    return pool


NEAR = _near_pool()
NEAR_SET = set(x for v in NEAR.values() for x in v)


# Adversarial targets: spellings DERIVED from the reviewed special spellings and the keywords themselves.  None of
# them is special to the tool (by the reviewed reader table), so renaming a name to one of them must not change a
# diagnostic; a rule that tests `value in "environ"`, `value.startswith("defin")`, `"if" in value` ... instead of
# equality makes exactly these names special.
ADV_KINDS = ("substring", "extension by one character", "case variant")


def _admissible_target(v):
    return is_name(v) and v not in keywords and not is_special(v)


def _case_variants(v):
    out = [v.upper(), v.capitalize(), v[:-1] + v[-1:].upper()]
    j = next((i for i, c in enumerate(v) if c in LOWER), None)
    if j is not None:
        out.append(v[:j] + v[j].upper() + v[j + 1:])
    return [x for x in out if x != v]


def derived_targets(k):
    """k: a reviewed special spelling or a keyword -> {kind: sorted admissible spellings derived from k}:
    every contiguous proper substring, every extension by one identifier character in front or behind, the case
    variants (all capitals, first capital, last capital, first letter capital) of k, of its substrings and the
    all-capitals variant of its extensions.  Inadmissible ones (keywords, special spellings in any case, non-names)
    are dropped: those are excluded by the property itself."""
    subs = set(k[i:j] for i in range(len(k)) for j in range(i + 1, len(k) + 1)) - {k}
    exts = set(c + k for c in IDCHARS) | set(k + c for c in IDCHARS)
    case = set(_case_variants(k))
    for v in subs:
        case.update(_case_variants(v))
    for v in exts:
        case.add(v.upper())
    case -= subs | exts
    return {"substring": sorted(filter(_admissible_target, subs)),
            "extension by one character": sorted(filter(_admissible_target, exts)),
            "case variant": sorted(filter(_admissible_target, case))}


ADV_SPELLINGS = sorted(set(REVIEWED_SPECIALS)) + sorted(set(keywords) - set(REVIEWED_SPECIALS))
ADV_DERIVED = {k: derived_targets(k) for k in ADV_SPELLINGS}


def _adv_pool():
    """name class -> (substring-derived targets, all derived targets), bare and with each g_/s_/t_/u_/e_ prefix."""
    sub, full = {}, {}
    for k in ADV_SPELLINGS:
        for kind, vs in ADV_DERIVED[k].items():
            for v in vs:
                for w in [v] + [p + v for p in PREFIXES]:
                    c = name_class(w)
                    full.setdefault(c, set()).add(w)
                    if kind == "substring":
                        sub.setdefault(c, set()).add(w)
    return {c: sorted(v) for c, v in sub.items()}, {c: sorted(v) for c, v in full.items()}


ADV_SUB, ADV = _adv_pool()
ADV_SET = set(x for v in ADV.values() for x in v)


def adversarial_target(rnd, v):
    """A derived spelling of v's class (substrings of the special spellings / keywords preferred), or None."""
    cls = name_class(v)
    pool = ADV_SUB.get(cls) if rnd.random() < 0.6 else None
    pool = pool or ADV.get(cls)
    return rnd.choice(pool) if pool else None


def adversarial_single(rnd, names, guard, v):
    """Renaming of the single name v to a derived spelling that keeps the map admissible, or None."""
    used = set(names)
    for _ in range(12):
        c = adversarial_target(rnd, v)
        if c is not None and c != v and c not in used and pair_ok(v, c, guard):
            m = {n: n for n in names}
            m[v] = c
            return m
    return None


ADV_ROLES = ("global not named g_*", "g_* global", "local variable", "parameter", "function name", "struct tag",
             "typedef name", "macro name")
_ROLE_PREFIX = {"g_* global": "g_", "struct tag": "s_", "typedef name": "t_"}
_HOST_NAMES = {"g_* global": "g_zzqg", "local variable": "zzql", "parameter": "zzqp", "function name": "zzqf",
               "struct tag": "s_zzqs", "typedef name": "t_zzqt", "macro name": "ZZQM"}


def placeholder(t):
    """A neutral spelling of t's name class (same length, capitals at the same places, same prefix class)."""
    for low in ("qkzvxj", "vxjqkz", "jzqxvk"):
        keep = 2 if t[:2] in PREFIXES else 0
        out = t[:keep]
        for i, c in enumerate(t[keep:]):
            out += low[i % 6] if c in LOWER else low[i % 6].upper() if c in UPPER else "7" if c.isdigit() else c
        if out != t and _admissible_target(out) and name_class(out) == name_class(t):
            return out
    return None


def adversarial_host(role, t):
    """-> (file name, source, old name, new name) or None.  A small program in which exactly one identifier of the
    given role carries a neutral spelling `old` of the class of the derived target; the case renames it to `new`.
    The host is conforming for the roles with a conforming spelling; the `global not named g_*` role, capitals in a
    variable name and a lower-case macro name make it a violating program."""
    pre = _ROLE_PREFIX.get(role, "")
    ph = placeholder(t)
    if ph is None:
        return None
    old, new = pre + ph, pre + t
    n = dict(_HOST_NAMES)
    if role != "global not named g_*":
        n[role] = old
    if role in ("struct tag", "typedef name"):
        name = "adv.h"
        src = (family.HDR + "\n#ifndef ADV_H\n# define ADV_H\n\ntypedef struct %s\n{\n\tint\t\ta;\n}\t%s;\n\n#endif\n"
               % (n["struct tag"], n["typedef name"]))
    else:
        name = "adv.c"
        bad = role == "global not named g_*"
        src = (family.HDR + "\n#define %s 1\n\nint\t%s;\n%s\nint\t%s(int %s)\n{\n\tint\t%s;\n\n\t%s = %s + %s + %s%s;\n"
               "\treturn (%s);\n}\n"
               % (n["macro name"], n["g_* global"], "int\t%s;\n" % old if bad else "", n["function name"], n["parameter"],
                  n["local variable"], n["local variable"], n["parameter"], n["g_* global"], n["macro name"],
                  " + " + old if bad else "", n["local variable"]))
    return name, src, old, new


def adversarial_cases(rnd, tier):
    """-> [(role, kind, spelling it derives from, target)].  Quick: every substring of every reviewed special
    spelling in every role, and a sample of the other derived spellings; thorough: every substring of every
    spelling (keywords too) and a larger sample of the case variants and one-character extensions."""
    quick = tier == "quick"
    out = []
    seen = set()
    for k in ADV_SPELLINGS:
        d = ADV_DERIVED[k]
        for role in ADV_ROLES:
            for kind in ADV_KINDS:
                vs = [v for v in d[kind] if (role, v) not in seen]      # `e` is a substring of many spellings: once per role
                if kind == "substring":
                    lim = None if (not quick or k in REVIEWED_SPECIALS) else 2
                elif kind == "case variant":
                    lim = 2 if quick else 24
                else:
                    lim = 2 if quick else 12
                if lim is not None and len(vs) > lim:
                    vs = rnd.sample(vs, lim)
                seen.update((role, v) for v in vs)
                out += [(role, kind, k, v) for v in vs]
    return out


def _same_class_random(rnd, v):
    keep = 2 if v[:2] in PREFIXES else 0
    out = list(v[:keep])
    for i in range(keep, len(v)):
        c = v[i]
        if c in LOWER:
            out.append(rnd.choice(LOWER))
        elif c in UPPER:
            out.append(rnd.choice(UPPER))
        else:
            out.append("_" if i == 0 else rnd.choice(DIGIT_))
    return "".join(out)


def _digit_underscore_variant(rnd, v):
    idx = [i for i, c in enumerate(v) if c in DIGIT_ and i > 0 and not (i == 1 and v[:2] in PREFIXES)]
    if not idx:
        return v
    out = list(v)
    for i in rnd.sample(idx, rnd.randint(1, len(idx))):
        out[i] = rnd.choice("_019") if out[i] != "_" else rnd.choice("0123456789")
    return "".join(out)


def _permute_letters(rnd, v):
    """Same multiset of characters per class, other order (abc -> cab)."""
    keep = 2 if v[:2] in PREFIXES else 0
    body = list(v[keep:])
    pos = {cls: [i for i, c in enumerate(body) if c in cls] for cls in (LOWER, UPPER)}
    for cls, ix in pos.items():
        chars = [body[i] for i in ix]
        rnd.shuffle(chars)
        for i, c in zip(ix, chars):
            body[i] = c
    return v[:keep] + "".join(body)


def candidate(rnd, v, stats=None):
    k = rnd.random()
    cls = name_class(v)
    if k < 0.25 and cls in NEAR:
        if stats is not None:
            stats["near"] = stats.get("near", 0) + 1
        return rnd.choice(NEAR[cls])
    if 0.25 <= k < 0.45 and cls in ADV:
        if stats is not None:
            stats["derived"] = stats.get("derived", 0) + 1
        return adversarial_target(rnd, v)
    if k < 0.60:
        return _digit_underscore_variant(rnd, v)
    if k < 0.68:
        return _permute_letters(rnd, v)
    return _same_class_random(rnd, v)


def random_renaming(rnd, names, guard, mode=None, stats=None):
    """-> dict old -> new over ALL names (identity for fixed ones); rename_ok(list(items), guard) holds.
    mode: 'all' (every movable name), 'one', 'some', 'swap' (a permutation inside the file's own names)."""
    names = sorted(set(names))
    mode = mode or rnd.choice(["all", "all", "some", "one", "swap"])
    movable = [v for v in names if not fixed_name(v, guard)]
    for _ in range(20):
        m = {v: v for v in names}
        if mode == "swap":
            by = {}
            for v in movable:
                by.setdefault(name_class(v), []).append(v)
            groups = [g for g in by.values() if len(g) > 1]
            if groups:
                for g in groups:
                    if rnd.random() < 0.7:
                        sh = g[:]
                        rnd.shuffle(sh)
                        for a, b in zip(g, sh):
                            m[a] = b
                if rename_ok(list(m.items()), guard):
                    return m
            mode = "all"
            continue
        if mode == "one":
            chosen = [rnd.choice(movable)] if movable else []
        elif mode == "some":
            chosen = [v for v in movable if rnd.random() < 0.5]
        else:
            chosen = movable[:]
        rnd.shuffle(chosen)
        used = set(v for v in names if v not in chosen)
        ok = True
        for v in chosen:
            for _ in range(40):
                c = candidate(rnd, v, stats)
                if c not in used and pair_ok(v, c, guard):
                    m[v] = c
                    used.add(c)
                    break
            else:
                if v in used:
                    ok = False
                    break
                used.add(v)
        if ok and rename_ok(list(m.items()), guard):
            return m
    return {v: v for v in names}


def macro_capitals_renaming(rnd, names, guard, src=None):
    """The stream outside the proved class: isupper() macro names -> another isupper() name of the same length
    whose number of capitals may differ (BUF -> B_1).  Everything else stays.
    An all-capitals name that a violating variant DECLARES as a function (`size_t<TAB>M44(...)` on a top-level line) is
    not a macro name: the tool reports FORBIDDEN_CHAR_NAME once per illegal character of a function name, so there the
    number of capitals is observable (that is why the proved class keeps it) - such names stay."""
    import re
    names = sorted(set(names))
    m = {v: v for v in names}
    used = set(names)
    declared = set()
    if src is not None:
        for line in src.split("\n"):
            if line and line[0] not in "#\t /{}":
                declared.update(re.findall(r"([A-Za-z_][A-Za-z0-9_]*)\s*\(", line))
    for v in names:
        if not (v.isupper() and not fixed_name(v, guard) and len(v) > 1) or v in declared:
            continue
        for _ in range(30):
            c = [rnd.choice(UPPER)] + [rnd.choice(UPPER + DIGIT_ + DIGIT_) for _ in v[1:]]
            if rnd.random() < 0.3:
                c[0] = "_"
            c = "".join(c)
            if (c.isupper() and is_name(c) and c not in used and c not in keywords and not is_special(c)
                    and c.upper() != guard and c[:2].lower() not in PREFIXES):
                used.discard(v)
                used.add(c)
                m[v] = c
                break
    return m


def identifiers(src, name):
    """-> [(value, line, col, lo, hi)] of the IDENTIFIER tokens, or None when the file does not lex."""
    r = lexcorr.impl_lex(src, name)
    if r["kind"] != "ok":
        return None
    return [(t[1], t[2], t[3], t[4], t[5]) for t in r["tokens"] if t[0] == "IDENTIFIER"]


def apply_renaming(src, toks, mapping):
    out = src
    for v, _, _, lo, hi in sorted(toks, key=lambda t: -t[3]):
        n = mapping.get(v, v)
        if n != v:
            if out[lo:hi] != v:      # a spliced identifier (backslash-newline inside): never produced by the families
                raise ValueError("identifier span %r does not spell %r" % (out[lo:hi], v))
            out = out[:lo] + n + out[hi:]
    return out


# ---------------------------------------------------------------------------------------------- C17: contents
GRAPH_RE = re.compile(r"<:|:>|<%|%>|%:|\?\?[=/'()!<>\-]")
QUOTE_OF = {"STRING": '"', "CHAR_CONST": "'"}
KINDS = ("COMMENT", "MULT_COMMENT", "STRING", "CHAR_CONST")
VALID_ESC = re.compile(r"\\(?:[abefnrtv\\\"'?]|[0-7]+|x[0-9a-fA-F]{1,2})")


def has_graph(text):
    return GRAPH_RE.search(text) is not None


def header_comment_indices(tokens):
    """Indices of the comment tokens in the leading run of comment statements (the tool concatenates every
    comment statement that precedes the first non-comment statement into the header text).  Conservative:
    the run ends at the first empty line or at the first token that is neither a comment nor white space."""
    out = set()
    line_has_comment = False
    for i, t in enumerate(tokens):
        ty = t[0]
        if ty in ("COMMENT", "MULT_COMMENT"):
            out.add(i)
            line_has_comment = True
        elif ty in ("SPACE", "TAB"):
            continue
        elif ty == "NEWLINE":
            if not line_has_comment:
                break
            line_has_comment = False
        else:
            break
    return out


def include_lines(tokens):
    """Line numbers of genuine `# include` directives - the only strings the property text excludes ("outside #include").
    The string of an `#import "..."` line (IsPreprocessorStatement.check_import accepts it, no rule reads its contents:
    CheckPreprocessorInclude returns for every directive other than `include`), and strings on #define / #warning /
    #error / #pragma / #if lines are string contents in the sense of C17 and ARE edited."""
    out = set()
    first = {}
    for t in tokens:
        if t[0] in ("SPACE", "TAB", "NEWLINE"):
            continue
        first.setdefault(t[2], [])
        if len(first[t[2]]) < 2:
            first[t[2]].append(t)
    for ln, ts in first.items():
        if len(ts) == 2 and ts[0][0] == "HASH" and ts[1][0] == "IDENTIFIER" and ts[1][1] == "include":
            out.add(ln)
    return out


def targets(src, name, lexed=None):
    """-> (targets, skipped) ; a target = dict(idx, kind, lo, hi, clo, chi, content, line, col, width).
    idx = index in the token list; [clo, chi) = raw span of the content."""
    r = lexed or lexcorr.impl_lex(src, name)
    if r["kind"] != "ok":
        return None, {}
    toks = r["tokens"]
    hdr = header_comment_indices(toks)
    inc = include_lines(toks)
    lines = src.split("\n")
    out, skipped = [], {}

    def skip(why):
        skipped[why] = skipped.get(why, 0) + 1
    for i, t in enumerate(toks):
        ty, val, ln, col, lo, hi = t
        if ty not in KINDS:
            continue
        raw = src[lo:hi]
        if i in hdr:
            skip("42 header")
            continue
        if "\\\n" in raw or "??/" in raw:
            skip("line splice inside")
            continue
        if ty == "COMMENT":
            clo, chi = lo + 2, hi
        elif ty == "MULT_COMMENT":
            if len(raw) < 4 or not raw.endswith("*/"):
                skip("unterminated")
                continue
            clo, chi = lo + 2, hi - 2
        else:
            if ln in inc:
                skip("#include")
                continue
            q = QUOTE_OF[ty]
            k = raw.find(q)
            if k < 0 or k > 2 or len(raw) < k + 2 or raw[-1] != q:
                skip("unterminated")
                continue
            clo, chi = lo + k + 1, hi - 1
            body = src[clo:chi]
            rest = VALID_ESC.sub("", body)
            if "\\" in rest or q in rest or "\n" in body:
                skip("invalid escape / unterminated")
                continue
            if ty == "CHAR_CONST" and (body == "" or "\\" in body):
                skip("char constant with escape or empty")       # lexical validity: outside the property
                continue
        content = src[clo:chi]
        if has_graph(content):
            skip("old content holds a di/trigraph")
            continue
        last_line = ln + content.count("\n")
        width = max(len(lines[k - 1].expandtabs(4)) for k in range(ln, min(last_line, len(lines)) + 1))
        out.append({"idx": i, "kind": ty, "lo": lo, "hi": hi, "clo": clo, "chi": chi, "content": content,
                    "line": ln, "col": col, "width": width})
    return out, skipped


OPS = list("+-*/<>=!&|^~,.;()[]{}#") + ["==", "->", "++", "&&", "<<", ">=", "!=", ");", "{}", "()", "[]", ";;", "/ /"]
WORDS = ["if", "while", "return", "int", "else", "for", "char", "void", "struct", "sizeof", "NULL", "static", "define",
         "include", "main", "x", "i", "tmp", "g_var", "t_list", "BUF", "ft_put"]
EXTRA = ["%", ":", "?", "<:", ":>", "<%", "%>", "%:", "??=", "??(", "??)", "??<", "??>", "??!", "??-", "??'", "?:", "%d"]


def forbidden_chars(kind):
    """Characters replace_ok never accepts at a replaced position."""
    f = set("\\\n\t?%:")
    if kind in QUOTE_OF:
        f.add(QUOTE_OF[kind])
    if kind == "MULT_COMMENT":
        f.add("/")
    return f


def replace_ok_py(kind, old, new):
    """The admissible class (what the Coq predicate replace_ok accepts): same length; the positions holding a
    line break or a tab keep it; every other position holds a printable ASCII character that is not a
    backslash, ? % : , not the literal's own quote, and inside a block comment not a slash."""
    if kind not in KINDS or len(old) != len(new):
        return False
    f = forbidden_chars(kind)
    for a, b in zip(old, new):
        if a in "\n\t":
            if a != b:
                return False
        elif b in f or not (32 <= ord(b) <= 126):
            return False
    return True


def wider_ok(kind, old, new):
    """The property's full code-like alphabet (admissible=False): adds % : ? (so di/trigraphs can arise); still
    no own quote, backslash (also as ??/), line break; a block comment never gets */ or /* or a leading /."""
    if len(old) != len(new):
        return False
    for a, b in zip(old, new):
        if a in "\n\t":
            if a != b:
                return False
        elif b in "\\\n\t" or not (32 <= ord(b) <= 126) or b == QUOTE_OF.get(kind):
            return False
    if "??/" in new:
        return False
    if kind == "MULT_COMMENT" and ("*/" in new or "/*" in new or new[:1] == "/" or new[-1:] == "/"):
        return False
    return True


def replacement(rnd, kind, content, admissible, force=None, graphs=True):
    """New content of the same length / same tab and line-break positions, drawn from code-like pieces.
    force: a piece that must appear; graphs=False (wider class only): no di/trigraph spelling in the result."""
    n = sum(1 for c in content if c not in "\n\t")
    other = {"STRING": ["'"], "CHAR_CONST": ['"'], "COMMENT": ["'", '"'], "MULT_COMMENT": ["'", '"']}[kind]
    pieces = OPS * 2 + WORDS + other * 3 + [" ", " ", " ", "0", "1", "42", "0x1F"] + ([] if admissible else EXTRA * 3 if graphs else ["%", ":", "?", "%d", "? ", ": "] * 6)
    f = forbidden_chars(kind) if admissible else set("\\\n\t" + QUOTE_OF.get(kind, ""))
    for _ in range(200):
        txt = ""
        while len(txt) < n + 8:
            txt += rnd.choice(pieces)
            if rnd.random() < 0.3:
                txt += " "
        txt = "".join(c for c in txt if c not in f)
        if len(txt) < n:
            continue
        txt = txt[:n]
        if force:
            if len(force) > n:
                return None
            k = rnd.randint(0, n - len(force))
            txt = txt[:k] + force + txt[k + len(force):]
        it = iter(txt)
        new = "".join(c if c in "\n\t" else next(it) for c in content)
        if not admissible and not graphs and has_graph(new):
            continue
        if (replace_ok_py if admissible else wider_ok)(kind, content, new) and (force is None or force in new):
            return new
    return None


def apply_replacements(src, reps):
    """reps: [(clo, chi, new)] non-overlapping."""
    out = src
    for clo, chi, new in sorted(reps, key=lambda x: -x[0]):
        out = out[:clo] + new + out[chi:]
    return out


def expected_value(kind, tok, src, new_content, clo):
    """Value the lexer must give the token after an ADMISSIBLE replacement (independent little model: the
    delimiters and the prefix stay, block comments expand tabs to the next multiple of 4)."""
    ty, val, ln, col, lo, hi = tok
    if kind == "MULT_COMMENT":
        c = col + 2
        out = "/*"
        for ch in new_content + "*/":
            if ch == "\n":
                out += ch
                c = 1
            elif ch == "\t":
                k = 4 - (c - 1) % 4
                out += " " * k
                c += k
            else:
                out += ch
                c += 1
        return out
    if kind == "COMMENT":
        return "//" + new_content
    return src[lo:clo] + new_content + QUOTE_OF[kind]


# ---------------------------------------------------------------------------------------------- comparison
def compare(base, variant):
    """Both are impl.analyse results.  'skip' when the base file is not analysable (outside the quantifier);
    None when equal; else a description of the first difference."""
    if base["kind"] != "ok":
        return "skip"
    if variant["kind"] != "ok":
        return {"what": "outcome", "base": "ok", "variant": variant["kind"],
                "detail": str(variant.get("msg") or variant.get("exc") or "")[:200], "frame": variant.get("frame")}
    a = [norm_diag(d) for d in base["diags"]]
    b = [norm_diag(d) for d in variant["diags"]]
    if a == b:
        return None
    for i in range(max(len(a), len(b))):
        x = a[i] if i < len(a) else None
        y = b[i] if i < len(b) else None
        if x != y:
            return {"what": "diagnostics", "index": i, "base": x, "variant": y, "n_base": len(a), "n_variant": len(b),
                    "only_base": [d for d in a if d not in b][:4], "only_variant": [d for d in b if d not in a][:4]}
    return None


def norm_diag(d):
    return [d[0], d[1], d[2], [list(h) for h in d[3]]]


def lex_compare(src, src2, name, mapping=None, expected=None):
    """Token streams of the two sources: same number of tokens, same (type, line, col, lo, hi) one by one.
    mapping (C18): the value of an IDENTIFIER is the renamed one, other values equal.
    expected (C17): {token index: expected value}; other values equal.   -> None or a description."""
    a = lexcorr.impl_lex(src, name)
    b = lexcorr.impl_lex(src2, name)
    if a["kind"] != "ok":
        return None
    if b["kind"] != "ok":
        return {"what": "lexer outcome", "variant": b["kind"], "exc": b.get("exc")}
    ta, tb = a["tokens"], b["tokens"]
    if len(ta) != len(tb):
        return {"what": "token count", "base": len(ta), "variant": len(tb)}
    for i, (x, y) in enumerate(zip(ta, tb)):
        if (x[0], x[2], x[3], x[4], x[5]) != (y[0], y[2], y[3], y[4], y[5]):
            return {"what": "token type/position/span", "index": i, "base": list(x), "variant": list(y)}
        want = x[1]
        if mapping is not None and x[0] == "IDENTIFIER":
            want = mapping.get(x[1], x[1])
        if expected is not None and i in expected:
            want = expected[i]
        if y[1] != want:
            return {"what": "token value", "index": i, "base": list(x), "variant": list(y), "expected_value": want}
    if a["diags"] != b["diags"]:
        return {"what": "lexer diagnostics", "base": a["diags"][:3], "variant": b["diags"][:3]}
    return None


# ---------------------------------------------------------------------------------------------- files
CWORDS = ["the", "loop", "counts", "x", "i", "value", "of", "buffer", "returns", "0", "42", "ptr", "when", "empty", "TODO",
          "fix", "len", "a;b", "f(x)", "{}", "n + 1", "see", "below", "list", "node", "=", "->", "it's", "\"s\"", "end."]


def dwidth(line):
    return len(line.expandtabs(4))


def _text(rnd, n=None):
    t = " ".join(rnd.choice(CWORDS) for _ in range(rnd.randint(1, 6)))
    if rnd.random() < 0.12:
        k = rnd.randint(0, len(t))
        t = t[:k] + "\t" + t[k:]
    return t


def _pad_to(rnd, prefix, opener, closer, want):
    """A comment line `prefix opener text closer` whose displayed width is `want` (when reachable)."""
    txt = _text(rnd)
    for _ in range(200):
        line = prefix + opener + txt + closer
        w = dwidth(line)
        if w == want:
            return line
        if w < want:
            txt += rnd.choice("abcdefgh ;.x0")
            if w + 1 < want and rnd.random() < 0.2:
                txt += rnd.choice(CWORDS)
        else:
            txt = txt[:-1] if len(txt) > 1 else "x"
            if "\t" in txt and w - want > 3:
                txt = txt.replace("\t", " ")
    return prefix + opener + txt + closer


def comment_line(rnd, prefix, style, stats):
    """prefix + a one-line comment; ~1 in 4 sits at the 80 column edge (78..83)."""
    opener, closer = ("// ", "") if style == "//" else ("/* ", " */")
    if rnd.random() < 0.25 and dwidth(prefix) < 60:
        stats["edge"] = stats.get("edge", 0) + 1
        return _pad_to(rnd, prefix, opener, closer, rnd.randint(78, 83))
    return prefix + opener + _text(rnd) + closer


def block_comment(rnd, indent, stats):
    """Multi-line block comment with 1..3 interior lines -> list of lines."""
    out = [indent + "/*"]
    for _ in range(rnd.randint(1, 3)):
        if rnd.random() < 0.25:
            stats["edge"] = stats.get("edge", 0) + 1
            out.append(_pad_to(rnd, indent, "** ", "", rnd.randint(78, 83)))
        else:
            out.append(indent + "** " + _text(rnd))
    if rnd.random() < 0.3:
        out[0] = indent + "/* " + _text(rnd)
    out.append(indent + "*/")
    return out


def make_commented(rnd, name, src, stats=None):
    """family programs carry no comment after the header: add file-level comments (one-line block, multi-line
    block, //), end-of-line comments (after a global / prototype `;`, after a #define) and comments inside function
    bodies; some #define NAME "text" / 'c'.  The result only has to stay analysable."""
    stats = stats if stats is not None else {}
    lines = src.split("\n")
    is_h = name.endswith(".h")
    for attempt in range(6):
        density = [1.0, 0.8, 0.6, 0.4, 0.25, 0.1][attempt]
        out = lines[:12]
        depth = 0
        need = {"file": True, "eol": True, "func": True}
        body = lines[12:]
        if body and body[-1] == "":
            body = body[:-1]
        for j, ln in enumerate(body):
            prev = out[-1]
            top = depth == 0
            if ln.startswith("{"):
                depth = 1
            # file-level comment between top-level items (after a blank line)
            if top and prev == "" and ln != "" and not ln.startswith("{") and (need["file"] or rnd.random() < 0.35 * density):
                if not (is_h and ln.startswith("#endif")) or rnd.random() < 0.3:
                    k = rnd.randint(0, 3)
                    if k == 0:
                        out += block_comment(rnd, "", stats)
                    elif k == 1:
                        out.append(comment_line(rnd, "", "//", stats))
                    else:
                        out.append(comment_line(rnd, "", "/*", stats))
                    if rnd.random() < 0.7:
                        out.append("")
                    need["file"] = False
                    stats["file-level"] = stats.get("file-level", 0) + 1
            # an extra define with a literal
            if top and (ln.startswith("#define") or ln.startswith("# define")) and rnd.random() < 0.5 * density \
                    and not (is_h and j < 3):
                d = ln.split("define")[0] + "define "
                lit = rnd.choice(['"%s"' % _text(rnd).replace("\t", " ").replace('"', "'"), "'%s'" % rnd.choice("abc;{0 ")])
                out.append(d + family.mname(rnd) + "_" + rnd.choice("ABCXYZ") + " " + lit)
                stats["literal-define"] = stats.get("literal-define", 0) + 1
            new = ln
            at_top_decl = top and depth == 0 and (ln.endswith(";") and not ln.startswith("\t") and not ln.startswith("}"))
            at_define = top and ("define " in ln and ln.startswith("#")) and not (is_h and j < 3)
            if (at_top_decl or at_define) and (need["eol"] or rnd.random() < 0.4 * density):
                sep = rnd.choice([" ", "\t", "  "])
                new = comment_line(rnd, ln + sep, rnd.choice(["//", "/*"]), stats)
                need["eol"] = False
                stats["end-of-line"] = stats.get("end-of-line", 0) + 1
            elif depth > 0 and not top and ln.startswith("\t") and ln.endswith(";") and rnd.random() < 0.12 * density:
                new = comment_line(rnd, ln + " ", rnd.choice(["//", "/*"]), stats)
                stats["end-of-line-in-function"] = stats.get("end-of-line-in-function", 0) + 1
            out.append(new)
            if depth > 0 and not top and ln.startswith("\t") and not ln.startswith("}") \
                    and (need["func"] or rnd.random() < 0.12 * density) and ln.endswith(";"):
                ind = "\t" * (len(ln) - len(ln.lstrip("\t")))
                k = rnd.randint(0, 3)
                if k == 0:
                    out += block_comment(rnd, ind, stats)
                elif k == 1:
                    out.append(comment_line(rnd, ind, "/*", stats))
                else:
                    out.append(comment_line(rnd, ind, "//", stats))
                need["func"] = False
                stats["in-function"] = stats.get("in-function", 0) + 1
            if ln.startswith("}"):
                depth = 0
        if not is_h and not any(l.startswith("#define") and ('"' in l or "'" in l) for l in out) and rnd.random() < 0.4:
            k = 12
            add = ["#define %s_S \"%s\"" % (family.mname(rnd), _text(rnd).replace("\t", " ").replace('"', "'"))]
            if not out[12].startswith("#"):
                add.append("")
            out[k:k] = add
            stats["literal-define"] = stats.get("literal-define", 0) + 1
        # strings on preprocessor lines other than #include: #import "x.h" next to the includes (or at the top), #warning / #pragma
        if rnd.random() < 0.6 * max(density, 0.4):
            inc = [k for k, l in enumerate(out) if k >= 12 and l.lstrip("#").lstrip(" ").startswith("include") and l.startswith("#")]
            word = rnd.choice(["import", "import", "import", "warning", "pragma message"])
            arg = '"%s.h"' % family.lname(rnd, 6) if word == "import" and rnd.random() < 0.8 else \
                '"%s"' % _text(rnd, rnd.randint(3, 14)).replace("\t", " ").replace('"', "'")
            if inc:
                k = rnd.choice(inc)
                ind = out[k][:len(out[k]) - len(out[k].lstrip("#").lstrip(" "))]
                out.insert(k + 1, ind + word + " " + arg)
            elif not is_h:
                out[12:12] = ["#" + word + " " + arg] + ([] if out[12].startswith("#") else [""])
            stats["directive-with-string"] = stats.get("directive-with-string", 0) + 1
        res = "\n".join(out) + "\n"
        if impl.analyse(res, name)["kind"] == "ok":
            return res
        stats["retries"] = stats.get("retries", 0) + 1
    return src


def file_from_seed(fseed, i, want_comments, stats=None):
    """The i-th file of a run: a family program [+ comments], every second one a violating but analysable
    variant (token edits exactly as in c06.py)."""
    rnd = random.Random(fseed)
    name, src = family.program(rnd)
    if want_comments:
        src = make_commented(rnd, name, src, stats)
    edited = False
    if i % 2 == 1:
        sp = pipeline.token_spans(src, name)
        if sp:
            for e in pipeline.edits(src, sp, rnd, 6):
                if impl.analyse(e, name)["kind"] == "ok":
                    src = e
                    edited = True
                    break
    return name, src, edited, rnd


def spoil_names(rnd, name, src):
    """A naming-violating variant: 1..3 names get a spelling of ANOTHER class (a capital inside a lower-case name,
    a lower-case macro, a lost g_/s_/t_/u_/e_ prefix), consistently.  This is not a C18 renaming: it only produces
    base files whose diagnostics sit on identifiers (FORBIDDEN_CHAR_NAME, MACRO_NAME_CAPITAL, GLOBAL_VAR_NAMING,
    STRUCT_TYPE_NAMING, USER_DEFINED_TYPEDEF ...).  -> new source or None."""
    toks = identifiers(src, name)
    if not toks:
        return None
    guard = guard_of(name)
    names = sorted(set(t[0] for t in toks))
    movable = [v for v in names if not fixed_name(v, guard)]
    if not movable:
        return None
    m = {}
    used = set(names)
    for v in rnd.sample(movable, min(len(movable), rnd.randint(1, 3))):
        k = rnd.randint(0, 2)
        if v[:2] in PREFIXES and k > 0:
            c = rnd.choice("xyzk") + rnd.choice("xyz0") + v[2:]
        elif v.isupper():
            c = v.lower() if k == 0 else v[:1] + v[1:].lower()
        else:
            j = rnd.randrange(len(v))
            c = v[:j] + (v[j].upper() if v[j] in LOWER else rnd.choice(UPPER)) + v[j + 1:]
        if is_name(c) and c not in used and c not in keywords and not is_special(c) and c.upper() != guard:
            m[v] = c
            used.add(c)
    if not m:
        return None
    out = apply_renaming(src, toks, m)
    return out if impl.analyse(out, name)["kind"] == "ok" else None


def files(rnd, n, want_comments):
    out = []
    for i in range(n):
        name, src, _, _ = file_from_seed(rnd.getrandbits(64), i, want_comments)
        out.append((name, src))
    return out


def merge(dst, src):
    for k, v in src.items():
        if isinstance(v, dict):
            merge(dst.setdefault(k, {}), v)
        else:
            dst[k] = dst.get(k, 0) + v
    return dst
