"""Entry point of every check:  main.py <id> [--tier quick|thorough] [--replay file]"""
import argparse
import importlib
import json
import os
import sys
import traceback

sys.path.insert(0, os.path.dirname(os.path.abspath(__file__)))
import common  # noqa: E402


def main():
    ap = argparse.ArgumentParser()
    ap.add_argument("pid")
    ap.add_argument("--tier", default=os.environ.get("VERIF_TIER", "quick"), choices=["quick", "thorough"])
    ap.add_argument("--replay")
    a = ap.parse_args()
    try:
        seed = int(os.environ.get("VERIF_SEED", "1"))
    except ValueError:
        seed = 1
    run = common.Run(a.pid, a.tier, seed)
    replay = None
    if a.replay:
        with open(a.replay) as f:
            replay = json.load(f)
    mod = importlib.import_module(a.pid.lower())
    try:
        rc = mod.run(run, a.tier, seed, replay)
    except Exception:
        # a crash of the machinery is not a verdict about the code: say so loudly, fail the check
        traceback.print_exc()
        print("CHECK-ERROR property=%s the harness itself failed" % a.pid)
        sys.exit(2)
    if a.tier == "thorough" and not a.replay:
        # the independent checker re-checks the property file and all it depends on; its context summary goes into the evidence
        ck = common.coqchk(a.pid)
        evp = os.path.join(common.VERIF, "evidence", a.pid + ".json")
        try:
            with open(evp) as f:
                ev = json.load(f)
            ev["coverage"]["coqchk"] = ck
            with open(evp, "w") as f:
                json.dump(ev, f, indent=1, default=str)
        except (OSError, ValueError, KeyError):
            pass
        print("coqchk: " + ck["summary"][:300])
        if not ck["ok"] and rc == 0:
            run.violation("broken-obligation-coqchk", ck, no_input=True)
            rc = 1
    sys.exit(rc)


if __name__ == "__main__":
    main()
