"""C02 - every enforced violation is reported on its line.

(a) build: Gen/RuleChecks.v (the run methods of the small checks translated from the Python AST), the token-local
    theorems of Proofs/RuleChecksProofs.v, Props/C02.v.
(b) correspondence: Registry.run_rules is wrapped from outside; every invocation of a modelled check on real runs
    (conforming and edited programs) is recorded - the remaining tokens, tkn_scope, the context fields the check
    reads, the diagnostics it added and the scope flags afterwards - and replayed in the Coq model
    (build/cases_C02/cases_k.v, `Eval vm_compute`), results compared inside Coq.
(c) search = the property on the implementation: conforming programs x every operator of the catalogue
    (tools/harness/edits.py) x sites chosen to vary the context: the expected code must be reported at Error level on
    the expected line and the file must be `Error`.  A miss outside KNOWN_FINDINGS is a VIOLATION."""
import ast
import multiprocessing as mp
import os
import random
import re
import subprocess
import time
from concurrent.futures import ThreadPoolExecutor

import common

CASES_DIR = os.path.join(common.BUILD, "cases_C02")

# check class -> Coq function
MODELLED = {"CheckTernary": "check_ternary", "CheckLineLen": "check_line_len", "CheckLabel": "check_label",
            "CheckManyInstructions": "check_many_instructions", "CheckEmptyLine": "check_empty_line",
            "CheckLineIndent": "check_line_indent", "CheckSpacing": "check_spacing",
            # second batch (Gen/MoreChecks.v); the first is a slice that also takes context.file.type
            "CheckUtypeDeclaration": "(fun t s v => check_utype_forbidden t s ft v)", "CheckExpressionStatement": "check_expression_statement",
            "CheckControlStatement": "check_control_statement",
            # third batch (Gen/NameChecks.v): other signatures, adapted to `result` in the cases file; extra inputs xf xp xv xc
            "CheckIdentifierName": "adapt_ident xf xp xv", "CheckComment": "adapt_comment xc",
            # fourth batch (Gen/PreprocChecks.v): needs the token values (xw) and context.preproc.indent (xi)
            "CheckPreprocessorIndent": "adapt_ppi xi xw",
            # (Gen/PreprocChecks2.v): the whole history and scope.include_allowed (view); xi = 1 for context.preproc.skip_define
            "CheckPreprocessorInclude": "adapt_ppn xw", "CheckPreprocessorDefine": "adapt_ppd xi xw"}
PP_CHECKS = ("CheckPreprocessorIndent", "CheckPreprocessorInclude", "CheckPreprocessorDefine")
# slices: only these codes are emitted by the translated part (Gen: check_*_codes); an exception of the untranslated rest is not compared
SLICE_CODES = {"CheckUtypeDeclaration": {"TYPE_NOT_GLOBAL", "FORBIDDEN_STRUCT", "FORBIDDEN_UNION", "FORBIDDEN_ENUM", "FORBIDDEN_TYPEDEF"},
               "CheckControlStatement": {"WRONG_SCOPE", "EXP_NEWLINE", "FORBIDDEN_CS", "ASSIGN_IN_CONTROL"}}
CHECK_IDS = sorted(MODELLED)
EXN = {k: k for k in ("AttributeError", "IndexError", "TypeError", "KeyError", "UnboundLocalError", "RecursionError", "AssertionError")}


# ------------------------------------------------------------------------------------------------ probe (worker side)
_REC = None


def _install_probe():
    """wrap Registry.run_rules at class level (no source hooks); records go to the global _REC when it is a list"""
    common.ensure_impl_path()
    import impl  # noqa
    from norminette.registry import Registry
    from norminette.scope import GlobalScope
    if getattr(Registry.run_rules, "_c02", False):
        return
    orig = Registry.run_rules

    def rr(self, context, rule):
        rec = _REC
        name = getattr(rule, "__name__", None)
        if rec is None or name not in MODELLED:
            return orig(self, context, rule)
        sc = context.scope
        inner = context.errors._inner
        before = len(inner)
        toks0 = context.tokens
        hist = context.history
        # the part of the history the modelled checks can look at: back to the third entry that CheckLineIndent does not skip
        n, seen = len(hist), 0
        lo = n
        while lo > 0 and seen < 3:
            lo -= 1
            if hist[lo].name not in ("IsEmptyLine", "IsComment", "IsPreprocessorStatement"):
                seen += 1
        if n - lo < 3:
            lo = max(0, n - 3)
        if name == "CheckComment":
            # is_inside_a_function scans back to the newest IsFuncDeclaration that is followed by an IsBlockStart
            k = n - 1
            while k > 0 and not (hist[k - 1].name == "IsFuncDeclaration" and hist[k].name == "IsBlockStart"):
                k -= 1
            lo = min(lo, max(0, k - 1))
        item = {"check": name, "ntoks": len(toks0), "scope": context.tkn_scope, "hlen": n, "ftype": context.file.type,
                "hist": [h.name for h in reversed(hist[lo:])], "hist_cut": lo > 0,
                "sname": sc.name, "glob": type(sc) is GlobalScope, "indent": sc.indent,
                "ia": bool(sc.include_allowed), "va": bool(sc.vdeclarations_allowed), "oc": 0}
        if name == "CheckIdentifierName":
            root = sc
            while root.parent is not None:
                root = root.parent
            fn_ = getattr(root, "fnames", [])
            item["xf"] = fn_[-1] if fn_ else None
            item["xp"] = context.fname_pos
            item["xv"] = [(t_.value or "", t_.pos[0], t_.pos[1]) for t_ in sc.vars_name]
        if name == "CheckComment":
            item["xc"] = type(sc).__name__.lower()
        if name == "CheckPreprocessorIndent":
            item["glob"] = isinstance(sc, GlobalScope)
            item["xi"] = context.preproc.indent
        if name == "CheckPreprocessorDefine":
            item["xi"] = 1 if context.preproc.skip_define else 0
        if name == "CheckPreprocessorInclude":
            # is_in_start_of_file looks at the whole history
            item["hist"], item["hist_cut"] = [h.name for h in reversed(hist)], False
        # which token positions the check really reads (peek_token is the only accessor besides tokens[:tkn_scope])
        reads = [-1, 0]
        orig_peek = context.peek_token

        def pk(pos):
            if pos >= 0:
                if pos > reads[0]:
                    reads[0] = pos
            elif pos < reads[1]:
                reads[1] = pos
            return orig_peek(pos)
        context.peek_token = pk
        # tokens as they are NOW (a check may have rewritten a token in place: CheckCommentLineLen sets .pos)
        pre = [(t.type, t.pos[0], t.pos[1]) for t in toks0[:max(context.tkn_scope, 0) + 12]]
        try:
            return orig(self, context, rule)
        except BaseException as e:  # noqa
            item["oc"] = 2
            item["exc"] = type(e).__name__
            raise
        finally:
            del context.peek_token
            m = max(max(context.tkn_scope, 0), reads[0] + 1)
            if m > len(pre):
                pre = [(t.type, t.pos[0], t.pos[1]) for t in toks0[:m]]       # (positions cannot have changed meanwhile)
            win = pre[:m]
            cut = m < len(toks0)
            if cut:
                last = toks0[-1]
                win = win + [(last.type, last.pos[0], last.pos[1])]
            if reads[1] < -1 and cut:
                win = [(t.type, t.pos[0], t.pos[1]) for t in toks0]
                cut = False
            item["win"], item["cut"], item["maxread"] = win, cut, reads[0]
            if name in PP_CHECKS:
                item["xw"] = [t.value for t in (toks0 if len(win) == len(toks0) else toks0[:m] + [toks0[-1]])][:len(win)]
            item["line0"] = win[0][1] if win else None
            item["em"] = [(e.name, e.highlights[0].lineno, e.highlights[0].column) for e in inner[before:]
                          if name not in SLICE_CODES or e.name in SLICE_CODES[name]]
            if name in SLICE_CODES and item["oc"] != 0:
                item["skip"] = True          # the exception may come from the untranslated rest of the method
            item["ia2"], item["va2"] = bool(sc.include_allowed), bool(sc.vdeclarations_allowed)
            rec.append(item)
    rr._c02 = True
    Registry.run_rules = rr


def probe_run(src, name, limit=4.0):
    """-> dict(kind, diags, status, toks=[(type,line,col)], hist=[names], recs=[...])"""
    global _REC
    import contextlib
    import io
    import impl
    from norminette.file import File
    from norminette.lexer import Lexer
    from norminette.context import Context
    from norminette.registry import Registry
    from norminette.exceptions import CParsingError
    _install_probe()
    f = File(name, src)
    out = io.StringIO()
    res = {"kind": "ok"}
    recs = []
    ctx = None
    toks = []
    try:
        with impl.time_limit(limit), contextlib.redirect_stdout(out):
            tokens = list(Lexer(f))
            toks = [(t.type, t.pos[0], t.pos[1]) for t in tokens]
            ctx = Context(f, tokens, 0, None)
            _REC = recs
            Registry().run(ctx)
    except impl.Timeout:
        res["kind"] = "timeout"
    except CParsingError as e:
        res["kind"] = "fatal"
        res["msg"] = e.msg[:200]
    except BaseException as e:  # noqa
        if isinstance(e, KeyboardInterrupt):
            raise
        res["kind"] = "exc"
        res["exc"] = type(e).__name__
        res["frame"] = impl.innermost_frame(e.__traceback__)
    finally:
        _REC = None
    if res["kind"] == "ok":
        res["diags"] = [impl.diag_tuple(x) for x in f.errors]
        res["status"] = f.errors.status
    res["toks"] = toks
    res["hist"] = [h.name for h in ctx.history] if ctx is not None else []
    res["recs"] = recs
    return res


# ------------------------------------------------------------------------------------------------ replay in the model
def cs_(x):
    """a Python string as a Coq `str` (code points)"""
    return "(S_ [%s])" % "; ".join("%d%%nat" % ord(ch) for ch in x)


def coq_cases_text(cases, types, rules, codes):
    """cases: [rec] -> text of a cases file; every case carries its own token window and history suffix.
    The window is exact: it holds every position the implementation read (recorded through peek_token), and the last
    token of the file for the index -1; when the history is cut, at least three entries and the newest three that
    CheckLineIndent does not skip are kept (the len(history) tests of the checks compare with 1 only)."""
    o = ["From NV Require Import Model.Base Model.RuleChecks Gen.RuleChecks Gen.MoreChecks Model.NameBase Gen.NameChecks Model.PreprocBase Gen.PreprocChecks Model.PreprocBase2 Gen.PreprocChecks2.\nOpen Scope Z_scope.\n"]
    o.append("Definition tys : list str := [%s].\n" % "; ".join('s "%s"' % t for t in types))
    o.append("Definition rls : list str := [%s].\n" % "; ".join('s "%s"' % t for t in rules))
    o.append("Definition cds : list str := [%s].\n" % "; ".join('s "%s"' % t for t in codes))
    o.append("Definition T (k : nat) (l c : Z) : token := mk_tok (nth k tys []) l c.\n")
    o.append("Definition R (k : nat) : str := nth k rls [].\nDefinition C (k : nat) (l c : Z) : em := (nth k cds [], l, c).\n")
    o.append("Definition adapt_ident (xf : option str) (xp : Z) (xv : list (str * Z * Z)) (toks : list token) (scope : Z) (v : view) : result :=\n"
             "  match check_identifier_name toks (hd [] (v_history v)) (v_scope_global v) (str_eqb (v_scope_name v) (s \"UserDefinedType\")) xf xp xv with\n"
             "  | Ok E => Ok (E, v) | Fatal m => Fatal m | Crash e => Crash e | Hang => Hang end.\n")
    o.append("Definition adapt_comment (xc : str) (toks : list token) (scope : Z) (v : view) : result := Ok (check_comment toks (v_history v) xc, v).\n")
    o.append("Definition S_ (l : list nat) : str := map N.of_nat l.\n")
    o.append("Definition lift_ (r : outcome (list em)) (v : view) : result :=\n"
             "  match r with Ok E => Ok (E, v) | Fatal m => Fatal m | Crash e => Crash e | Hang => Hang end.\n"
             "Definition adapt_ppn (xw : list (option str)) (toks : list token) (scope : Z) (v : view) : result :=\n"
             "  lift_ (check_preproc_include (with_vals toks xw) (v_history v) (v_include_allowed v)) v.\n"
             "Definition adapt_ppd (xi : Z) (xw : list (option str)) (toks : list token) (scope : Z) (v : view) : result :=\n"
             "  lift_ (check_preproc_define (with_vals toks xw) (xi =? 1)) v.\n")
    o.append("Definition adapt_ppi (xi : Z) (xw : list (option str)) (toks : list token) (scope : Z) (v : view) : result :=\n"
             "  match check_preproc_indent (with_vals toks xw) (v_scope_global v) xi with\n"
             "  | Ok E => Ok (E, v) | Fatal m => Fatal m | Crash e => Crash e | Hang => Hang end.\n")
    o.append("Definition run_check (k : nat) (ft : str) (xf : option str) (xp : Z) (xv : list (str * Z * Z)) (xc : str) (xi : Z) (xw : list (option str)) := match k with %s | _ => check_ternary end.\n" % " | ".join(
        "%d%%nat => %s" % (i, MODELLED[c]) for i, c in enumerate(CHECK_IDS)))
    ti = {t: i for i, t in enumerate(types)}
    ri = {t: i for i, t in enumerate(rules)}
    ci = {t: i for i, t in enumerate(codes)}
    # the outcome is compared with its exception class: a Crash of the model must carry the exception the implementation raised
    o.append("Definition agrees_x (r : result) (oc : Z) (ex : exn) (E : list em) (ia va : bool) : bool :=\n"
             "  match r with Crash e => (oc =? 2) && exn_eqb e ex | _ => agrees r oc E ia va end.\n")
    o.append("Definition one (id : Z) (toks : list token) (cut : bool) (hist : list str) (ck : nat) (scope : Z) (sname : str) (glob : bool) (indent : Z)\n"
             "  (ia va : bool) (oc : Z) (ex : exn) (E : list em) (ia2 va2 : bool) (ft : str)\n"
             "  (xf : option str) (xp : Z) (xv : list (str * Z * Z)) (xc : str) (xi : Z) (xw : list (option str)) : list Z :=\n"
             "  let v := mkview hist sname glob indent ia va in\n"
             "  if agrees_x (run_check ck ft xf xp xv xc xi xw toks scope v) oc ex E ia2 va2 then [] else [id].\n")
    o.append("Definition results : list Z := List.concat [\n")
    lines = []
    b = lambda x: "true" if x else "false"  # noqa
    for cid, r in enumerate(cases):
        lines.append(" one %d [%s] %s [%s] %d (%d) (s \"%s\") %s (%d) %s %s %d %s [%s] %s %s (s \"%s\") %s (%d) [%s] %s (%d) [%s]" % (
            cid, "; ".join("T %d %d %d" % (ti[t], l, c) for t, l, c in r["win"]), b(r["cut"]),
            "; ".join("R %d" % ri[h] for h in r["hist"]), CHECK_IDS.index(r["check"]), r["scope"], r["sname"], b(r["glob"]),
            r["indent"], b(r["ia"]), b(r["va"]), r["oc"], EXN.get(r.get("exc"), "Unmodelled"), "; ".join("C %d %d %d" % (ci[c], l, k) for c, l, k in r["em"]),
            b(r["ia2"]), b(r["va2"]), r.get("ftype", ".c"),
            ("None" if r.get("xf") is None else "(Some %s)" % cs_(r["xf"])), r.get("xp", 0),
            "; ".join("(%s, %d, %d)" % (cs_(a), l, k) for a, l, k in r.get("xv", [])), cs_(r.get("xc", "")), r.get("xi", 0),
            "; ".join("None" if w is None else "(Some %s)" % cs_(w) for w in r.get("xw", []))))
    o.append(";\n".join(lines) + "].\nEval vm_compute in results.\n")
    return "".join(o)


def run_coq(k, text):
    os.makedirs(CASES_DIR, exist_ok=True)
    path = os.path.join(CASES_DIR, "cases_%d.v" % k)
    with open(path, "w") as f:
        f.write(text)
    p = subprocess.run(["timeout", "900", "coqc", "-R", os.path.join(common.COQ, "theories"), "NV", path], cwd=CASES_DIR,
                       capture_output=True, text=True)
    for ext in (".vo", ".glob", ".vok", ".vos"):
        try:
            os.remove(path[:-2] + ext)
        except OSError:
            pass
    try:
        os.remove(os.path.join(CASES_DIR, ".cases_%d.aux" % k))
    except OSError:
        pass
    if p.returncode != 0:
        return ("error", (p.stderr + p.stdout)[-800:])
    m = re.search(r"=\s*(\[.*?\])\s*:\s*list Z", p.stdout, flags=re.S)
    if not m:
        return ("error", "unparsable coqc output: " + p.stdout[-300:])
    txt = m.group(1).replace(";", ",").replace("%Z", "")
    try:
        return ("ok", [int(x) for x in ast.literal_eval(txt)])
    except (ValueError, SyntaxError):
        return ("error", "unparsable result: " + txt[:300])


def correspondence(run, probes, rnd, max_cases, per_file=500):
    """probes: [(src, name, meta, [rec])].  -> (found, stats)"""
    # choose cases, balanced over the checks: per check first the invocations that emitted a diagnostic or crashed, then those
    # that changed a scope flag, then the silent ones (each class shuffled); round robin over the checks
    per = {}
    nloud = nall = 0
    for pi, (src, name, meta, recs) in enumerate(probes):
        for rec in recs:
            if rec.get("skip"):
                continue
            cls = 0 if (rec["em"] or rec["oc"] != 0) else (1 if (rec["ia"] != rec["ia2"] or rec["va"] != rec["va2"]) else 2)
            per.setdefault(rec["check"], [[], [], []])[cls].append((pi, rec))
            nall += 1
            nloud += 1 if cls == 0 else 0
    queues = {}
    for c in sorted(per):
        for l in per[c]:
            rnd.shuffle(l)
        queues[c] = per[c][0] + per[c][1][:max(50, len(per[c][0]) // 4)] + per[c][2]
    chosen = []
    idx = 0
    while len(chosen) < max_cases and any(idx < len(q) for q in queues.values()):
        for c in sorted(queues):
            if idx < len(queues[c]) and len(chosen) < max_cases:
                chosen.append(queues[c][idx])
        idx += 1
    loud = [None] * nloud
    silent = [None] * (nall - nloud)
    types = sorted({t for _, rec in chosen for t, _, _ in rec["win"]})
    rules = sorted({h for _, rec in chosen for h in rec["hist"]})
    codes = sorted({c for _, rec in chosen for c, _, _ in rec["em"]})
    chunks = [chosen[a:a + per_file] for a in range(0, len(chosen), per_file)]
    texts = [coq_cases_text([rec for _, rec in cs], types, rules, codes) for cs in chunks]
    with ThreadPoolExecutor(common.NPROC) as ex:
        outs = list(ex.map(lambda a: run_coq(*a), list(enumerate(texts))))
    found = False
    per_check = {}
    distinct = {}
    ndiff = 0
    for cs, out in zip(chunks, outs):
        if out[0] != "ok":
            found |= run.violation("correspondence-model-run-failed", {"coqc": out[1]})
            continue
        bad = set(out[1])
        for cid, (pi, rec) in enumerate(cs):
            s_ = per_check.setdefault(rec["check"], [0, 0, 0])
            s_[0] += 1
            if rec["em"] or rec["ia"] != rec["ia2"] or rec["va"] != rec["va2"]:
                s_[1] += 1
                distinct.setdefault(rec["check"], set()).add((tuple(t for t, _, _ in rec["win"][:max(rec["scope"], 0)]),
                                                              tuple(c for c, _, _ in rec["em"]), rec["ia2"], rec["va2"]))
            if cid in bad:
                s_[2] += 1
                ndiff += 1
                src, name, meta, _ = probes[pi]
                found |= run.violation("correspondence-rule-model", {
                    "check": rec["check"], "name": name, "src": src, "meta": meta, "record": rec,
                    "what": "the Coq model of %s (Gen/RuleChecks.v) and the implementation disagree on this invocation "
                            "(record: tokens read, context fields, diagnostics added by the implementation)" % rec["check"]})
    for c, (n, nz, d) in sorted(per_check.items()):
        run.count("correspondence %s (invocations replayed in the model)" % c, n, len(distinct.get(c, ())))
    return found, {"recorded_invocations_kept": len(loud) + len(silent), "emitting_or_crashing": len(loud), "replayed": sum(len(c) for c in chunks),
                   "coq_files": len(chunks), "differences": ndiff,
                   "per_check": {c: {"replayed": n, "with_effect": nz, "distinct_with_effect": len(distinct.get(c, ())), "differences": d}
                                 for c, (n, nz, d) in per_check.items()}}


# ------------------------------------------------------------------------------------------------ workers
def _winit():
    common.ensure_impl_path()
    import impl  # noqa
    _install_probe()


def _probe_work(args):
    src, name, meta = args
    return src, name, meta, probe_run(src, name)


# ------------------------------------------------------------------------------------------------ search (worker side)
def _keep_recs(r, line, rnd, nsilent=2):
    """records worth replaying from one run: every invocation with an effect, those on the edited line, a few others"""
    keep = []
    silent = []
    for rec in r["recs"]:
        loud = rec["em"] or rec["oc"] != 0 or rec["ia"] != rec["ia2"] or rec["va"] != rec["va2"]
        near = False
        if line is not None and rec["win"]:
            l0 = rec["win"][0][1]
            l1 = rec["win"][min(len(rec["win"]), max(rec["scope"], 1)) - 1][1]
            near = l0 - 1 <= line <= l1 + 1
        if loud or near:
            keep.append(rec)
        else:
            silent.append(rec)
    if silent:
        keep += rnd.sample(silent, min(nsilent, len(silent)))
    return keep


def _search_work(args):
    """one conforming program: every operator x up to k sites.  -> dict"""
    import edits
    import impl
    pi, name, src, k, seed, only_ops = args
    rnd = random.Random(seed * 100003 + pi)
    out = {"pi": pi, "name": name, "src": src, "base_ok": False, "results": [], "probes": []}
    base = probe_run(src, name)
    if base["kind"] != "ok" or base["status"] != "OK":
        out["base"] = {"kind": base["kind"], "diags": base.get("diags", [])[:5]}
        return out
    out["base_ok"] = True
    kept = _keep_recs(base, None, rnd, nsilent=25)
    out["probes"].append((src, name, {"op": None}, kept))
    P = edits.Prog(src, name)
    for oid, o in edits.OPS.items():
        if only_ops and oid not in only_ops:
            continue
        try:
            ss = edits.sites(oid, P)
        except Exception as e:  # noqa  (a defect of an operator is a defect of the harness: reported, never silent)
            out["results"].append({"op": oid, "error": "%s: %s" % (type(e).__name__, e)})
            continue
        if not ss:
            continue
        # vary the context: one site per distinct ctx first
        rnd.shuffle(ss)
        seen, first, rest = set(), [], []
        for e in ss:
            (rest if e.ctx in seen else first).append(e)
            seen.add(e.ctx)
        chosen = (first + rest)[:k]
        if any(edits.place_of(e) for e in ss):
            # operators that name the PLACE of the edit (the forbidden constructs: statement kind x position inside it): one
            # site of EVERY place in every program, so that a check which stops running after one particular primary is seen
            got = {edits.place_of(e) for e in chosen}
            for e in first + rest:
                if edits.place_of(e) not in got:
                    got.add(edits.place_of(e))
                    chosen.append(e)
        for e in chosen:
            r = probe_run(e.src, name)
            ok = edits.expect_ok(r, o.code, e.line)
            fid = edits.known_miss(oid, e, P)
            item = {"op": oid, "ctx": e.ctx, "ok": ok, "fid": fid, "nsites": len(ss)}
            if oid in ("D04", "F03", "F04", "F05"):
                item["src"] = e.src            # replayed against the scope / counter models as well
            if not ok:
                lines = e.src.split("\n")
                item.update({"src": e.src, "line": e.line, "code": o.code, "kind": r["kind"], "status": r.get("status"),
                             "line_text": lines[e.line - 1] if 0 < e.line <= len(lines) else None,
                             "on_line": sorted({d[0] for d in r.get("diags", []) if d[3] and d[3][0][0] == e.line}),
                             "diags": [(d[0], d[2], d[3][0][:2] if d[3] else None) for d in r.get("diags", [])][:40],
                             "exc": r.get("exc"), "frame": r.get("frame"), "msg": r.get("msg")})
            out["results"].append(item)
            kept = _keep_recs(r, e.line, rnd)
            if kept:
                out["probes"].append((e.src, name, {"op": oid, "line": e.line}, kept))
    return out


def shrink(name, src, code, line):
    """cheap shrinking of a failing edited .c text: drop whole functions that do not contain the expected line while the
    expected diagnostic stays missing and the file still analyses.  -> (src, line)"""
    import edits
    import impl
    if not name.endswith(".c"):
        return src, line
    for _ in range(6):
        lines = src.split("\n")
        # function blocks: header line (not indented, contains '(') followed by '{' ... '}' at column 0
        blocks = []
        i = 0
        while i < len(lines):
            if i + 1 < len(lines) and lines[i + 1] == "{" and "(" in lines[i] and not lines[i].startswith(("\t", " ", "#", "/")):
                j = i + 1
                while j < len(lines) and lines[j] != "}":
                    j += 1
                blocks.append((i, j))
                i = j
            i += 1
        progress = False
        for (a, b) in blocks:
            if a - 1 <= line - 1 <= b + 1 or len(blocks) <= 1:
                continue
            lo, hi = a, b + 1
            if hi < len(lines) and lines[hi] == "":
                hi += 1
            cand = "\n".join(lines[:lo] + lines[hi:])
            nl = line - (hi - lo) if lo < line - 1 else line
            r = impl.analyse(cand, name)
            if r["kind"] == "ok" and not edits.expect_ok(r, code, nl):
                src, line, progress = cand, nl, True
                break
        if not progress:
            break
    return src, line


# ------------------------------------------------------------------------------------------------ the check
def proved_operator_ids():
    p = os.path.join(common.COQ, "theories", "Props", "C02.v")
    try:
        with open(p) as f:
            m = re.search(r"Definition proved_operators : list string :=\s*\[(.*?)\]", f.read(), flags=re.S)
        return re.findall(r'"(\w+)"', m.group(1)) if m else []
    except OSError:
        return []


RULE = ("search: conforming programs of the family G (.c and .h, re-checked to be OK! by the implementation) x every operator of the "
        "catalogue tools/harness/edits.py (DESIGN 4.2) x up to k applicable sites per operator and program chosen to vary the site "
        "context; an evaluation = one edited file analysed by the implementation and tested for: expected code at Error level on "
        "the expected line and status Error; distinct non-trivial = distinct (operator, site context) pairs, the context being "
        "the operator's structural description of the site (line kind, nesting depth, neighbouring token types, ...) without "
        "the function index.  correspondence: invocations of the modelled checks recorded on those same runs, replayed in the "
        "Coq model; distinct non-trivial = distinct (check, token types of the statement, emitted codes) with a diagnostic or a "
        "flag change")


def _ctx_key(ctx):
    out = []
    for n in range(0, len(ctx) - 1, 2):
        if ctx[n] != "f":
            out.append((ctx[n], ctx[n + 1]))
    return tuple(out)


def run(run, tier, seed, replay=None):
    import family
    import edits
    t0 = time.time()
    b = common.build(["C02"], need_driver=False)
    # common.build keeps exactly the translation errors of the Gen files Props/C02.v depends on (RuleChecks, MoreChecks,
    # NameChecks, Counters, ScopeOps, Registry, ...): every one of them breaks this property's tie
    run.build = b
    phases = {"build_s": round(time.time() - t0, 1)}
    found = False
    rnd = random.Random(seed)
    if replay is not None:
        return run_replay(run, b, replay, rnd)
    nprog, k, max_cases = (48, 2, 5000) if tier == "quick" else (700, 5, 40000)
    if not b.ok:
        nprog, k = nprog * 2, k + 1          # a broken tie/proof: look harder for a program on which the property fails
    progs = []
    for i in range(nprog):
        name, src = family.program(rnd, "h" if i % 4 == 3 else "c")
        progs.append((i, name, src, k, seed, None))
    # programs sitting exactly ON a limit (25 body lines in nine shapes incl. chains of nested brace-less structures,
    # 5 functions, 4 parameters incl. void pointers, 5 variables): conforming, one edit away from the limit diagnostics
    import c03
    lim = [c for c in c03.count_cases() if c[4] == c[5]]
    step = 3 if tier == "quick" else 1
    for j, (limit, ctx, name, src, n, L, code) in enumerate(lim[(seed % step)::step]):
        progs.append((len(progs), name, src, 1, seed, {"F03", "F04", "F05", "D04"}))
    # file names with several dots: the rules that depend on the file type must still apply
    for j in range(4 if tier == "quick" else 24):
        kind = "h" if j % 2 else "c"
        name, src = family.program(rnd, kind)
        if kind == "h":
            continue        # the guard symbol of a header follows its name: family.program already varies dotted header names
        progs.append((len(progs), name[:-2] + ".utils.c", src, 1, seed, {"T01", "T02", "T03", "T04"}))
    with mp.Pool(common.NPROC, initializer=_winit, maxtasksperchild=200) as pool:
        outs = list(pool.imap_unordered(_search_work, progs, chunksize=1))
    outs.sort(key=lambda o: o["pi"])
    phases["search_s"] = round(time.time() - t0 - phases["build_s"], 1)
    per_op = {oid: {"code": o.code, "sites_tried": 0, "hits": 0, "misses_known": 0, "misses_unknown": 0, "programs_with_sites": 0,
                    "contexts": set(), "known_predicate_sites": 0, "known_predicate_hits": 0}
              for oid, o in edits.OPS.items()}
    probes = []
    nonconf = 0
    reported = {}
    for o in outs:
        if not o["base_ok"]:
            nonconf += 1
            run.note = None
            continue
        probes += o["probes"]
        seen_ops = set()
        for it in o["results"]:
            if "error" in it:
                found |= run.violation("operator-crashed", {"op": it["op"], "error": it["error"], "name": o["name"], "src": o["src"]})
                continue
            s_ = per_op[it["op"]]
            s_["sites_tried"] += 1
            s_["contexts"].add(_ctx_key(it["ctx"]))
            if it["ctx"][:1] == ("place",) or it["ctx"][:1] == ["place"]:
                pl = s_.setdefault("places", {}).setdefault(it["ctx"][1], [0, 0])
                pl[0] += 1
                pl[1] += 1 if it["ok"] else 0
            if it["op"] not in seen_ops:
                seen_ops.add(it["op"])
                s_["programs_with_sites"] += 1
            if it["fid"]:
                s_["known_predicate_sites"] += 1
                s_["known_predicate_hits"] += 1 if it["ok"] else 0
            if it["ok"]:
                s_["hits"] += 1
                continue
            fid = it["fid"]
            is_known = bool(fid) and run.known(fid)
            s_["misses_known" if is_known else "misses_unknown"] += 1
            key = (it["op"], _ctx_key(it["ctx"]), fid)
            if not is_known and reported.get((it["op"], fid), 0) >= 3:
                continue                          # at most three replays per operator
            src2, line2 = it["src"], it["line"]
            if not is_known:
                reported[(it["op"], fid)] = reported.get((it["op"], fid), 0) + 1
                src2, line2 = shrink(o["name"], it["src"], it["code"], it["line"])
            data = {"name": o["name"], "src": src2, "op": it["op"], "finding_id": fid, "expected_code": it["code"], "expected_line": line2,
                    "site_context": list(it["ctx"]), "edited_line": src2.split("\n")[line2 - 1] if 0 < line2 <= src2.count("\n") + 1 else None,
                    "analysis": it["kind"], "status": it["status"], "codes_on_that_line": it["on_line"], "diagnostics": it["diags"],
                    "exception": [it.get("exc"), it.get("frame"), it.get("msg")], "unshrunk_src": it["src"] if src2 != it["src"] else None,
                    "sentence": edits.OPS[it["op"]].sentence, "conforming_base": o["src"],
                    "what": "operator %s: expected %s on line %d of the edited file; reported there: %s; file status %s" % (
                        it["op"], it["code"], line2, it["on_line"] or "nothing", it["status"])}
            found |= run.violation("expected-diagnostic-missing", data, finding_id=fid)
            del key
    # correspondence on the recorded invocations
    cfound, cstats = correspondence(run, probes, rnd, max_cases)
    found |= cfound
    # the limit operators (D04 F03 F04 F05) rest on the scope / counter models: replay them on the limit programs and a sample
    if b.make_ok:
        import scopecorr
        sprogs = [(name, src) for (_, _, name, src, _, _, _) in lim[(seed % step)::step]]
        sprogs += [(o["name"], o["src"]) for o in outs if o["base_ok"]][:(24 if tier == "quick" else 300)]
        sprogs += scopecorr.variants(sprogs[::4], rnd)
        # ... and on the EDITED files of those four operators (one past the limit: the models must emit there as well)
        lim_edits = [(o["name"], it["src"]) for o in outs if o["base_ok"] for it in o["results"]
                     if it.get("op") in ("D04", "F03", "F04", "F05") and "src" in it]
        sprogs += lim_edits[::max(1, len(lim_edits) // (24 if tier == "quick" else 300))]
        sfound, sstats = scopecorr.check(run, b, sprogs)
        found |= sfound
        cstats["scope_and_counter_models"] = sstats
    phases["correspondence_s"] = round(time.time() - t0 - phases["build_s"] - phases["search_s"], 1)
    proved = proved_operator_ids() if (b.make_ok and not b.open_assumptions) else []
    table = {}
    for oid, s_ in per_op.items():
        nctx = len(s_["contexts"])
        if s_["misses_unknown"]:
            status = "VIOLATED"
        elif s_["misses_known"]:
            status = "known-finding" + ("+proved(model, see claim)" if oid in proved else "")
        elif oid in proved:
            status = "proved"
        else:
            status = "tested_only"
        if s_["sites_tried"] == 0:
            status += " (no applicable site drawn in this run)"
        table[oid] = {"status": status, "expected_code": s_["code"], "sites_tried": s_["sites_tried"], "hits": s_["hits"],
                      "misses_known_finding": s_["misses_known"], "misses_unlisted": s_["misses_unknown"],
                      "programs_with_sites": s_["programs_with_sites"], "distinct_contexts": nctx,
                      "sites_matching_a_known_predicate": s_["known_predicate_sites"],
                      "of_which_reported_anyway": s_["known_predicate_hits"]}
        if s_.get("places"):
            table[oid]["places_tried_reported"] = {pl: "%d/%d" % (v[1], v[0]) for pl, v in sorted(s_["places"].items())}
        run.count("search %s (%s)" % (oid, s_["code"]), s_["sites_tried"], nctx)
    for o in outs:
        if o["base_ok"] and o["results"]:
            it = next((x for x in o["results"] if "ctx" in x), None)
            if it:
                run.sample({"program": o["name"], "operator": it["op"], "site_context": list(it["ctx"]), "reported": it["ok"]}, cap=4)
    for oid in ("S05", "W01", "O01"):
        for o in outs:
            it = next((x for x in o["results"] if x.get("op") == oid), None) if o["base_ok"] else None
            if it:
                run.sample({"program": o["name"], "operator": oid, "site_context": list(it["ctx"]), "reported": it["ok"]}, cap=7)
                break
    common.broken_obligations(run, b, found)
    disc = sum(1 for t in b.theorems if t not in b.open_assumptions) if b.make_ok else 0
    extra = {"operators": table, "operators_implemented": len(edits.OPS), "operators_not_implemented": edits.NOT_IMPLEMENTED,
             "operators_proved": proved, "programs": nprog, "programs_not_conforming_skipped": nonconf,
             "sites_per_operator_and_program": k, "correspondence": cstats, "phases": phases,
             "modelled_checks": sorted(MODELLED), "unmodelled": "all other checks and all primaries: tested through the search only"}
    return run.finish(max(len(b.theorems), 29), disc, RULE, extra=extra, assumptions=[
        "C02 is claimed PARTIAL: theorems are about the generated models of 12 checks (token-local, unbounded) and the scope / counter models of the four limits; the other operators are tested",
        "the primaries are an oracle in the engine model; `_given_history` / `_given_trace` hypotheses are validated on recorded runs only",
        "the exit-status part of the property is C04's theorem; here the file status (Error) is tested"])


def run_replay(run, b, replay, rnd):
    import edits
    import impl
    d = replay["data"]
    kind = replay["kind"]
    found = False
    if kind == "expected-diagnostic-missing":
        r = impl.analyse(d["src"], d["name"])
        ok = edits.expect_ok(r, d["expected_code"], d["expected_line"])
        run.count("replay", 1, 1)
        print("replay: operator %s expects %s on line %d: %s (codes on that line: %s, status %s)" % (
            d["op"], d["expected_code"], d["expected_line"], "reported" if ok else "MISSING",
            sorted({x[0] for x in r.get("diags", []) if x[3] and x[3][0][0] == d["expected_line"]}), r.get("status")))
        if not ok:
            dd = dict(d)
            found |= run.violation("expected-diagnostic-missing", dd, finding_id=d.get("finding_id"))
    elif kind == "correspondence-rule-model":
        _winit()
        r = probe_run(d["src"], d["name"])
        recs = [x for x in r["recs"] if x["check"] == d["check"]]
        cf, st = correspondence(run, [(d["src"], d["name"], d.get("meta", {}), recs)], rnd, 100000)
        print("replay: %d invocations of %s replayed in the model, %d differences" % (st["replayed"], d["check"], st["differences"]))
        found |= cf
    else:
        print("replay: kind %s re-checks the build" % kind)
    common.broken_obligations(run, b, found)
    disc = sum(1 for t in b.theorems if t not in b.open_assumptions) if b.make_ok else 0
    run.sample({"replayed": kind})
    return run.finish(max(len(b.theorems), 29), disc, RULE)
