"""C04 - exit status and per-file verdict agree with the diagnostics."""
import itertools
import json
import os
import random
import shutil
import tempfile

import common
import impl
from common import Enc

CLASSES = ["clean", "notice", "erroneous", "fatal"]
SRC = {
    "clean": impl.HDR + "\nint\tmain(void)\n{\n\treturn (0);\n}\n",
    "notice": impl.HDR + "\nint\tg_counter;\n",
    "erroneous": impl.HDR + "\nint\tmain(void)\n{\n\treturn 0;\n}\n",
    "fatal": impl.HDR + "\nint\tmain(void\n{\n\treturn (0);\n}\n",
}
# second member of each class, so that repeated classes are not always the same content
SRC2 = {
    "clean": impl.HDR + "\nvoid\tft_nop(void)\n{\n}\n",
    "notice": impl.HDR + "\nchar\t*g_name;\n\nint\tmain(void)\n{\n\treturn (0);\n}\n",
    "erroneous": impl.HDR + "\nint\tmain(void)\n{\n\tint a;\n\n\ta = 0 ;\n\treturn (a);\n}\n",
    "fatal": impl.HDR + "\nint\tmain(void)\n{\n\treturn (0));\n}\n",
}


def enc_fins(e, fins):
    def one(f):
        e.str(f["path"]).str(f["base"])
        if f["res"]["kind"] == "ok":
            e.z(0).list(f["res"]["diags"], e.diag)
        elif f["res"]["kind"] == "fatal":
            e.z(1).str(f["res"]["msg"])
        else:
            e.z(2)
    e.list(fins, one)


def model_run_all(drv, json_fmt, colors, fins):
    e = Enc().b(json_fmt).b(colors)
    enc_fins(e, fins)
    d = drv.call("run_all", e)

    def rep():
        k = d.z()
        if k == 0:
            r = ("human", d.str())
        elif k == 1:
            r = ("json", d.list(lambda: (d.str(), d.str(), d.list(d.diag))))
        else:
            r = ("fatal", d.str())
        return r, d.z()
    return d.outcome(rep)


def check_sequence(run, drv, seq, paths, fins, argv_extra, mode, cwd):
    """Run main() on the sequence, compare with the model, evaluate the property on the real output."""
    json_fmt = "-f" in argv_extra and "json" in argv_extra
    colors = "--no-colors" not in argv_extra
    if mode == "subprocess":
        code, out, err, exc = impl.run_main_subprocess(argv_extra + paths, cwd=cwd)
    else:
        code, out, err, exc = impl.run_main(argv_extra + paths, cwd=cwd)
    data = {"classes": seq, "argv": argv_extra + paths, "mode": mode, "exit": code, "stdout": out[-3000:], "stderr": err[-1500:],
            "sources": {os.path.basename(f["path"]): f["src"] for f in fins}}
    found = False
    # ---- the property, evaluated on the implementation's own output
    if exc is not None:
        found |= run.violation("internal-error", dict(data, exc=exc), finding_id=None)
        return found
    fatal_idx = next((i for i, f in enumerate(fins) if f["res"]["kind"] == "fatal"), None)
    if fatal_idx is None:
        expect = [(f["base"], "Error" if any(d[2] == "Error" for d in f["res"]["diags"]) else "OK") for f in fins]
        want_exit = 1 if any(v == "Error" for _, v in expect) else 0
        if json_fmt:
            try:
                js = json.loads(out) if out else {"files": []}
                got = [(os.path.basename(x["path"]), x["status"]) for x in js["files"]]
            except (ValueError, KeyError, TypeError):
                got = None
        else:
            try:
                got = [(b, v) for b, v, _ in impl.parse_human(impl.strip_colors(out))]
            except ValueError:
                got = None
        if got != expect:
            found |= run.violation("verdict-lines", dict(data, expected=expect, got=got))
        if (code == 0) != (want_exit == 0):
            found |= run.violation("exit-status", dict(data, expected_exit=want_exit))
    else:
        f = fins[fatal_idx]
        if code in (0, None):
            found |= run.violation("fatal-exit-zero", data)
        if (f["path"] + ": Error!") not in out:
            found |= run.violation("fatal-not-named", data)
        if fatal_idx > 0:
            # files analysed before the fatal one get no verdict line (main exits inside the loop)
            missing = [g["base"] for g in fins[:fatal_idx] if (g["base"] + ": ") not in out.replace(f["path"] + ": Error!", "")]
            if missing:
                found |= run.violation("verdicts-before-fatal", dict(data, missing=missing),
                                       finding_id="C04-verdicts-before-fatal")
    # ---- correspondence with the model (run_all on the real per-file outcomes)
    if drv is not None:
        oc = model_run_all(drv, json_fmt, colors, fins)
        ok = True
        if oc[0] != "Ok":
            ok = False
        else:
            (kind, payload), mexit = oc[1]
            if mexit != code:
                ok = False
            elif kind in ("human", "fatal"):
                ok = (payload == out)
            else:
                try:
                    js = json.loads(out)
                    real = [(x["path"], x["status"], [(e["name"], e["text"], e["level"],
                                                       [(h["lineno"], h["column"], h["length"], h["hint"]) for h in e["highlights"]])
                                                      for e in x["errors"]]) for x in js["files"]]
                    mod = [(os.path.abspath(os.path.join(cwd or ".", p)), st, ds) for p, st, ds in payload]
                    ok = (real == mod)
                except (ValueError, KeyError, TypeError):
                    ok = False
        if not ok:
            found |= run.violation("correspondence-run_all", dict(data, model=repr(oc)[:3000]))
    return found


def run(run, tier, seed, replay=None):
    rnd = random.Random(seed)
    b = common.build(["C04"])
    run.build = b
    drv = None
    if b.driver_ok and os.path.exists(os.path.join(common.BUILD, "nvdriver")):
        drv = common.Driver()
    tmp = tempfile.mkdtemp(prefix="nvc04_")
    found = False
    try:
        if replay:
            seqs = [(replay["data"]["classes"], [a for a in replay["data"]["argv"] if a.startswith("-") or a in ("json", "humanized")], replay["data"].get("mode", "inproc"))]
        else:
            seqs = []
            base = [list(t) for n in range(0, 5) for t in itertools.product(CLASSES, repeat=n)]
            for sq in base:
                seqs.append((sq, ["--no-colors"], "inproc"))
            for sq in base:
                r = rnd.random()
                if r < 0.35:
                    seqs.append((sq, ["-f", "json"], "inproc"))
                elif r < 0.55:
                    seqs.append((sq, [], "inproc"))
                if rnd.random() < (0.10 if tier == "quick" else 0.5):
                    seqs.append((sq, rnd.choice([[], ["--no-colors"], ["-f", "json"]]), "subprocess"))
            nlong = 40 if tier == "quick" else 600
            for _ in range(nlong):
                n = rnd.randint(5, 12)
                w = rnd.choice([[4, 2, 3, 0], [3, 3, 3, 1], [1, 1, 1, 0], [5, 0, 0, 0], [0, 5, 1, 0]])
                sq = rnd.choices(CLASSES, weights=w, k=n)
                seqs.append((sq, rnd.choice([["--no-colors"], ["-f", "json"], []]), "inproc"))
        cache = {}
        for k, (sq, extra, mode) in enumerate(seqs):
            d = os.path.join(tmp, "r%d" % k)
            os.makedirs(d)
            fins = []
            for i, c in enumerate(sq):
                src = (SRC if (i % 2 == 0) else SRC2)[c]
                if c == "fatal" and (k + i) % 3 == 2:
                    # third kind of fatally unparsable file: unrecognised text as the very last thing, no final newline
                    src = SRC["clean"] + ")"
                name = "f%d_%s.%s" % (i, c, "c")
                with open(os.path.join(d, name), "w") as f:
                    f.write(src)
                key = src
                if key not in cache:
                    cache[key] = impl.analyse(src, name)
                res = cache[key]
                fins.append({"path": name, "base": name, "res": res, "src": src})
            if any(f["res"]["kind"] not in ("ok", "fatal") for f in fins):
                found |= run.violation("class-file-crashed", {"classes": sq, "res": [f["res"] for f in fins]})
                continue
            nontrivial = 1 if len(set(sq)) > 1 or len(sq) == 0 else 0
            # explicit paths
            found |= check_sequence(run, drv, sq, [f["path"] for f in fins], fins, extra, mode, d)
            run.count("explicit-paths/" + mode, 1, nontrivial)
            # through the directory (no argument: the current directory tree), order = what glob returns
            if mode == "inproc" and (k % 3 == 0 or tier == "thorough"):
                import glob
                old = os.getcwd()
                os.chdir(d)
                order = glob.glob("**/*.[ch]", recursive=True)
                os.chdir(old)
                byname = {f["path"]: f for f in fins}
                fins2 = [byname[p] for p in order]
                found |= check_sequence(run, drv, [p.split("_")[1][:-2] for p in order], [], fins2, extra, mode, d)
                run.count("directory", 1, nontrivial)
            if k < 400 and k % 97 == 5:
                run.sample({"classes": sq, "argv": extra, "mode": mode})
            shutil.rmtree(d, ignore_errors=True)
        # a broken proof / tie / correspondence and no failing input yet: look where exit arithmetic can still go wrong
        # (statuses are taken modulo 256 by the OS: many erroneous files in one run)
        if replay is None and not found and (not b.ok or run.deferred):
            for nbad in (255, 256, 257, 512):
                d = os.path.join(tmp, "many%d" % nbad)
                os.makedirs(d)
                fins = []
                for i in range(nbad):
                    name = "e%d.c" % i
                    with open(os.path.join(d, name), "w") as f:
                        f.write(SRC["erroneous"])
                    fins.append({"path": name, "base": name, "res": cache[SRC["erroneous"]], "src": ""})
                found |= check_sequence(run, None, ["erroneous"] * nbad, [f["path"] for f in fins], fins, ["--no-colors"], "subprocess", d)
                run.count("deep search: many erroneous files", 1, 1)
                shutil.rmtree(d, ignore_errors=True)
    finally:
        shutil.rmtree(tmp, ignore_errors=True)
        if drv:
            drv.close()
    common.broken_obligations(run, b, found)
    n_thm = len(b.theorems)
    disc = sum(1 for t in b.theorems if t not in b.open_assumptions) if b.make_ok else 0
    return run.finish(max(n_thm, 9), disc,
                      "all sequences of length 0..4 over {clean,notice,erroneous,fatal} (341, exhaustive) as explicit paths, "
                      "a third of them also through the directory, sampled in JSON/colour/subprocess mode, plus sampled sequences "
                      "of length 5..12; non-trivial = the sequence mixes at least two classes or is empty",
                      extra={"exhaustive": replay is None, "exhaustive_scope": "sequences of length 0..4 over the four classes (341)"},
                      assumptions=["per-file outcomes given to the model are the real outcomes of analysing each file alone"])
