"""C04 - exit status and per-file verdict agree with the diagnostics."""
import itertools
import json
import os
import random
import shutil
import tempfile

import common
import impl
from common import Enc

CLASSES = ["clean", "notice", "erroneous", "fatal"]
SRC = {
    "clean": impl.HDR + "\nint\tmain(void)\n{\n\treturn (0);\n}\n",
    "notice": impl.HDR + "\nint\tg_counter;\n",
    "erroneous": impl.HDR + "\nint\tmain(void)\n{\n\treturn 0;\n}\n",
    "fatal": impl.HDR + "\nint\tmain(void\n{\n\treturn (0);\n}\n",
}
# second member of each class, so that repeated classes are not always the same content
SRC2 = {
    "clean": impl.HDR + "\nvoid\tft_nop(void)\n{\n}\n",
    "notice": impl.HDR + "\nchar\t*g_name;\n\nint\tmain(void)\n{\n\treturn (0);\n}\n",
    "erroneous": impl.HDR + "\nint\tmain(void)\n{\n\tint a;\n\n\ta = 0 ;\n\treturn (a);\n}\n",
    "fatal": impl.HDR + "\nint\tmain(void)\n{\n\treturn (0);\n}\n)\n",
}


def class_of(res):
    if res["kind"] == "fatal":
        return "fatal"
    if res["kind"] != "ok":
        return res["kind"]
    lv = [d[2] for d in res["diags"]]
    return "erroneous" if "Error" in lv else ("notice" if lv else "clean")


def alone(name, src, tmp):
    """Verdict and diagnostics of one file analysed in a process of its own (nothing another file did can be seen)."""
    d = tempfile.mkdtemp(prefix="alone_", dir=tmp)
    with open(os.path.join(d, name), "w") as f:
        f.write(src)
    code, out, err, exc = impl.run_main_subprocess(["-f", "json", name], cwd=d)
    shutil.rmtree(d, ignore_errors=True)
    if exc is not None or code not in (0, 1):
        return None
    try:
        x = json.loads(out)["files"][0]
        return (x["status"], [(e["name"], e["level"], [(h["lineno"], h["column"]) for h in e["highlights"]]) for e in x["errors"]])
    except (ValueError, KeyError, IndexError, TypeError):
        return None     # a fatal file (plain text, not JSON)


def order_corpus(rnd, tier):
    """(name, source): the repository's own test files plus a few with comments and guards in the places where the checks
    skip across white space, comments and line ends (state kept between files shows there first)."""
    import glob
    out = []
    for p in sorted(glob.glob(os.path.join(common.REPO, "tests", "**", "*.[ch]"), recursive=True)):
        try:
            with open(p) as f:
                src = f.read()
        except (OSError, UnicodeDecodeError):
            continue
        if len(src) < 6000:
            out.append((os.path.basename(p), src))
    rnd.shuffle(out)
    out = out[:40 if tier == "quick" else 400]
    out.append(("guarded.h", impl.HDR + "\n#ifndef GUARDED_H\n# define GUARDED_H\n\nint\tf(void);\n\n#endif /* a */ /* b */\n"))
    out.append(("guarded2.h", impl.HDR + "\n#ifndef GUARDED2_H\n# define GUARDED2_H\n\nint\tf(void);\n\n#endif\n"))
    out.append(("cmt.c", impl.HDR + "\nint\tmain(void)\t/* a */ /* b */\n{\n\treturn (0);\n}\n"))
    out.append(("cmt2.c", impl.HDR + "\nint /* a */\tmain(void)\n{\n\tint\ta; // x\n\n\ta = 0; /* b */\n\treturn (a);\n}\n"))
    out.append(("cmt3.c", impl.HDR + "\nstruct s_a /* a */\n{\n\tint\ta; /* b */\n}; /* c */\n\ntypedef int\tt_i; // d\n"))
    more = []
    for name, src in out[:20]:
        lines = src.split("\n")
        for _ in range(3):
            i = rnd.randrange(len(lines))
            lines[i] += rnd.choice(["\t/* a */ /* b */", " // c", " /* d */", "\t\\"])
        more.append(("p_" + name, "\n".join(lines)))
    uniq = {}
    for k, (name, src) in enumerate(out + more):
        uniq["%03d_%s" % (k, name)] = src
    return sorted(uniq.items())


def check_orders(run, rnd, tier, tmp, files=None, orders=None):
    """Every file's verdict and diagnostics in a run of many files, in several orders, against the same file analysed in a
    process of its own."""
    from concurrent.futures import ThreadPoolExecutor
    found = False
    files = files if files is not None else order_corpus(rnd, tier)
    with ThreadPoolExecutor(12) as ex:
        ref = dict(zip([n for n, _ in files], ex.map(lambda ns: alone(ns[0], ns[1], tmp), files)))
    usable = [(n, s) for n, s in files if ref[n] is not None]
    src_of = dict(usable)
    if orders is None:
        orders = []
        names = [n for n, _ in usable]
        for _ in range(4 if tier == "quick" else 40):
            o = names[:]
            rnd.shuffle(o)
            orders.append(o)
            orders.append(o[::-1])
        heads = [n for n in names if n.endswith(".h")]
        orders.append(heads + [n for n in names if not n.endswith(".h")])
        orders.append([n for n in names if not n.endswith(".h")] + heads)
    ncmp = 0
    for o in orders:
        o = [n for n in o if n in src_of]
        d = tempfile.mkdtemp(prefix="order_", dir=tmp)
        for n in o:
            with open(os.path.join(d, n), "w") as f:
                f.write(src_of[n])
        code, out, err, exc = impl.run_main_subprocess(["-f", "json"] + o, cwd=d, limit=120.0)
        shutil.rmtree(d, ignore_errors=True)
        try:
            js = json.loads(out)["files"]
            got = [(os.path.basename(x["path"]), (x["status"], [(e["name"], e["level"], [(h["lineno"], h["column"]) for h in e["highlights"]])
                                                               for e in x["errors"]])) for x in js]
        except (ValueError, KeyError, TypeError):
            got = None
        data = {"order": o, "exit": code, "stderr": err[-800:]}
        if got is None or [n for n, _ in got] != o:
            found |= run.violation("order-run-broken", dict(data, stdout=out[-1500:], sources={n: src_of[n] for n in o[:6]}))
            continue
        diff = [(n, ref[n], g) for n, g in got if g != ref[n]]
        ncmp += len(got)
        want = 1 if any(ref[n][0] != "OK" for n in o) else 0
        if diff:
            n0 = diff[0][0]
            k0 = o.index(n0)
            found |= run.violation("order-dependence", dict(data, file=n0, alone=diff[0][1], in_run=diff[0][2], position=k0,
                                                            sources={n: src_of[n] for n in o[:k0 + 1]}))
        elif (code == 0) != (want == 0):
            found |= run.violation("exit-status", dict(data, expected_exit=want))
    run.count("files in many-file runs in shuffled orders vs the same file in a process of its own", ncmp, ncmp)
    return found


def enc_fins(e, fins):
    def one(f):
        e.str(f["path"]).str(f["base"])
        if f["res"]["kind"] == "ok":
            e.z(0).list(f["res"]["diags"], e.diag)
        elif f["res"]["kind"] == "fatal":
            e.z(1).str(f["res"]["msg"])
        else:
            e.z(2)
    e.list(fins, one)


def model_run_all(drv, json_fmt, colors, fins):
    e = Enc().b(json_fmt).b(colors)
    enc_fins(e, fins)
    d = drv.call("run_all", e)

    def rep():
        k = d.z()
        if k == 0:
            r = ("human", d.str())
        elif k == 1:
            r = ("json", d.list(lambda: (d.str(), d.str(), d.list(d.diag))))
        else:
            r = ("fatal", d.str())
        return r, d.z()
    return d.outcome(rep)


def check_sequence(run, drv, seq, paths, fins, argv_extra, mode, cwd):
    """Run main() on the sequence, compare with the model, evaluate the property on the real output."""
    json_fmt = "-f" in argv_extra and "json" in argv_extra
    colors = "--no-colors" not in argv_extra
    if mode == "subprocess":
        code, out, err, exc = impl.run_main_subprocess(argv_extra + paths, cwd=cwd)
    else:
        code, out, err, exc = impl.run_main(argv_extra + paths, cwd=cwd)
    data = {"classes": seq, "argv": argv_extra + paths, "mode": mode, "exit": code, "stdout": out[-3000:], "stderr": err[-1500:],
            "sources": {os.path.basename(f["path"]): f["src"] for f in fins}}
    found = False
    # ---- the property, evaluated on the implementation's own output
    if exc is not None:
        found |= run.violation("internal-error", dict(data, exc=exc), finding_id=None)
        return found
    fatal_idx = next((i for i, f in enumerate(fins) if f["res"]["kind"] == "fatal"), None)
    if fatal_idx is None:
        expect = [(f["base"], "Error" if any(d[2] == "Error" for d in f["res"]["diags"]) else "OK") for f in fins]
        want_exit = 1 if any(v == "Error" for _, v in expect) else 0
        if json_fmt:
            try:
                js = json.loads(out) if out else {"files": []}
                got = [(os.path.basename(x["path"]), x["status"]) for x in js["files"]]
            except (ValueError, KeyError, TypeError):
                got = None
        else:
            try:
                got = [(b, v) for b, v, _ in impl.parse_human(impl.strip_colors(out))]
            except ValueError:
                got = None
        if got != expect:
            found |= run.violation("verdict-lines", dict(data, expected=expect, got=got))
        if (code == 0) != (want_exit == 0):
            found |= run.violation("exit-status", dict(data, expected_exit=want_exit))
    else:
        f = fins[fatal_idx]
        if code in (0, None):
            found |= run.violation("fatal-exit-zero", data)
        if (f["path"] + ": Error!") not in out:
            found |= run.violation("fatal-not-named", data)
        if fatal_idx > 0:
            # files analysed before the fatal one get no verdict line (main exits inside the loop)
            missing = [g["base"] for g in fins[:fatal_idx] if (g["base"] + ": ") not in out.replace(f["path"] + ": Error!", "")]
            if missing:
                found |= run.violation("verdicts-before-fatal", dict(data, missing=missing),
                                       finding_id="C04-verdicts-before-fatal")
    # ---- correspondence with the model (run_all on the real per-file outcomes)
    if drv is not None:
        oc = model_run_all(drv, json_fmt, colors, fins)
        ok = True
        if oc[0] != "Ok":
            ok = False
        else:
            (kind, payload), mexit = oc[1]
            if mexit != code:
                ok = False
            elif kind in ("human", "fatal"):
                ok = (payload == out)
            else:
                try:
                    js = json.loads(out)
                    real = [(x["path"], x["status"], [(e["name"], e["text"], e["level"],
                                                       [(h["lineno"], h["column"], h["length"], h["hint"]) for h in e["highlights"]])
                                                      for e in x["errors"]]) for x in js["files"]]
                    mod = [(os.path.abspath(os.path.join(cwd or ".", p)), st, ds) for p, st, ds in payload]
                    ok = (real == mod)
                except (ValueError, KeyError, TypeError):
                    ok = False
        if not ok:
            found |= run.violation("correspondence-run_all", dict(data, model=repr(oc)[:3000]))
    return found


def run(run, tier, seed, replay=None):
    rnd = random.Random(seed)
    b = common.build(["C04"])
    run.build = b
    drv = None
    if b.driver_ok and os.path.exists(os.path.join(common.BUILD, "nvdriver")):
        drv = common.Driver()
    tmp = tempfile.mkdtemp(prefix="nvc04_")
    found = False
    try:
        if replay and "order" in replay["data"]:
            srcs = replay["data"]["sources"]
            found |= check_orders(run, rnd, tier, tmp, files=sorted(srcs.items()), orders=[[n for n in replay["data"]["order"] if n in srcs]])
            seqs = []
        elif replay:
            seqs = [(replay["data"]["classes"], [a for a in replay["data"]["argv"] if a.startswith("-") or a in ("json", "humanized")], replay["data"].get("mode", "inproc"))]
        else:
            seqs = []
            base = [list(t) for n in range(0, 5) for t in itertools.product(CLASSES, repeat=n)]
            for sq in base:
                seqs.append((sq, ["--no-colors"], "inproc"))
            for sq in base:
                r = rnd.random()
                if r < 0.35:
                    seqs.append((sq, ["-f", "json"], "inproc"))
                elif r < 0.55:
                    seqs.append((sq, [], "inproc"))
                if rnd.random() < (0.10 if tier == "quick" else 0.5):
                    seqs.append((sq, rnd.choice([[], ["--no-colors"], ["-f", "json"]]), "subprocess"))
            nlong = 40 if tier == "quick" else 600
            for _ in range(nlong):
                n = rnd.randint(5, 12)
                w = rnd.choice([[4, 2, 3, 0], [3, 3, 3, 1], [1, 1, 1, 0], [5, 0, 0, 0], [0, 5, 1, 0]])
                sq = rnd.choices(CLASSES, weights=w, k=n)
                seqs.append((sq, rnd.choice([["--no-colors"], ["-f", "json"], []]), "inproc"))
        cache = {}
        for k, (sq, extra, mode) in enumerate(seqs):
            d = os.path.join(tmp, "r%d" % k)
            os.makedirs(d)
            fins = []
            for i, c in enumerate(sq):
                src = (SRC if (i % 2 == 0) else SRC2)[c]
                if c == "fatal" and (k + i) % 3 == 2:
                    # third kind of fatally unparsable file: unrecognised text as the very last thing, no final newline
                    src = SRC["clean"] + ")"
                name = "f%d_%s.%s" % (i, c, "c")
                with open(os.path.join(d, name), "w") as f:
                    f.write(src)
                key = src
                if key not in cache:
                    cache[key] = impl.analyse(src, name)
                res = cache[key]
                fins.append({"path": name, "base": name, "res": res, "src": src})
            if any(f["res"]["kind"] not in ("ok", "fatal") for f in fins):
                found |= run.violation("class-file-crashed", {"classes": sq, "res": [f["res"] for f in fins]})
                continue
            # the four classes of the quantifier are what they are called: a fatally unparsable file that is silently given
            # a verdict (or a clean one that is not) makes every expectation below circular
            wrong = [(f["base"], c, class_of(f["res"])) for f, c in zip(fins, sq) if class_of(f["res"]) != c]
            if wrong:
                found |= run.violation("class-membership", {"classes": sq, "wrong": wrong,
                                                            "sources": {f["base"]: f["src"] for f in fins}})
                continue
            nontrivial = 1 if len(set(sq)) > 1 or len(sq) == 0 else 0
            # explicit paths
            found |= check_sequence(run, drv, sq, [f["path"] for f in fins], fins, extra, mode, d)
            run.count("explicit-paths/" + mode, 1, nontrivial)
            # through the directory (no argument: the current directory tree), order = what glob returns
            if mode == "inproc" and (k % 3 == 0 or tier == "thorough"):
                import glob
                old = os.getcwd()
                os.chdir(d)
                order = glob.glob("**/*.[ch]", recursive=True)
                os.chdir(old)
                byname = {f["path"]: f for f in fins}
                fins2 = [byname[p] for p in order]
                found |= check_sequence(run, drv, [p.split("_")[1][:-2] for p in order], [], fins2, extra, mode, d)
                run.count("directory", 1, nontrivial)
            if k < 400 and k % 97 == 5:
                run.sample({"classes": sq, "argv": extra, "mode": mode})
            shutil.rmtree(d, ignore_errors=True)
        if replay is None:
            found |= check_orders(run, rnd, tier, tmp)
        # a broken proof / tie / correspondence and no failing input yet: look where exit arithmetic can still go wrong
        # (statuses are taken modulo 256 by the OS: many erroneous files in one run)
        if replay is None and not found and (not b.ok or run.deferred):
            for nbad in (255, 256, 257, 512):
                d = os.path.join(tmp, "many%d" % nbad)
                os.makedirs(d)
                fins = []
                for i in range(nbad):
                    name = "e%d.c" % i
                    with open(os.path.join(d, name), "w") as f:
                        f.write(SRC["erroneous"])
                    fins.append({"path": name, "base": name, "res": cache[SRC["erroneous"]], "src": ""})
                found |= check_sequence(run, None, ["erroneous"] * nbad, [f["path"] for f in fins], fins, ["--no-colors"], "subprocess", d)
                run.count("deep search: many erroneous files", 1, 1)
                shutil.rmtree(d, ignore_errors=True)
    finally:
        shutil.rmtree(tmp, ignore_errors=True)
        if drv:
            drv.close()
    common.broken_obligations(run, b, found)
    n_thm = len(b.theorems)
    disc = sum(1 for t in b.theorems if t not in b.open_assumptions) if b.make_ok else 0
    return run.finish(max(n_thm, 9), disc,
                      "all sequences of length 0..4 over {clean,notice,erroneous,fatal} (341, exhaustive) as explicit paths, "
                      "a third of them also through the directory, sampled in JSON/colour/subprocess mode, plus sampled sequences "
                      "of length 5..12; non-trivial = the sequence mixes at least two classes or is empty",
                      extra={"exhaustive": replay is None, "exhaustive_scope": "sequences of length 0..4 over the four classes (341)"},
                      assumptions=["per-file outcomes given to the model are the real outcomes of analysing each file alone"])
