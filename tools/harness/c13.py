"""C13 - the 42 header is recognised exactly.

build      : Gen/HeaderRe.v (the expression of check_header.py parsed by re._parser) and Gen/HeaderSM.v (CheckHeader.run,
             parse_header, check_header translated statement by statement) are regenerated, Props/C13.vo is rebuilt.
corr (i)   : Model.HeaderRe.searchb header_re  vs  the source's own check_header (its own re.compile(...).search) on
             template instances, every mutation, random near-misses.
corr (ii)  : the generated state machine run inside Coq on the events RECORDED from the implementation (CheckHeader.run
             wrapped from outside: rule name, first token) vs the recorded flags / text length / INVALID_HEADER count
             after every call; and the events predicted for the header lines vs the recorded ones.
corr (iii) : the Python template used here vs Model.Header.template (same fields, same text).
search     : the property on the implementation: well-formed header => 0 INVALID_HEADER, each mutation => exactly 1.
"""
import json
import os
import random
import re
import subprocess
from concurrent.futures import ThreadPoolExecutor

import common
import family
import impl

CASES = os.path.join(common.BUILD, "cases_C13")
HDR = impl.HDR
ARTS = ["", "", "        :::      ::::::::", "      :+:      :+:    :+:", "    +:+ +:+         +:+  ",
        "  +#+  +:+       +#+     ", "+#+#+#+#+#+   +#+        ", "     #+#    #+#          ",
        "    ###   ########.fr    ", "", ""]
FIELD_NAMES = ["file", "user", "mail", "cdate", "ctime", "cuser", "udate", "utime", "uuser"]
KEYWORDS = {5: "By: ", 7: "Created: ", 8: "Updated: "}


# ------------------------------------------------------------------------------------------ template (Python side)
def textline(left, right):
    left = left[:70 - len(right)]
    return "/*   " + left + " " * (70 - len(left) - len(right)) + right + "   */"


def frame(n=74):
    return "/* " + "*" * n + " */"


def lefts(f):
    return {3: f["file"], 5: "By: %s <%s>" % (f["user"], f["mail"]),
            7: "Created: %s %s by %s" % (f["cdate"], f["ctime"], f["cuser"]),
            8: "Updated: %s %s by %s" % (f["udate"], f["utime"], f["uuser"])}


def template(f):
    lf = lefts(f)
    return [frame() if k in (0, 10) else textline(lf.get(k, ""), ARTS[k]) for k in range(11)]


def fold(x):
    """what the lexer stores as the text of a block comment that starts in column 1 (Lexer.peek / pop(use_spaces=True)):
    trigraphs and digraphs replaced, a tab replaced by the blanks up to the next tab stop"""
    from norminette.lexer.dictionary import trigraphs, digraphs
    out, i, col = "", 0, 1
    while i < len(x):
        if x[i:i + 3] in trigraphs:
            ch, size = trigraphs[x[i:i + 3]], 3
        elif x[i:i + 2] in digraphs:
            ch, size = digraphs[x[i:i + 2]], 2
        else:
            ch, size = x[i], 1
        if ch == "\t":
            n = 4 - (col - 1) % 4
            ch = " " * n
            col += n - 1
        col += size
        i += size
        out += ch
    return out


ALPHA = "abcdefghijklmnopqrstuvwxyzABCDEFGHIJKLMNOPQRSTUVWXYZ"
PUNCT = "._-@+#:"
EXTRA = "/<>%?=!~$&()[]{}|^,;'\"\\"
NONASCII = "éüß中文Ж\U0001F600 "


def word(rnd, n, pool):
    return "".join(rnd.choice(pool) for _ in range(n))


def rand_fields(rnd, i):
    """fields_ok values: no newline, no `*`; date/time without blanks and at most 31 characters together"""
    style = i % 8
    pool = ALPHA + "0123456789" + PUNCT
    if style == 1:
        pool += EXTRA
    if style == 2:
        pool += NONASCII
    if style == 3:
        pool = PUNCT + "0123456789"

    def fld(maxlen, blanks=False):
        r = rnd.random()
        n = 0 if r < 0.08 else (rnd.randint(maxlen // 2, maxlen) if r < 0.25 else rnd.randint(1, 12))
        p = pool + (" \t" if blanks and rnd.random() < 0.3 else "")
        return word(rnd, n, p)
    f = {"file": fld(90, True), "user": fld(50, True), "mail": fld(60, True), "cuser": fld(50, True), "uuser": fld(50, True)}
    if style == 0:
        f.update(cdate="%04d/%02d/%02d" % (rnd.randint(1990, 2030), rnd.randint(1, 12), rnd.randint(1, 28)),
                 ctime="%02d:%02d:%02d" % (rnd.randint(0, 23), rnd.randint(0, 59), rnd.randint(0, 59)),
                 udate="%04d/%02d/%02d" % (rnd.randint(1990, 2030), rnd.randint(1, 12), rnd.randint(1, 28)),
                 utime="%02d:%02d:%02d" % (rnd.randint(0, 23), rnd.randint(0, 59), rnd.randint(0, 59)))
    else:
        for d, t in (("cdate", "ctime"), ("udate", "utime")):
            a = rnd.randint(0, 31)
            b = rnd.randint(0, 31 - a)
            if rnd.random() < 0.2:
                b = 31 - a
            f[d], f[t] = word(rnd, a, pool), word(rnd, b, pool)
    if style == 4:     # names that look like keywords
        f["file"] = rnd.choice(["By: x", "Created: a b by c", "Updated: a b by c", "/", "By:"])
        f["user"] = rnd.choice(["By:", "Created:", "by", ""])
    return f


def mutations(rnd, f, full):
    """-> [(label, header_lines_or_None, prefix_text, kind)]: the header part of the file as text"""
    t = template(f)
    lf = lefts(f)
    out = []
    join = lambda ls: "".join(l + "\n" for l in ls)  # noqa: E731
    out.append(("Hm1-absent", ""))
    out.append(("Hm2-code-first", "int\tg_first;\n" + join(t)))
    out.append(("Hm2-include-first", "#include <unistd.h>\n" + join(t)))
    out.append(("Hm3-empty-line-first", "\n" + join(t)))
    out.append(("Hm4-line-comments", join("//" + l[2:-2] for l in t)))
    out.append(("Hm2-line-comment-first", "// my file\n" + join(t)))
    out.append(("Hm2-indented-comment-first", "\t/* my file */\n" + join(t)))
    for k in (range(11) if full else sorted(rnd.sample(range(11), 2))):
        m = list(t)
        m[k] = "//" + t[k][2:-2]
        out.append(("Hm4-line-%d-as-line-comment" % (k + 1), join(m)))
    mids = [l[2:-2] for l in t]
    out.append(("Hm5-one-block", "/*" + "**\n**".join(mids) + "*/\n"))
    ks = range(11) if full else sorted(rnd.sample(range(11), 3))
    for k in ks:
        out.append(("Hm6-line-%d-removed" % (k + 1), join(t[:k] + t[k + 1:])))
    for last in (False, True):
        for n in ((73, 75) if not full else (73, 75, 0, 1, 72, 76, 74 * 2)):
            m = list(t)
            m[10 if last else 0] = frame(n)
            out.append(("Hm7-%s-frame-%d-stars" % ("last" if last else "first", n), join(m)))
    for k, kw in KEYWORDS.items():
        rest = lf[k][len(kw):]
        variants = [("removed", rest), ("misspelled", kw[:-3] + ": " + rest), ("lowercase", kw.lower() + rest),
                    ("no-colon", kw[:-2] + " " + rest), ("shifted", " " + kw + rest)]
        if not full:
            variants = [variants[0], rnd.choice(variants[1:])]
        for vn, x in variants:
            line = textline(x, ARTS[k])
            if line.startswith("/*   " + kw):
                continue            # the replacement text restores the keyword: not a mutation (e.g. a user called `By:`)
            m = list(t)
            m[k] = line
            out.append(("Hm8-%s-%s" % (kw.strip(": "), vn), join(m)))
    return out


MIN_BODY = "\nint\tmain(void)\n{\n\treturn (0);\n}\n"


def bodies(rnd, n_family):
    """(kind, name, body text); every body here has at least one statement that is not a comment"""
    out = [("minimal", "a.c", MIN_BODY),
           ("code-directly", "b.c", "int\tg_x;\n"),
           ("preprocessor-directly", "c.c", "#include <unistd.h>\n\nint\tmain(void)\n{\n\treturn (0);\n}\n"),
           ("block-comment-then-code", "d.c", "/* note */\n" + MIN_BODY),
           ("two-block-comments-then-code", "e.c", "/* one */\n/*\n** two\n*/\n" + MIN_BODY),
           ("line-comment-first", "f.c", "// note\n" + MIN_BODY),
           ("indented-comment-first", "g.c", "\t/* note */\n" + MIN_BODY),
           ("block-then-line-comment", "j.c", "/* one */\n// two\n" + MIN_BODY)]
    for _ in range(n_family):
        name, src = family.program(rnd)
        assert src.startswith(HDR)
        out.append(("family-" + name[-1], name, src[len(HDR):]))
    return out


# bodies without any statement besides comments (finding C13-comments-only)
COMMENTS_ONLY = [("empty", "h.c", ""), ("block-comment-only", "i.c", "/* nothing else */\n")]


# ------------------------------------------------------------------------------------------ implementation side
def source_regex_accepts(text):
    """the source's own check_header (its own pattern, flags and method) on a text"""
    from norminette.rules.check_header import CheckHeader

    class Ctx:
        def __init__(self):
            self.header = text
            self.n = 0

        def new_error(self, code, tok):
            self.n += 1

        def peek_token(self, i):
            return None
    c = Ctx()
    try:
        CheckHeader.check_header(None, c)
    except Exception as e:  # noqa: the method no longer is the function of (context.header) the model stands for
        return "probe-failed: %s: %s" % (type(e).__name__, str(e)[:120])
    return c.n == 0


def analyse_recorded(src, name):
    """impl.analyse with CheckHeader.run wrapped: -> (result, [(rule, tok type, tok value)], [state after each call])"""
    from norminette.rules.check_header import CheckHeader
    events, states = [], []
    orig = CheckHeader.run

    def wrapped(self, context):
        ev = (type(context.history[-1]).__name__, context.tokens[0].type, context.tokens[0].value or "")
        r = orig(self, context)
        if len(events) < 40:
            events.append(ev)
            n = sum(1 for e in context.errors._inner if e.name == "INVALID_HEADER")
            states.append([int(context.header_started is True), int(context.header_parsed is True), len(context.header), n, n])
        return r
    CheckHeader.run = wrapped
    from norminette.registry import Registry
    orig_rr, st = _record_turns()
    try:
        res = impl.analyse(src, name)
    finally:
        CheckHeader.run = orig
        Registry.run_rules = orig_rr
    TURNS.append((st["turns"], st["calls"]))
    return res, events, states


TURNS = []      # filled by analyse_recorded: per analysed file, (matched turns [(name, jump)], calls [(name, window types, ret, jump)])


def _record_turns():
    """wrap Registry.run_rules from outside: top-level calls on primaries only"""
    from norminette.registry import Registry
    from norminette.rules import Primary
    orig = Registry.run_rules
    state = {"depth": 0, "turns": [], "calls": []}

    def rr(self, context, rule):
        top = state["depth"] == 0
        window = [t.type for t in context.tokens[:60]] if top else None
        state["depth"] += 1
        try:
            r = orig(self, context, rule)
        finally:
            state["depth"] -= 1
        if top and isinstance(rule, type) and issubclass(rule, Primary) and context.state == "running":
            if rule.__name__ in ("IsComment", "IsPreprocessorStatement", "IsEmptyLine") and len(state["calls"]) < 90:
                state["calls"].append((rule.__name__, window, bool(r[0] is True), int(r[1]) if isinstance(r[1], int) else -999))
            if r[0] is True and len(state["turns"]) < 80:
                state["turns"].append((rule.__name__, int(r[1]), window))
        return r
    Registry.run_rules = rr
    return orig, state


def count_invalid(res):
    return sum(1 for d in res["diags"] if d[0] == "INVALID_HEADER")


# ------------------------------------------------------------------------------------------ Coq side
def coq_text(x):
    if x == "":
        return "([] : str)"
    parts, cur = [], ""
    for ch in x:
        o = ord(ch)
        if (32 <= o < 127 and ch != '"') or ch == "\n":
            cur += ch
        else:
            if cur:
                parts.append('s "%s"' % cur)
                cur = ""
            parts.append("[%d%%N]" % o)
    if cur:
        parts.append('s "%s"' % cur)
    return "(" + " ++ ".join(parts) + ")"


PRELUDE = "From NV Require Import Model.Base Model.HeaderRe Model.HeaderState Gen.HeaderRe Gen.HeaderSM Model.Header.\n"


def coq_eval(files):
    """files: [coq source]; -> [parsed python value of the single `Eval` of each file, or an error string]"""
    os.makedirs(CASES, exist_ok=True)

    def one(kv):
        k, text = kv
        p = os.path.join(CASES, "cases_%d.v" % k)
        with open(p, "w") as f:
            f.write(text)
        q = subprocess.run(["timeout", "600", "coqc", "-R", os.path.join(common.COQ, "theories"), "NV", "-o",
                            os.path.join(CASES, "cases_%d.vo" % k), p], capture_output=True, text=True, cwd=CASES)
        m = re.search(r"=\s*(\[.*\])\s*:\s*list", q.stdout, flags=re.S)
        if q.returncode != 0 or not m:
            return "coqc failed: " + (q.stderr + q.stdout)[-600:]
        return json.loads(m.group(1).replace(";", ",").replace("%Z", "").replace("%N", ""))
    with ThreadPoolExecutor(common.NPROC) as ex:
        return list(ex.map(one, enumerate(files)))


def chunks(xs, n):
    return [xs[i:i + n] for i in range(0, len(xs), n)]


def model_search(texts):
    files = [PRELUDE + "Definition texts : list str :=\n [%s].\nEval vm_compute in (map (fun t => b2z (searchb header_re t)) texts).\n"
             % ";\n  ".join(coq_text(t) for t in ch) for ch in chunks(texts, 120)]
    out = []
    for r, ch in zip(coq_eval(files), chunks(texts, 120)):
        out += [r] * len(ch) if isinstance(r, str) else [bool(v) for v in r]
    return out


def model_traces(traces):
    def ev(e):
        return "mkev %s %s %s" % (coq_text(e[0]), coq_text(e[1]), coq_text(e[2]))
    files = [PRELUDE + "Definition traces : list (list hevent) :=\n [%s].\nEval vm_compute in (map (trace_from ctx_init) traces).\n"
             % ";\n  ".join("[" + "; ".join(ev(e) for e in t) + "]" for t in ch) for ch in chunks(traces, 60)]
    out = []
    for r, ch in zip(coq_eval(files), chunks(traces, 60)):
        out += [r] * len(ch) if isinstance(r, str) else r
    return out


def model_primaries(windows):
    """windows: [token type list] -> [[ispreproc_prefix code], [iscomment b, jump], [turn code]] from the generated Gen/IsComment.v"""
    pre = ("From NV Require Import Model.Base Model.Lexer Model.RuleChecks Model.EngineTok0 Model.Engine Model.RegistryOrder "
           "Gen.IsComment Gen.IsEmptyLine Model.EngineTok.\n"
           "Definition oz (o : option (bool * Z)) : list Z := match o with None => [-1] | Some (b, j) => [if b then 1 else 0; j] end.\n"
           "Definition tz (o : option tryres) : list Z := match o with None => [-1] | Some NoMatch => [0] "
           "| Some (Matched n j) => [1; if str_eqb n (s \"IsComment\") then 1 else if str_eqb n (s \"IsPreprocessorStatement\") then 2 else 0; j] "
           "| Some _ => [-2] end.\n")
    names = sorted({t for w in windows for t in w})
    pre += "".join("Definition ty_%d : str := s \"%s\".\n" % (k, n) for k, n in enumerate(names))
    idx = {n: k for k, n in enumerate(names)}
    files = [pre + "Definition ws : list (list token) :=\n [%s].\nEval vm_compute in (map (fun w => [oz (ispreproc_prefix w); oz (Some (iscomment_run w)); tz (turn primaries_order w); oz (Some (isemptyline_run w))]) ws).\n"
             % ";\n  ".join("[" + "; ".join("mk_tok ty_%d 0 0" % idx[t] for t in w) + "]" for w in ch) for ch in chunks(windows, 150)]
    out = []
    for r, ch in zip(coq_eval(files), chunks(windows, 150)):
        out += [r] * len(ch) if isinstance(r, str) else r
    return out


def model_template(cases):
    """cases: [(fields, python text)] -> [bool]: Model.Header.template of the fields gives that text"""
    def fl(f):
        return "mkfields " + " ".join(coq_text(f[k]) for k in FIELD_NAMES)
    files = [PRELUDE + "Definition cases : list (fields * str) :=\n [%s].\nEval vm_compute in (map (fun c => b2z (str_eqb (lines_text (template (fst c))) (snd c)) + 2 * b2z (fields_ok (fst c))) cases).\n"
             % ";\n  ".join("(%s, %s)" % (fl(f), coq_text(t)) for f, t in ch) for ch in chunks(cases, 100)]
    out = []
    for r, ch in zip(coq_eval(files), chunks(cases, 100)):
        out += [r] * len(ch) if isinstance(r, str) else r
    return out


def near_misses(rnd, f, n):
    """texts around a template instance: one character changed/removed/inserted, lines duplicated or swapped,
    text before and after"""
    base = "".join(l + "\n" for l in template(f))
    out = []
    for _ in range(n):
        k = rnd.randint(0, 7)
        t = base
        if k <= 2:
            i = rnd.randrange(len(t))
            if rnd.random() < 0.5:        # hit the structural characters more often
                cands = [j for j, ch in enumerate(t) if ch in "/*\n:BCU" or t[j:j + 4] == " by "]
                i = rnd.choice(cands)
            t = [t[:i] + rnd.choice("x */\n:") + t[i + 1:], t[:i] + t[i + 1:], t[:i] + rnd.choice("x */\n") + t[i:]][k]
        elif k == 3:
            ls = base.split("\n")[:-1]
            i = rnd.randrange(11)
            ls.insert(i, ls[i])
            t = "".join(l + "\n" for l in ls)
        elif k == 4:
            ls = base.split("\n")[:-1]
            i = rnd.randrange(10)
            ls[i], ls[i + 1] = ls[i + 1], ls[i]
            t = "".join(l + "\n" for l in ls)
        elif k == 5:
            t = rnd.choice(["/* x */\n", "garbage", "/*\n"]) + base + rnd.choice(["", "/* more */\n", "x"])
        elif k == 6:
            t = base[:-1]                 # the final character the expression asks for is missing
        else:
            t = base.replace("\n", rnd.choice([" ", "\r", "\n\n", ""]), rnd.randint(1, 11))
        out.append(t)
    return out


# ------------------------------------------------------------------------------------------ through main(): several files, inline content
def cli_counts(argv, cwd):
    """`python -m norminette -f json <argv>` in a process of its own -> [(file name, INVALID_HEADER count)] or an error text"""
    code, out, err, exc = impl.run_main_subprocess(["-f", "json"] + list(argv), cwd=cwd, limit=60.0)
    try:
        js = json.loads(out)
        return [(os.path.basename(x["path"]), sum(1 for e_ in x["errors"] if e_["name"] == "INVALID_HEADER")) for x in js["files"]]
    except (ValueError, KeyError, TypeError):
        return "exit %r: %s %s" % (code, out[-200:], err[-300:])


def run_sequence(files):
    """files: [(name, src)] written to a fresh directory and given to ONE run in this order -> per-file counts"""
    import shutil
    import tempfile
    d = tempfile.mkdtemp(prefix="nvc13_")
    try:
        for nme, src in files:
            with open(os.path.join(d, nme), "w", newline="") as fh:
                fh.write(src)
        return cli_counts([nme for nme, _ in files], d)
    finally:
        shutil.rmtree(d, ignore_errors=True)


def run_inline(name, src):
    opt = "--hfile=" if name.endswith(".h") else "--cfile="
    return cli_counts([opt + src, "--filename=" + name], None)


def cli_file_set(rnd, f):
    """the files of one field set: comments-only files with a VALID header, a clean file, one file per mutation class"""
    t = "".join(l + "\n" for l in template(f))
    muts = dict(mutations(rnd, f, True))
    pick = lambda pre: rnd.choice([k for k in muts if k.startswith(pre)])  # noqa: E731
    files = {"v.h": t, "v2.c": t + "/* nothing else */\n", "c.c": t + MIN_BODY,
             "d1.c": muts[pick("Hm1")] + MIN_BODY, "d2.c": muts[pick("Hm2")] + MIN_BODY, "d3.c": muts[pick("Hm3")] + MIN_BODY,
             "d4.c": muts[pick("Hm4")] + MIN_BODY, "d5.c": muts[pick("Hm5")] + MIN_BODY, "d6.c": muts[pick("Hm6")] + MIN_BODY,
             "d7.h": muts[pick("Hm7")] + "\n#ifndef D7_H\n# define D7_H\n\nint\tmain(void);\n\n#endif\n",
             "d8.c": muts[pick("Hm8")] + MIN_BODY}
    return files


def cli_routes(run, rnd, tier, replay_data=None):
    """(a) the INVALID_HEADER count of a file does not depend on the other files of the run, (b) nor on the route
    (file on disk / inline content)"""
    found = False
    jobs = []          # ("alone"|"seq"|"inline", key, payload)
    if replay_data is not None:
        sets = [None]
    else:
        sets = [rand_fields(rnd, i) for i in (range(5) if tier == "quick" else range(40))]
    results = []
    with ThreadPoolExecutor(8) as ex:
        for f in sets:
            if replay_data is not None:
                files = dict(replay_data["files"])
                seqs = [replay_data["order"]] if replay_data["route"] == "sequence" else []
                inl = [replay_data["order"][0]] if replay_data["route"] == "inline" else []
            else:
                files = cli_file_set(rnd, f)
                dm = [k for k in files if k.startswith("d")]
                x, y, z = rnd.sample(dm, 3)
                seqs = [["v.h", "d6.c"], ["d6.c", "v.h"], ["v2.c", "d7.h"], ["v.h", "d8.c"], ["c.c", x], [x, "c.c"], [y, z], [z, y],
                        ["v.h", "v2.c", x], [x, "v.h", y], ["v.h", "c.c"], ["c.c", "v.h", "d3.c"]]
                inl = ["c.c", "d3.c"] + rnd.sample([k for k in dm if k != "d3.c"], 4 if tier == "quick" else 7)
            alone = {k: ex.submit(run_sequence, [(k, files[k])]) for k in files}
            sq = [(o, ex.submit(run_sequence, [(k, files[k]) for k in o])) for o in seqs]
            il = [(k, ex.submit(run_inline, k, files[k])) for k in inl]
            results.append((f, files, alone, sq, il))
        for f, files, alone, sq, il in results:
            al = {k: v.result() for k, v in alone.items()}
            bad = [k for k, v in al.items() if isinstance(v, str)]
            if bad:
                found |= run.violation("main-run-failed", {"route": "alone", "files": [[k, files[k]] for k in bad], "order": bad, "output": al[bad[0]], "fields": f})
                continue
            al = {k: v[0][1] for k, v in al.items()}
            for order, fut in sq:
                got = fut.result()
                exp = [(k, al[k]) for k in order]
                run.count("several files in one run: counts equal the counts alone", 1, 1)
                if got != exp:
                    found |= run.violation("count-depends-on-the-other-files-of-the-run",
                                           {"route": "sequence", "order": order, "files": [[k, files[k]] for k in order], "alone": exp,
                                            "in_this_run": got, "fields": f})
            for k, fut in il:
                got = fut.result()
                run.count("inline content (--cfile/--hfile): count equals the file route", 1, 1)
                if got != [(k, al[k])]:
                    found |= run.violation("inline-content-differs-from-the-file-route",
                                           {"route": "inline", "order": [k], "files": [[k, files[k]]], "file_route": al[k], "inline_route": got, "fields": f})
    return found


# ------------------------------------------------------------------------------------------ the check
def run(run, tier, seed, replay=None):
    b = common.build(["C13"], need_driver=False)
    run.build = b
    rnd = random.Random(seed)
    found = False
    quick = tier == "quick"
    cases = []        # (label, kind, name, src, expected count, finding id, fields)
    regex_texts = []  # texts for correspondence (i)
    tpl_cases = []

    if replay is not None and replay["data"].get("route") in ("sequence", "inline", "alone"):
        found |= cli_routes(run, rnd, tier, replay["data"])
    elif replay is None:
        found |= cli_routes(run, random.Random(seed * 7919 + 13), tier)
    if replay is not None:
        d = replay["data"]
        if "src" in d:
            cases.append((d.get("mutation", "replay"), d.get("body", "replay"), d["name"], d["src"], d["expected"], d.get("finding"), d.get("fields")))
        if "text" in d:
            regex_texts.append(d["text"])
    else:
        nf = 16 if quick else 120
        bds = bodies(rnd, 3 if quick else 10)
        # corpus first: the repository's own header, the family's programs as they are
        for kind, name, body in bds:
            cases.append(("well-formed", kind, name, HDR + body, 0, None, None))
        for i in range(nf):
            f = rand_fields(rnd, i)
            t = "".join(l + "\n" for l in template(f))
            tpl_cases.append((f, t))
            regex_texts.append(t + rnd.choice(["", "/* more */\n", "int x;"]))
            regex_texts += near_misses(rnd, f, 3 if quick else 6)
            full = (i % 12 == 0)
            muts = mutations(rnd, f, full)
            for lab, text in muts:
                regex_texts.append(text)
            sel = [bds[0]] + rnd.sample(bds[1:], 5 if full else (2 if quick else 3))
            for kind, name, body in sel:
                cases.append(("well-formed", kind, name, t + body, 0, None, f))
                for lab, text in (muts if (full or kind == "minimal") else rnd.sample(muts, 4)):
                    cases.append((lab, kind, name, text + body, 1, None, f))
            if i % 4 == 0:
                # (the former finding C13-comment-after-header is repaired: comment-first bodies are ordinary bodies
                #  above; a well-formed header flagged because of them is a plain VIOLATION again)
                cases.append(("well-formed", "line-comment-only", "k.c", t + "// nothing else\n", 0, None, f))
                for kind, name, body in COMMENTS_ONLY:
                    cases.append(("well-formed", kind, name, t + body, 0, None, f))
                    if body == "":
                        continue       # a damaged header and nothing else: not "a file with other content"
                    lab, text = rnd.choice([m for m in muts if m[0][:3] in ("Hm5", "Hm6", "Hm7", "Hm8")])
                    cases.append((lab, kind, name, text + body, 1, "C13-comments-only", f))

    # ---- the implementation on every case: the property itself, and the recorded events
    traces, recorded, turn_records = [], [], []
    del TURNS[:]
    for lab, kind, name, src, expected, fid, f in cases:
        res, events, states = analyse_recorded(src, name)
        data = {"mutation": lab, "body": kind, "name": name, "src": src, "expected": expected, "finding": fid, "fields": f}
        if res["kind"] != "ok":
            if res["kind"] == "exc" and res.get("frame") and "check_header" in res["frame"][0]:
                found |= run.violation("header-check-crashed", dict(data, result=res))
            else:
                run.count("skipped: the body does not analyse (%s)" % res["kind"], 1, 0)
            continue
        n = count_invalid(res)
        data["observed"] = n
        if n != expected:
            kindv = "well-formed-header-flagged" if expected == 0 else ("mutation-not-flagged" if n == 0 else "mutation-flagged-twice")
            use_fid = fid
            if fid == "C13-comments-only" and not (n == 0 and events and all(e_[0] == "IsComment" and e_[1] == "MULT_COMMENT" for e_ in events)):
                # the recorded finding is precisely: every statement of the file is a block comment in column 1 and NO
                # diagnostic is emitted (no end-of-file check); anything else on such a file is new
                use_fid = None
            found |= run.violation(kindv, data, finding_id=use_fid)
        run.count("search/" + ("well-formed" if expected == 0 else lab[:3]) + "/" + ("family" if kind.startswith("family") else kind), 1,
                  1 if f is not None else 0)
        # the events of the header part are the predicted ones
        if f is not None and (lab == "well-formed" or lab[:3] in ("Hm6", "Hm7", "Hm8")):
            pred = []
            for line in src.split("\n"):
                if line.startswith("/*") and line.endswith("*/") and "*/" not in line[2:-2]:
                    pred.append(("IsComment", "MULT_COMMENT", fold(line)))
                else:
                    break
            if events[:len(pred)] != pred[:len(events)] or len(events) < min(len(pred), 1):
                found |= run.violation("correspondence-file-to-events", dict(data, predicted=pred[:3], recorded=events[:3]))
            run.count("correspondence: leading comment lines -> events", 1, 1)
        traces.append(events)
        recorded.append((states, data))
        # the parser half of file -> trace: on a well-formed header the first eleven turns are IsComment, two tokens each
        turns_k, calls_k = TURNS[-1]
        if f is not None and lab == "well-formed":
            first = [(n_, j_) for n_, j_, _ in turns_k[:11]]
            if first != [("IsComment", 2)] * 11:
                found |= run.violation("correspondence-header-turns", dict(data, recorded_turns=first))
            run.count("correspondence: first eleven turns of a well-formed header are (IsComment, 2)", 1, 1)
        turn_records.append((turns_k, calls_k, data))
    if cases:
        run.sample({"mutation": cases[-1][0], "body": cases[-1][1], "file_head": cases[-1][3][:200]})

    # ---- correspondence (ii): the generated state machine on the recorded events
    uniq = {}
    for ev, (st, data) in zip(traces, recorded):
        uniq.setdefault(json.dumps(ev), (ev, st, data))
    items = list(uniq.values())
    if b.make_ok and items:
        outs = model_traces([ev for ev, _, _ in items])
        for (ev, st, data), m in zip(items, outs):
            if isinstance(m, str):
                found |= run.violation("correspondence-sm-model-failed", {"error": m})
                break
            if m != st:
                found |= run.violation("correspondence-state-machine", dict(data, events=ev[:14], model=m[:14], implementation=st[:14]))
        run.count("correspondence: state machine on recorded events (distinct traces)", len(items), len(items))

    # ---- correspondence (v): `declines_newline` (the assumption of the *_emptyline theorems: the primaries tried between
    # IsComment and IsEmptyLine do not recognise a statement whose first token is NEWLINE): on every recorded statement turn
    # whose first token is NEWLINE the matched primary is IsEmptyLine with the jump isemptyline_on_newline predicts (1).
    # Recorded turns exist for every file analysed in-process by this check (search and correspondence cases, the first 80
    # statements of each); not for the several-file / inline runs, which go through a subprocess.
    n_nl = 0
    for turns_k, calls_k, data in turn_records:
        for nme, jump_, w in turns_k:
            if w and w[0] == "NEWLINE":
                n_nl += 1
                if (nme, jump_) != ("IsEmptyLine", 1):
                    found |= run.violation("correspondence-declines-newline",
                                           dict(data, window=list(w)[:8], matched=[nme, jump_], predicted=["IsEmptyLine", 1]))
    run.count("correspondence: statement turns whose first token is NEWLINE are (IsEmptyLine, 1)", n_nl, n_nl)

    # ---- correspondence (iv): the generated IsComment / IsPreprocessorStatement-prefix / one turn, on the recorded token windows
    wins = {}
    for turns_k, calls_k, data in turn_records:
        for nme, w, ret_, jump_ in calls_k:
            if w:
                wins.setdefault(tuple(w), {"data": data, "calls": {}, "turn": None})["calls"][nme] = (ret_, jump_)
        for nme, jump_, w in turns_k:
            if w and tuple(w) in wins:
                wins[tuple(w)]["turn"] = (nme, jump_)
    wl = list(wins)
    if len(wl) > (1500 if tier == "quick" else 12000):
        wl = rnd.sample(wl, 1500 if tier == "quick" else 12000)
    if b.make_ok and wl:
        for w, m in zip(wl, model_primaries([list(w) for w in wl])):
            if isinstance(m, str):
                found |= run.violation("correspondence-primaries-model-failed", {"error": m})
                break
            rec = wins[w]
            pp, ic, tn, el = m
            bad = None
            if "IsEmptyLine" in rec["calls"]:
                ret_, jump_ = rec["calls"]["IsEmptyLine"]
                if [int(ret_), jump_ if ret_ else 0] != el and not (len(w) == 60 and el[1] >= 59):
                    bad = ("IsEmptyLine.run", [int(ret_), jump_], el)
            if "IsComment" in rec["calls"]:
                ret_, jump_ = rec["calls"]["IsComment"]
                if [int(ret_), jump_ if ret_ else 0] != ic and not (len(w) == 60 and ic[1] >= 59):
                    bad = ("IsComment.run", [int(ret_), jump_], ic)
            if "IsPreprocessorStatement" in rec["calls"] and pp != [-1]:
                ret_, jump_ = rec["calls"]["IsPreprocessorStatement"]
                if [int(ret_), jump_] != pp:
                    bad = ("IsPreprocessorStatement.run (prefix)", [int(ret_), jump_], pp)
            if rec["turn"] is not None and tn[0] == 1:
                nid = {"IsComment": 1, "IsPreprocessorStatement": 2}.get(rec["turn"][0], 0)
                if [1, nid, rec["turn"][1]] != tn:
                    bad = ("Registry.run turn", list(rec["turn"]), tn)
            if bad:
                found |= run.violation("correspondence-primaries", dict(rec["data"], window=list(w)[:12], what=bad[0], implementation=bad[1], model=bad[2]))
        run.count("correspondence: IsComment / IsPreprocessorStatement prefix / turn on recorded token windows (distinct)", len(wl), len(wl))

    # ---- correspondence (i): the expression
    regex_texts = list(dict.fromkeys(regex_texts))
    impl_acc = [source_regex_accepts(t) for t in regex_texts]
    probe_failures = [a for a in impl_acc if isinstance(a, str)]
    if probe_failures:
        found |= run.violation("correspondence-regex", {"error": probe_failures[0], "what": "CheckHeader.check_header is no longer a function of context.header alone"})
        regex_texts, impl_acc = [], []
    if b.make_ok and regex_texts:
        mod = model_search(regex_texts)
        for t, a, m in zip(regex_texts, impl_acc, mod):
            if isinstance(m, str):
                found |= run.violation("correspondence-regex-model-failed", {"error": m})
                break
            if a != m:
                found |= run.violation("correspondence-regex", {"text": t, "source_accepts": a, "model_accepts": m})
        run.count("correspondence: expression, accepted texts", sum(impl_acc), sum(impl_acc))
        run.count("correspondence: expression, rejected texts", len(impl_acc) - sum(impl_acc), len(impl_acc) - sum(impl_acc))
    # ---- correspondence (iii): the template
    if b.make_ok and tpl_cases:
        for (f, t), m in zip(tpl_cases, model_template(tpl_cases)):
            if isinstance(m, str):
                found |= run.violation("correspondence-template-model-failed", {"error": m})
                break
            if m != 3:
                found |= run.violation("correspondence-template", {"fields": f, "python_text": t, "model_says": m})
        run.count("correspondence: template text and fields_ok", len(tpl_cases), len(tpl_cases))

    common.broken_obligations(run, b, found)
    disc = sum(1 for t in b.theorems if t not in b.open_assumptions) if b.make_ok else 0
    return run.finish(len(b.theorems) or 23, disc,
                      "fields over letters/digits/._-@+#: (+ other punctuation, blanks, non-ASCII, keyword-like names, empty and "
                      "over-long values; never newline or `*`; date+time <= 31 characters without blanks) x {well-formed, Hm1..Hm8 "
                      "variants incl. a // comment above the header and single lines written as //; "
                      "variants} x bodies {minimal, code directly, preprocessor directly, block comment(s) then code, programs of "
                      "the family G (.c and .h), // or indented comment directly below the header} (+ comments-only bodies for the "
                      "finding C13-comments-only); per case: the "
                      "INVALID_HEADER count of the implementation (0 / exactly 1), the generated state machine replayed in Coq on "
                      "the recorded events, the expression in Coq vs the source's own check_header on all header texts and "
                      "near-misses; non-trivial = the case uses random fields",
                      extra={"exhaustive": False},
                      assumptions=["declines_newline (Model/EngineTokE.v; hypothesis of the C13_*_emptyline theorems): IsFuncPrototype, "
                                   "IsFuncDeclaration, IsFunctionCall and IsVarDeclaration - tried between IsComment and IsEmptyLine, not "
                                   "translated - do not recognise a statement whose first token is NEWLINE: not proved, compared on every "
                                   "recorded statement turn whose first token is NEWLINE (stream `statement turns whose first token is "
                                   "NEWLINE`; in-process analyses only, not the subprocess routes)",
                                   "a file made of the template lines is cut into one IsComment/MULT_COMMENT event per line: compared on "
                                   "every case, not proved (the lexer comment lemma of DESIGN 4.13 is not done)",
                                   "Python's backtracking re.search finds a match iff one exists (no possessive/atomic constructs in the "
                                   "translated subset): compared on every text"])
