"""C12 - alternative spellings and line splices do not change the tokens.
Theorems: Props/C12.v.  This check: L-corr on the di/trigraph alphabet; metamorphic search on the implementation:
respell random subsets of punctuator occurrences (capture-free), insert splices at random subsets of token
boundaries, compare (kind, value) sequences; for braces and brackets also the diagnostics (code, line) of whole files."""
import os
import random

import common
import family
import impl
import lexcorr
import pipeline


def tables():
    from norminette.lexer.dictionary import digraphs, trigraphs
    return dict(digraphs), dict(trigraphs)


def logical(raw, di, tri):
    """greedy reading of the raw text as the lexer's peek does it: trigraph, then digraph, then the character"""
    out, i = [], 0
    while i < len(raw):
        if raw[i:i + 3] in tri:
            out.append(tri[raw[i:i + 3]]); i += 3
        elif raw[i:i + 2] in di:
            out.append(di[raw[i:i + 2]]); i += 2
        else:
            out.append(raw[i]); i += 1
    return "".join(out)


PUNCT_TYPES = None


def punct_types():
    global PUNCT_TYPES
    if PUNCT_TYPES is None:
        from norminette.lexer.dictionary import operators, brackets
        PUNCT_TYPES = set(operators.values()) | set(brackets.values())
    return PUNCT_TYPES


def kv(tokens):
    """(kind, value); inside block comments a tab is stored as the blanks up to the next tab stop (the documented
    normalisation of C10), so that value depends on the column: runs of blanks are compared as one"""
    import re
    return [(t[0], re.sub(" +", " ", t[1]) if t[0] == "MULT_COMMENT" and t[1] else t[1]) for t in tokens]


def tab_after_respelled(src, new):
    """a respelled character followed by a tab on its line moves tab-aligned text: the layout itself changes"""
    for a, b in zip(src.split("\n"), new.split("\n")):
        if a != b:
            i = 0
            while i < min(len(a), len(b)) and a[i] == b[i]:
                i += 1
            if "\t" in a[i:]:
                return True
    return False


def respell(src, toks, rnd, di, tri, only=None, p=0.5):
    """Respell a random subset of the respellable characters inside punctuator tokens.  -> new text or None"""
    spell = {}
    for k, v in list(tri.items()) + list(di.items()):
        if v != "\\":
            spell.setdefault(v, []).append(k)
    out, last = [], 0
    changed = False
    for t in toks:
        ty, lo, hi = t[0], t[4], t[5]
        if ty not in punct_types():
            continue
        raw = src[lo:hi]
        if logical(raw, di, tri) != raw:      # already written with an alternative spelling
            continue
        new = ""
        for ch in raw:
            if ch in spell and (only is None or ch in only) and rnd.random() < p:
                new += rnd.choice(spell[ch]); changed = True
            else:
                new += ch
        out.append(src[last:lo]); out.append(new); last = hi
    out.append(src[last:])
    new_src = "".join(out)
    if not changed:
        return None
    # capture-free (C's own maximal-munch caveat): reading the new text greedily gives the old characters
    if logical(new_src, di, tri) != logical(src, di, tri):
        return None
    return new_src


def splice(src, toks, rnd, p=0.15):
    """Insert a line splice at a random subset of token boundaries (not next to the end of a // comment, whose
    continuation onto the next line is C's and the tool's documented behaviour)."""
    cuts = []
    for a, b in zip(toks, toks[1:]):
        if a[5] != b[4]:
            continue                      # an existing splice sits between them
        if a[0] == "COMMENT":
            continue
        if rnd.random() < p:
            cuts.append(a[5])
    if not cuts:
        return None
    out, last = [], 0
    for c in cuts:
        out.append(src[last:c]); out.append(rnd.choice(["\\\n", "??/\n"])); last = c
    out.append(src[last:])
    return "".join(out)


def width_ok(src):
    return all(len(l.expandtabs(4)) <= 80 for l in src.split("\n"))


def run(run, tier, seed, replay=None):
    b = common.build(["C12"])
    run.build = b
    found = False
    rnd = random.Random(seed)
    di, tri = tables()
    hist = {}

    def check_tokens(kind, src, new, name):
        nonlocal found
        a, c = lexcorr.impl_lex(src, name), lexcorr.impl_lex(new, name)
        if a["kind"] != "ok":
            return False
        if c["kind"] != "ok" or kv(a["tokens"]) != kv(c["tokens"]):
            k = 0
            if c["kind"] == "ok":
                x, y = kv(a["tokens"]), kv(c["tokens"])
                while k < min(len(x), len(y)) and x[k] == y[k]:
                    k += 1
            found |= run.violation(kind, {"name": name, "src": src, "new": new, "first_difference_at_token": k,
                                          "before": repr(kv(a["tokens"])[max(0, k - 2):k + 3]),
                                          "after": repr(kv(c["tokens"])[max(0, k - 2):k + 3]) if c["kind"] == "ok" else c})
        return True

    def check_diags(src, new, name):
        nonlocal found
        a, c = impl.analyse(src, name), impl.analyse(new, name)
        if a["kind"] != "ok":
            return False
        da = sorted((d[0], d[3][0][0] if d[3] else 0) for d in a["diags"])
        dc = sorted((d[0], d[3][0][0] if d[3] else 0) for d in c["diags"]) if c["kind"] == "ok" else None
        if da != dc:
            found |= run.violation("brace-respelling-changes-diagnostics", {"name": name, "src": src, "new": new, "before": da, "after": dc if dc is not None else c})
        return True

    if replay is not None:
        d = replay["data"]
        if replay["kind"] == "brace-respelling-changes-diagnostics":
            check_diags(d["src"], d["new"], d["name"])
        elif "new" in d:
            check_tokens(replay["kind"], d["src"], d["new"], d["name"])
        else:
            found |= lexcorr.run_lexical_check(run, tier, seed, "c12", (), replay)
        run.count("replay", 1, 1)
    elif b.driver_ok and os.path.exists(os.path.join(common.BUILD, "nvdriver")):
        found |= lexcorr.run_lexical_check(run, tier, seed, "c12", ())
        nprog = 60 if tier == "quick" else 800
        progs = []
        for i in range(nprog):
            name, src = family.program(rnd)
            if i % 3 == 2:
                sp = pipeline.token_spans(src, name)
                for e in pipeline.edits(src, sp, rnd, 4):
                    if impl.analyse(e, name)["kind"] == "ok":
                        src = e
                        break
            progs.append((name, src))
        for s in lexcorr.structured(rnd, 100 if tier == "quick" else 2000, 5, 60):
            progs.append(("seq.c", s))
        n1 = n2 = n3 = n4 = 0
        reps = 3 if tier == "quick" else 6
        for name, src in progs:
            base = lexcorr.impl_lex(src, name)
            if base["kind"] != "ok" or base["diags"]:
                continue            # not a token sequence: a character that starts no token, a malformed constant
            toks = base["tokens"]
            for _ in range(reps):
                new = respell(src, toks, rnd, di, tri, p=rnd.choice([0.1, 0.5, 1.0]))
                if new is not None and check_tokens("respelling-changes-tokens", src, new, name):
                    n1 += 1
                new = splice(src, toks, rnd, p=rnd.choice([0.05, 0.3]))
                if new is not None and check_tokens("splice-changes-tokens", src, new, name):
                    n2 += 1
                    # both at once
                    t2 = lexcorr.impl_lex(new, name)
                    if t2["kind"] == "ok":
                        both = respell(new, t2["tokens"], rnd, di, tri)
                        if both is not None and check_tokens("respelling-and-splice-change-tokens", src, both, name):
                            n3 += 1
            if name != "seq.c":
                for _ in range(reps):
                    new = respell(src, toks, rnd, di, tri, only="{}[]", p=rnd.choice([0.3, 1.0]))
                    if new is not None and width_ok(new) and not tab_after_respelled(src, new) and check_diags(src, new, name):
                        n4 += 1
        run.count("punctuator occurrences respelled (random subsets, capture-free), token kinds and values compared", n1, n1)
        run.count("line splices inserted at random subsets of token boundaries, token kinds and values compared", n2, n2)
        run.count("respelling and splices together", n3, n3)
        run.count("braces and brackets respelled in whole programs, diagnostics (code, line) compared", n4, n4)
        if progs:
            b0 = lexcorr.impl_lex(progs[0][1], progs[0][0])
            new = respell(progs[0][1], b0["tokens"], random.Random(seed), di, tri, p=1.0) if b0["kind"] == "ok" else None
            run.sample({"respelled_program_excerpt": (new or progs[0][1])[900:1300]})
        if progs and n1 + n2 == 0:
            # nothing could be edited: the implementation's tokenizer could not be observed on any program
            found |= run.violation("correspondence-lexer-unobservable", {"what": "no program of the family could be tokenised with raw spans by the implementation", "first": repr(lexcorr.impl_lex(progs[0][1], progs[0][0]))[:300]})
    run.cov["c12_histogram"] = hist
    common.broken_obligations(run, b, found)
    disc = sum(1 for t in b.theorems if t not in b.open_assumptions) if b.make_ok else 0
    return run.finish(max(len(b.theorems), 7), disc,
                      "(1) lexer correspondence on the di/trigraph alphabet (exhaustive to a length bound) and the common "
                      "streams; (2) conforming programs, violating variants and random lexeme sequences: random subsets of the "
                      "punctuator occurrences respelled as digraph/trigraph (kept when capture-free: greedy reading gives the old "
                      "text), random subsets of token boundaries given a splice (either form), both together - the implementation's "
                      "(kind, value) sequences must be equal; (3) braces/brackets respelled in whole programs that stay within 80 "
                      "columns - diagnostics equal in (code, line); non-trivial = an edit was actually applied",
                      extra={"exhaustive": False},
                      assumptions=["a splice directly after a // comment continues the comment (C's own rule): not a token boundary",
                                   "programs whose respelling makes a line wider than 80 columns, or moves tab-aligned text (a tab follows the respelled character on its line), are skipped in the diagnostics comparison: there the layout itself changes",
                                   "random lexeme sequences are used only when they lex without any lexical diagnostic",
                                   "block-comment values are compared modulo runs of blanks (tab expansion depends on the column)"])
