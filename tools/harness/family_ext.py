"""Extensions of the conforming-program family G (DESIGN 4.1) used by the C01 check; family.py itself is not edited.

* boundary programs: conforming programs sitting EXACTLY on a limit of the Norm (25 body lines, 5 functions,
  4 parameters, 5 variables, lines of exactly 80 columns - statement, condition, function header, prototype, #define);
* hosts for the four known false-positive families K1..K4 (a K expression inside an otherwise conforming program) and the
  grids that locate the exact boundary of each family;
* a token-based construct histogram (what was actually generated, measured on the implementation's own tokens);
* the narrow matchers of the four findings;
* a structural shrinker (delete functions / statements / sub-expressions while the same diagnostic is still reported).

Everything random comes from the `random.Random` passed in."""
import re

import family
from family import HDR, lname, mname, expr, simple, block, align, tabs_to, intc, charc, strc

WIDTH = 80


def width(line):
    return len(line.expandtabs(4))


# ------------------------------------------------------------------------------------------ functions with fixed shape
P_TYPES = ["int ", "char ", "char *", "char **", "t_list *", "unsigned int ", "const char *", "size_t "]
D_TYPES = ["int", "char", "char", "unsigned int", "long", "size_t", "t_list", "struct s_node", "unsigned char", "long long"]
R_TYPES = ["int", "char", "char *", "unsigned int", "long", "t_list *", "size_t"]


def func_ext(r, name, static, np=None, nd=None, body_lines=None, extra=None, ret=None, extra_at=None):
    """A conforming function; np / nd = number of parameters / local variables (None = random), body_lines = exact
    number of lines between the braces (None = whatever the random block gives, <= 25), extra = statement lines (depth 1,
    already indented) inserted among the top-level statements."""
    ret = (r.random() < 0.7) if ret is None else ret
    rt = r.choice(R_TYPES) if ret else "void"
    np = r.randint(0, 4) if np is None else np
    nd = r.randint(0, 5) if nd is None else nd
    pnames = [lname(r, 5) for _ in range(np)]
    params = ", ".join(r.choice(P_TYPES) + p for p in pnames) if np else "void"
    star = ""
    if rt.endswith("*"):
        rt = rt[:-2]
        star = "*"
    head = ("static " if static else "") + rt + "\t" + star + name + "(" + params + ")"
    dn = [lname(r, 5) for _ in range(nd)]
    decls = []
    for v in dn:
        t = r.choice(D_TYPES)
        d = r.choice(["", "*", "**"]) + v + r.choice(["", "", "", "[4]", "[2][3]", "[BUF]"]) + ";"
        decls.append((t, d))
    pre = []
    if decls:
        pre = ["\t" + x for x in align(decls, 5)] + [""]
    env = (pnames + dn) or ["g_x"]
    extra = list(extra or [])
    target = 25 if body_lines is None else body_lines
    budget = [target - len(pre) - 1 - len(extra)]
    if body_lines is not None and budget[0] < 4:
        stmts = []
    else:
        if body_lines is None:
            budget[0] = min(budget[0], r.randint(4, 24))
        stmts = block(r, env, 1, False, ret, budget)
    last = "\t" + ("return (" + expr(r, env, 1) + ");" if ret else "return ;")
    if extra:
        # top-level positions only: a line at depth 1 that does not continue an if/else/while chain
        tops = [i for i, l in enumerate(stmts) if l.startswith("\t") and not l.startswith("\t\t")
                and not l.strip().startswith(("else", "{", "}"))
                and not (i > 0 and re.match(r"\t(if|else|while)\b", stmts[i - 1]) and not stmts[i - 1].endswith(";"))]
        at = len(stmts) if not tops or extra_at == "end" else r.choice(tops + [len(stmts)])
        stmts = stmts[:at] + extra + stmts[at:]
    body = pre + stmts + [last]
    if body_lines is not None:
        guard = 0
        while len(body) < body_lines and guard < 40:
            body.insert(len(body) - 1, "\t" + simple(r, env, False, ret))
            guard += 1
        while len(body) > body_lines and len(stmts) > 0:      # cannot happen with the budget; defensive
            stmts.pop()
            body = pre + stmts + [last]
    return [head, "{"] + body + ["}"], env


def preamble_c(r):
    L = HDR.rstrip("\n").split("\n") + [""]
    for _ in range(r.randint(0, 2)):
        L.append(r.choice(['#include "%s.h"' % lname(r, 6), '#include <%s.h>' % lname(r, 6)]))
    for _ in range(r.randint(0, 2)):
        L.append("#define %s %s" % (mname(r), r.choice([intc(r), strc(r), charc(r), "-" + intc(r), mname(r)])))
    if L[-1] != "":
        L.append("")
    return L


def unit_c_ext(r, shapes):
    """shapes: list of dicts of func_ext keyword arguments, one per function."""
    L = preamble_c(r)
    names = []
    while len(names) < len(shapes):
        n = lname(r, 8)
        if n not in names:
            names.append(n)
    for i, (n, sh) in enumerate(zip(names, shapes)):
        sh = dict(sh)
        static = sh.pop("static", r.random() < 0.5)
        fname = sh.pop("fname", n)
        lines, _ = func_ext(r, fname, static, **sh)
        L += lines
        if i < len(shapes) - 1:
            L.append("")
    return "\n".join(L) + "\n"


def pad_ident(r, n):
    """an lname of exactly n >= 1 characters"""
    while True:
        x = r.choice("abcdefhijkmnopqrvwxyz") + "".join(r.choice("abcdefghijklmnopqrstuvwxyz0123456789_") for _ in range(n - 1))
        if x not in family.KW and x not in family.SPECIAL and x[:2] not in ("g_", "s_", "t_", "u_", "e_"):
            return x


def line80_stmt(r, env, depth=1):
    """an assignment of exactly 80 columns"""
    base = "\t" * depth + r.choice(env) + " = " + expr(r, env, 1) + " " + r.choice(["+", "-", "*", "|", "&&", "=="]) + " "
    need = WIDTH - width(base) - 1
    if need < 1:
        base = "\t" * depth + r.choice(env) + " = "
        need = WIDTH - width(base) - 1
    return base + pad_ident(r, need) + ";"


def line80_cond(r, env, kw="if", depth=1):
    base = "\t" * depth + kw + " (" + r.choice(env) + " " + r.choice(["<", ">", "==", "!=", "&&", "||"]) + " "
    need = WIDTH - width(base) - 1
    return base + pad_ident(r, need) + ")"


BOUNDARY_KINDS = ["lines25", "funcs5", "params4", "vars5", "col80-stmt", "col80-cond", "col80-head", "all-limits",
                  "h-col80-proto", "h-params4", "h-col80-define"]


def boundary_program(r, which=None):
    """-> (name, src, tag): a conforming program exactly on a limit."""
    for _ in range(60):
        tag = which or r.choice(BOUNDARY_KINDS)
        if tag.startswith("h-"):
            name = lname(r, 6) + r.choice(["", ".x", "_y"]) + ".h"
            src = unit_h_ext(r, name, tag)
        else:
            name = lname(r, 6) + ".c"
            src = unit_c_boundary(r, tag)
        if src is not None and not family.wide(src) and on_limit(src, tag):
            return name, src, tag
    raise RuntimeError("boundary generator failed for %s" % which)


def unit_c_boundary(r, tag):
    nf = r.randint(1, 3)
    shapes = [{} for _ in range(nf)]
    k = r.randrange(nf)
    if tag == "lines25":
        shapes[k] = {"body_lines": 25}
    elif tag == "funcs5":
        shapes = [{} for _ in range(5)]
    elif tag == "params4":
        shapes[k] = {"np": 4}
    elif tag == "vars5":
        shapes[k] = {"nd": 5}
    elif tag == "all-limits":
        shapes = [{"np": 4, "nd": 5, "body_lines": 25} for _ in range(5)]
    elif tag in ("col80-stmt", "col80-cond"):
        env = [lname(r, 4) for _ in range(3)]
        if tag == "col80-stmt":
            extra = [line80_stmt(r, env)]
        else:
            kw = r.choice(["if", "while"])
            extra = [line80_cond(r, env, kw), "\t\t" + simple(r, env, kw == "while", False)]
        shapes[k] = {"extra": extra}
    elif tag == "col80-head":
        # function header of exactly 80 columns: a long function name
        lines, _ = func_ext(r, "zz", False)
        need = WIDTH - width(lines[0]) + 2
        if need < 1:
            return None
        L = preamble_c(r)
        L += [lines[0].replace("zz(", pad_ident(r, need) + "(", 1)] + lines[1:]
        return "\n".join(L) + "\n"
    return unit_c_ext(r, shapes)


def unit_h_ext(r, base, tag):
    G = base.upper().replace(".", "_")
    L = HDR.rstrip("\n").split("\n") + ["", "#ifndef " + G, "# define " + G, ""]
    if tag == "h-col80-define":
        m = mname(r)
        lead = "# define %s " % m
        n = WIDTH - len(lead) - 2
        L.append(lead + '"' + "".join(r.choice("abcdefghijklmnopqrstuvwxyz ") for _ in range(n)) + '"')
        L.append("")
    protos = []
    n = r.randint(1, 4)
    for i in range(n):
        rt = r.choice(["int", "char", "void", "unsigned int", "long", "t_list", "size_t", "struct s_node"])
        star = r.choice(["", "", "*", "**"])
        np_ = 4 if (tag == "h-params4" and i == 0) else r.randint(0, 3)
        params = ", ".join(r.choice(P_TYPES) + lname(r, 5) for _ in range(np_)) if np_ else "void"
        protos.append([rt, star, lname(r, 8), params])
    ends = [1 + len(p[0]) for p in protos]
    target = max(((e - 1) // 4 + 1) * 4 + 1 for e in ends)
    out = []
    for i, (rt, star, nm, params) in enumerate(protos):
        line = rt + "\t" * tabs_to(1 + len(rt), target) + star + nm + "(" + params + ");"
        if tag == "h-col80-proto" and i == 0:
            need = WIDTH - width(line) + len(nm)
            if need < 1:
                return None
            line = rt + "\t" * tabs_to(1 + len(rt), target) + star + pad_ident(r, need) + "(" + params + ");"
        out.append(line)
    L += out + ["", "#endif"]
    return "\n".join(L) + "\n"


def functions_of(src):
    """[(first line index, last line index)] of the function definitions of a rendered .c unit (head .. closing brace)."""
    lines = src.split("\n")
    out = []
    i = 11
    while i < len(lines) - 1:
        if lines[i] and not lines[i].startswith(("#", "\t", "{", "}", " ")) and lines[i + 1] == "{":
            j = i + 2
            while j < len(lines) and lines[j] != "}":
                j += 1
            out.append((i, j))
            i = j
        i += 1
    return out


def on_limit(src, tag):
    """does the rendered program really sit on the limit its tag names (measured on the text)?"""
    lines = src.split("\n")
    fs = functions_of(src)
    bodies = [lines[a + 2:b] for a, b in fs]

    def nparams(head):
        inner = head[head.index("(") + 1:head.rindex(")")]
        return 0 if inner == "void" else inner.count(",") + 1

    def nvars(body):
        n = 0
        for l in body:
            if l == "":
                break
            n += 1
        return n if "" in body else 0
    has80 = any(width(l) == WIDTH for l in lines[11:])
    if tag == "lines25":
        return any(len(b) == 25 for b in bodies)
    if tag == "funcs5":
        return len(fs) == 5
    if tag == "params4":
        return any(nparams(lines[a]) == 4 for a, _ in fs)
    if tag == "vars5":
        return any(nvars(b) == 5 for b in bodies)
    if tag == "all-limits":
        return len(fs) == 5 and all(len(b) == 25 and nvars(b) == 5 for b in bodies) and all(nparams(lines[a]) == 4 for a, _ in fs)
    if tag == "h-params4":
        return any(l.endswith(");") and l.count(",") == 3 for l in lines)
    return has80


# ------------------------------------------------------------------------------------------ the four known families
K_IDS = {"K1": "C01-K1-hex-b-digits", "K2": "C01-K2-unary-after-logical", "K3": "C01-K3-unary-before-sizeof-or-char",
         "K4": "C01-K4-cast-before-char",
         # found while locating the boundary of K4 (not one of the four families of DESIGN 4.1): a cast whose type is a single
         # identifier (typedef name) directly before unary * & ~ is read as `(variable) * p`
         "K5": "C01-K5-typedef-cast-before-deref"}
K_CODE = {"K1": "INVALID_SUFFIX", "K2": "SPC_AFTER_OPERATOR", "K3": "SPC_AFTER_OPERATOR", "K4": "SPC_AFTER_PAR"}

OPERANDS = {             # operand kind -> text (a, b, p are identifiers of the host)
    "ident": "b", "macro": "BUF", "int": "42", "hex": "0x2A", "float": "1.5", "suffixed": "3u", "char": "'a'", "wchar": "L'a'",
    "sizeof-type": "sizeof(int)", "sizeof-expr": "sizeof(b)", "paren": "(b)", "call": "fn(b)", "index": "b[0]", "member": "p->x",
    "deref": "*p", "addr": "&b", "not": "!b", "bnot": "~b", "neg": "-b", "pos": "+b", "cast": "(int)b",
}
PREVS = {                # what stands before the unary operator -> (prefix text, suffix text)
    "assign": ("a = ", ""), "and": ("a = a && ", ""), "or": ("a = a || ", ""), "eq": ("a = a == ", ""), "lt": ("a = a < ", ""),
    "plus": ("a = a + ", ""), "minus": ("a = a - ", ""), "mult": ("a = a * ", ""), "div": ("a = a / ", ""), "mod": ("a = a % ", ""),
    "band": ("a = a & ", ""), "bor": ("a = a | ", ""), "xor": ("a = a ^ ", ""), "shl": ("a = a << ", ""),
    "lpar": ("a = (", ")"), "lbracket": ("a = p[", "]"), "comma": ("a = fn(a, ", ")"), "callarg": ("a = fn(", ")"),
    "not": ("a = !", ""), "bnot": ("a = ~", ""), "cast": ("a = (int)", ""), "addassign": ("a += ", ""),
    "return": ("return (", ")"), "ifcond": None, "and-in-if": None,
}
CAST_TYPES = ["char", "int", "unsigned char", "char *", "t_list *", "void *", "long", "size_t", "struct s_node *"]


def k_statement(prev, text):
    """the statement (list of lines at depth 1) that puts `text` in the context `prev`"""
    if prev == "ifcond":
        return ["\tif (" + text + ")", "\t\ta = b;"]
    if prev == "and-in-if":
        return ["\tif (a && " + text + ")", "\t\ta = b;"]
    pre, post = PREVS[prev]
    return ["\t" + pre + text + post + ";"]


def k_host(r, stmt_lines):
    """a conforming .c program around the given statement lines (identifiers a, b, p declared); wide programs are re-drawn."""
    for _ in range(50):
        name, src = k_host1(r, stmt_lines)
        if not family.wide(src):
            break
    return name, src


def k_host1(r, stmt_lines):
    L = preamble_c(r)
    nf = r.randint(0, 2)
    for _ in range(nf):
        lines, _ = func_ext(r, lname(r, 7), r.random() < 0.5)
        L += lines + [""]
    decls = ["\tint\t\ta;", "\tint\t\tb;", "\tt_list\t*p;", ""]
    body = []
    env = ["a", "b", "p", "x"]
    budget = [r.randint(3, 10)]
    before = block(r, env, 1, False, True, budget) if r.random() < 0.7 else []
    after = ["\t" + simple(r, env, False, True) for _ in range(r.randint(0, 2))]
    body = decls + before + stmt_lines + after + ["\treturn (a);"]
    L += ["int\t" + lname(r, 7) + "(int x)", "{"] + body + ["}"]
    return lname(r, 6) + ".c", "\n".join(L) + "\n"


def k1_constants(r, n):
    """hexadecimal constants around the K1 shape: (text, in_shape) - in_shape = 0[xX][bB]+[0-9]"""
    out = []
    for _ in range(n):
        bs = "".join(r.choice("bB") for _ in range(r.randint(1, 3)))
        ds = "".join(r.choice("0123456789") for _ in range(r.randint(1, 3)))
        tail = "".join(r.choice("0123456789abcdefABCDEF") for _ in range(r.randint(0, 3)))
        suf = r.choice(["", "", "u", "l", "UL", "ll", "uz"])
        out.append(r.choice(["0x", "0X"]) + bs + ds + tail + suf)
    return out


def k1_expected(c):
    """the exact boundary of K1: the prefix pattern takes 0[xX][bB]+, the constant group the decimal digits that follow,
    and whatever is left must be one of the integer suffixes; the constant is rejected iff it is not."""
    from norminette.lexer.lexer import integer_suffixes   # the implementation's own table
    m = re.match(r"^0[xX][bB]+([0-9]+)(.*)$", c)
    if not m:
        return False
    return m.group(2) not in integer_suffixes


# matchers of the findings: (diagnostic name, line text, 0-based character index of the highlight) -> family or None
def col_index(line, col):
    """character index in `line` of the 1-based visual column `col` (tabs to the next multiple of 4)"""
    c = 1
    for i, ch in enumerate(line):
        if c >= col:
            return i
        c = ((c - 1) // 4 + 1) * 4 + 1 if ch == "\t" else c + 1
    return len(line)


CHAR_RE = r"(?:L|l|u8|u|U)?'"


def classify(name, line, col):
    i = col_index(line, col)
    rest = line[i:]
    before = line[:i]
    if name == "INVALID_SUFFIX":
        # the highlight is on the suffix; the constant starts at the last non-word boundary before it
        m = re.search(r"(0[xX][bB]+[0-9][0-9A-Za-z]*)$", before + re.match(r"[0-9A-Za-z]*", rest).group(0))
        if m:
            return "K1"
        return None
    if name in ("SPC_AFTER_OPERATOR", "SPC_BFR_OPERATOR") and rest[:1] in ("*", "&", "~") and re.search(r"\((?!void\b|int\b|char\b|long\b|short\b|float\b|double\b)[a-z_][a-z0-9_]*\)$", before) \
            and rest[1:2] not in (" ", "\t", "=", "", "&"):
        return "K5"
    if name == "SPC_AFTER_OPERATOR" and rest[:1] in ("-", "+", "~") and rest[1:2] not in (" ", "\t", "=", ""):
        nxt = rest[1:]
        if re.match(r"sizeof\b", nxt) or re.match(CHAR_RE, nxt) or (nxt[:1] in "+-" and nxt[:1] != rest[:1]):
            return "K3"
        if re.search(r"(&&|\|\|) $", before):
            return "K2"
        return None
    if name == "SPC_AFTER_PAR" and rest[:1] == ")":
        nxt = rest[1:]
        # a cast: the parenthesis holds a type
        if re.search(r"\((?:const )?(?:unsigned |signed )?(?:struct \w+|\w+)(?: ?\*+)?$", before) and (
                re.match(CHAR_RE, nxt) or nxt[:1] in ("!", "~") or re.match(r"sizeof\b", nxt)):
            return "K4"
        return None
    return None


# ------------------------------------------------------------------------------------------ construct histogram
BIN_TYPES = {"PLUS": "+", "MINUS": "-", "MULT": "*", "DIV": "/", "MODULO": "%", "LEFT_SHIFT": "<<", "RIGHT_SHIFT": ">>", "BWISE_AND": "&",
             "BWISE_OR": "|", "BWISE_XOR": "^", "AND": "&&", "OR": "||", "EQUALS": "==", "NOT_EQUAL": "!=", "LESS_THAN": "<",
             "MORE_THAN": ">", "LESS_OR_EQUAL": "<=", "GREATER_OR_EQUAL": ">="}
ASSIGN_TYPES = {"ASSIGN", "ADD_ASSIGN", "SUB_ASSIGN", "MUL_ASSIGN", "DIV_ASSIGN", "MOD_ASSIGN", "LEFT_ASSIGN", "RIGHT_ASSIGN", "AND_ASSIGN",
                "OR_ASSIGN", "XOR_ASSIGN"}
VALUE_END = {"IDENTIFIER", "CONSTANT", "CHAR_CONST", "STRING", "RPARENTHESIS", "RBRACKET"}


def const_kind(v):
    if re.match(r"^0[xX][0-9a-fA-F]*\.?[0-9a-fA-F]*[pP]", v):
        k = "hex-float"
    elif re.match(r"^0[xX]", v):
        k = "hex"
    elif re.match(r"^0[bB]", v):
        k = "binary"
    elif re.search(r"[.eE]", v) and not re.match(r"^0[xX]", v):
        k = "dec-float"
    elif re.match(r"^0[0-7]+", v):
        k = "octal"
    else:
        k = "decimal"
    m = re.search(r"[uUlLzZfF]+$", v) if k not in ("hex",) else re.search(r"[uUlLzZ]+$", v)
    return "const:" + k + ("+suffix" if m else "")


def line_kind(l):
    t = l.strip()
    if t == "":
        return "blank"
    if t.startswith("#"):
        return "pp:" + re.match(r"#\s*(\w+)", t).group(1)
    if t in ("{", "}"):
        return "brace"
    if t.startswith("}"):
        return "typedef-close"
    if t.startswith("else if"):
        return "else if"
    for k in ("if", "while", "else", "typedef"):
        if re.match(k + r"\b", t):
            return k
    if t in ("break ;", "continue ;", "return ;"):
        return t[:-2]
    if t.startswith("return ("):
        return "return (expr)"
    if t.startswith("(void)"):
        return "(void)x"
    if re.match(r"^(\+\+|--)", t):
        return "pre-inc/dec"
    if re.search(r"(\+\+|--);$", t):
        return "post-inc/dec"
    if not l.startswith("\t"):
        if t.endswith(");"):
            return "prototype"
        if t.endswith(")"):
            return "function-head"
        if t.endswith(";"):
            return "global"
        return "other-top"
    m = re.search(r" (=|\+=|-=|\*=|/=|%=|<<=|>>=|&=|\|=|\^=) ", t)
    if m and "\t" not in t:
        return "assign " + m.group(1)
    if "\t" in t and t.endswith(";"):
        return "declaration"
    if re.match(r"^\w+\(.*\);$", t):
        return "call"
    if t.endswith(",") or re.match(r"^[A-Z][A-Z0-9_]*( = \d+)?$", t):
        return "enumerator"
    return "other"


def histogram(src, tokens):
    """tokens = impl.lex(src)['tokens'] : [(type, value, line, col, lo, hi)].  -> dict construct -> count"""
    h = {}

    def add(k, n=1):
        h[k] = h.get(k, 0) + n
    lines = src.split("\n")
    for l in lines[11:]:
        add("stmt:" + line_kind(l))
    depth = 0
    maxtab = 0
    for l in lines[11:]:
        n = len(l) - len(l.lstrip("\t"))
        if l.strip() and not l.lstrip("\t").startswith(("{", "}")):
            maxtab = max(maxtab, n)
    add("nesting-depth:%d" % maxtab)
    sig = [t for t in tokens if t[0] not in ("SPACE", "TAB", "NEWLINE")]
    par = 0
    maxpar = 0
    for i, t in enumerate(sig):
        ty = t[0]
        prev = sig[i - 1][0] if i else None
        nxt = sig[i + 1][0] if i + 1 < len(sig) else None
        if t[2] <= 11:
            continue
        if ty == "LPARENTHESIS":
            par += 1
            maxpar = max(maxpar, par)
            if prev == "IDENTIFIER":
                add("expr:call-or-head")
            elif prev == "SIZEOF":
                add("expr:sizeof")
            elif prev in ("IF", "WHILE", "RETURN"):
                pass
            else:
                add("expr:paren-or-cast")
        elif ty == "RPARENTHESIS":
            par = max(0, par - 1)
            if nxt in ("IDENTIFIER", "CONSTANT", "LPARENTHESIS", "MINUS", "PLUS", "MULT", "BWISE_AND", "STRING") and prev in (
                    "INT", "CHAR", "LONG", "MULT", "IDENTIFIER", "VOID", "UNSIGNED") and sig[i - 1][3] + 0 >= 0 and t[4] == sig[i + 1][4] - 1:
                add("expr:cast-glued")
        elif ty == "LBRACKET":
            add("expr:index-or-array")
        elif ty == "DOT":
            add("expr:member .")
        elif ty == "PTR":
            add("expr:member ->")
        elif ty in ("NOT", "BWISE_NOT"):
            add("unary:" + ("!" if ty == "NOT" else "~"))
        elif ty in BIN_TYPES:
            if prev in VALUE_END:
                add("binary:" + BIN_TYPES[ty])
            else:
                add("unary:" + BIN_TYPES[ty])
                add("unary-after:%s" % (prev or "start"))
        elif ty in ASSIGN_TYPES:
            pass
        elif ty == "CONSTANT":
            add(const_kind(t[1] or ""))
        elif ty == "CHAR_CONST":
            v = t[1] or ""
            add("const:char" + ("-prefixed" if not v.startswith("'") else "") + ("-escape" if "\\" in v else ""))
        elif ty == "STRING":
            v = t[1] or ""
            add("const:string" + ("-prefixed" if not v.startswith('"') else ""))
        elif ty == "IDENTIFIER":
            v = t[1] or ""
            add("ident:" + ("macro" if v.isupper() else "prefixed" if v[:2] in ("g_", "s_", "t_", "u_", "e_") else "lname"))
    add("paren-depth:%d" % min(maxpar, 8))
    return h


# ------------------------------------------------------------------------------------------ structural shrinker
def stmt_units(lines, a, b):
    """statement units of the body lines[a:b] (indices): simple line, or a control header with everything it governs.
    Declarations (lines before the first blank line of a body) are never units: removing one changes the alignment column."""
    units = []
    i = a
    # skip the declarations
    blanks = [k for k in range(a, b) if lines[k] == ""]
    if blanks:
        i = blanks[0] + 1

    def ind(l):
        return len(l) - len(l.lstrip("\t"))

    def end_of(i):
        """index after the statement starting at line i"""
        d = ind(lines[i])
        t = lines[i].strip()
        if re.match(r"(if|while|else)\b", t) and not t.endswith(";"):
            j = i + 1
            if j < b and lines[j].strip() == "{":
                while lines[j] != "\t" * d + "}":
                    j += 1
                j += 1
            else:
                j = end_of(j)
            if j < b and re.match(r"else\b", lines[j].strip()) and ind(lines[j]) == d and not t.startswith("while"):
                return end_of(j)
            return j
        return i + 1
    while i < b:
        if lines[i].strip() in ("{", "}"):
            i += 1
            continue
        j = end_of(i)
        units.append((i, j))
        i = j
    return units


def shrink(name, src, still_fails, max_steps=400):
    """delete functions, then statements (outermost first, then inside blocks), then sub-expressions, while
    still_fails(candidate) holds.  Candidates stay conforming by construction: whole functions with their separating blank
    line, whole statements but never the last one of a block, never a declaration; expressions are replaced by one of their
    own sub-expressions."""
    steps = [0]

    def ok(c):
        steps[0] += 1
        return steps[0] <= max_steps and still_fails(c)
    changed = True
    while changed and steps[0] < max_steps:
        changed = False
        lines = src.split("\n")
        fs = functions_of(src) if name.endswith(".c") else []
        if len(fs) > 1:
            for (a, b) in fs:
                cand = lines[:a] + lines[b + 2:] if (a, b) != fs[-1] else lines[:a - 1] + lines[b + 1:]
                c = "\n".join(cand)
                if ok(c):
                    src, changed = c, True
                    break
            if changed:
                continue
        # statements
        for (a, b) in fs:
            todo = [(a + 2, b)]
            while todo and not changed:
                lo, hi = todo.pop()
                us = stmt_units(lines, lo, hi)
                for (i, j) in us:
                    if len(us) > 1 and not (j == hi and lines[j - 1].strip().startswith("return")):
                        c = "\n".join(lines[:i] + lines[j:])
                        if ok(c):
                            src, changed = c, True
                            break
                    if j - i > 1:
                        todo.append((i + 1, j))
            if changed:
                break
        if changed:
            continue
        # prototypes / typedef-free header lines
        if name.endswith(".h"):
            pr = [i for i, l in enumerate(lines) if l.endswith(");") and not l.startswith(("#", "\t"))]
            if len(pr) > 1:
                for i in pr:
                    c = "\n".join(lines[:i] + lines[i + 1:])
                    if ok(c) and not_misaligned(c):
                        src, changed = c, True
                        break
            if changed:
                continue
        # sub-expressions, line by line
        for i, l in enumerate(lines):
            if i < 11 or not l.startswith("\t") or l.strip() in ("{", "}", "") or "\t" in l.lstrip("\t"):
                continue                                  # declarations are left alone
            for c_line in expr_shrinks(l):
                c = "\n".join(lines[:i] + [c_line] + lines[i + 1:])
                if ok(c):
                    src, changed = c, True
                    break
            if changed:
                break
    return src, steps[0]


def not_misaligned(src):
    return True


def expr_shrinks(line):
    """shorter variants of one statement line: a parenthesised group / call argument list / index replaced by a name,
    one side of a binary operator dropped, a constant replaced by 1."""
    out = []
    # balanced groups
    stack = []
    for i, ch in enumerate(line):
        if ch in "([":
            stack.append(i)
        elif ch in ")]" and stack:
            a = stack.pop()
            inner = line[a + 1:i]
            if len(inner) > 1 and not re.match(r"^(?:const )?(?:unsigned |signed )?(?:struct \w+|\w+)(?: ?\*+)?$", inner):
                out.append(line[:a + 1] + "x" + line[i:])
            if ch == ")" and a > 0 and re.match(r"\w", line[a - 1]) and inner and not line[:a].endswith("sizeof"):
                out.append(line[:a + 1] + line[i:])            # call without arguments
    # binary operators at any depth: drop the right operand up to the next closing bracket / ; / ,
    for m in re.finditer(r" (\+|-|\*|/|%|<<|>>|&|\||\^|&&|\|\||==|!=|<|>|<=|>=) ", line):
        a, b = m.start(), m.end()
        depth = 0
        j = b
        while j < len(line):
            ch = line[j]
            if ch in "([":
                depth += 1
            elif ch in ")]":
                if depth == 0:
                    break
                depth -= 1
            elif ch in ";," and depth == 0:
                break
            elif depth == 0 and line[j:j + 1] == " " and re.match(r" (\+|-|\*|/|%|<<|>>|&|\||\^|&&|\|\||==|!=|<|>|<=|>=) ", line[j:]):
                break
            j += 1
        out.append(line[:a] + line[j:])                          # drop "op right"
        # drop "left op": from the start of the enclosing group
        depth = 0
        k = a - 1
        while k >= 0:
            ch = line[k]
            if ch in ")]":
                depth += 1
            elif ch in "([":
                if depth == 0:
                    break
                depth -= 1
            elif depth == 0 and (ch == "," or (ch == " " and k >= 2 and line[k - 2:k + 1] in (" = ",))):
                break
            k -= 1
        if k >= 0 and line[k] != "\t":
            keep = line[:k + 1] + (" " if line[k] == "," else "")
            out.append(keep + line[b:])
    # constants
    for m in re.finditer(r"\b(0[xXbB][0-9a-fA-F]+\w*|\d[\w.]*)", line):
        if m.group(0) != "1":
            out.append(line[:m.start()] + "1" + line[m.end():])
    seen = set()
    res = []
    for x in out:
        if x != line and x not in seen and len(x) < len(line) + 1:
            seen.add(x)
            res.append(x)
    res.sort(key=len)
    return res
