"""C03 - numeric limits are enforced exactly at their boundary.
Theorems: Props/C03.v (line width vs token columns for every source text; CheckLineLen model; limits and fingerprints
regenerated from the source).  This check: the COMPLETE boundary family - every limit L in {80 columns, 25 lines,
5 functions, 4 parameters, 5 variables}, every n in [L-3, L+6], every generated context - on the implementation, with the
iff evaluated; plus correspondence of the width specification and of the CheckLineLen / CheckCommentLineLen models with
the implementation on every generated file."""
import itertools
import multiprocessing as mp
import os

import common
import impl
from common import Enc

HDR = impl.HDR if impl.HDR.endswith("\n") else impl.HDR + "\n"


def vis(line):
    return len(line.expandtabs(4))


def pad_to(prefix, n, suffix="", fill="a"):
    """prefix + fill* + suffix of visual width exactly n (None when impossible)"""
    base = vis(prefix + suffix) if "\t" not in suffix else None
    k = n - vis(prefix) - len(suffix)
    if k < 1:
        return None
    line = prefix + fill * k + suffix
    return line if vis(line) == n else None


FUNC_HEAD = "int\tmain(void)\n{\n"
FUNC_TAIL = "\treturn (0);\n}\n"


def in_func(lines):
    return HDR + "\n" + FUNC_HEAD + "".join(l + "\n" for l in lines) + FUNC_TAIL


def width_cases():
    """-> [(label, name, src, target line number, n)]"""
    out = []
    for n in range(77, 87):
        # ---- code lines at depth 1..3 (inside nested while blocks), tabs in front, tabs inside
        for depth in (1, 2, 3):
            pre, post = [], []
            for d in range(1, depth):
                pre += ["\t" * d + "while (x)", "\t" * d + "{"]
                post = ["\t" * d + "}"] + post
            for kind, prefix, suffix in (("code", "\t" * depth + "x = ", ";"), ("code-midtab", "\t" * depth + "x\t=\t", ";"),
                                         ("code-call", "\t" * depth + "ft_f(", ");")):
                line = pad_to(prefix, n, suffix)
                if line is None:
                    continue
                body = ["\tx = 0;"] + pre + [line] + post
                src = in_func(body)
                ln = 11 + 1 + 2 + 1 + len(pre) + 1
                out.append(("%s depth %d" % (kind, depth), "a.c", src, ln, n))
        # ---- // comment lines: global scope, tabs inside the comment
        for kind, prefix in (("line-comment", "// "), ("line-comment-tab", "//\tb\t"), ("line-comment-indented", "\t// ")):
            line = pad_to(prefix, n)
            if line is None:
                continue
            for where in ("before-func", "after-func", "first-line", "last-no-nl"):
                if where == "before-func":
                    src = HDR + "\n" + line + "\n" + FUNC_HEAD + FUNC_TAIL
                    ln = 13
                elif where == "after-func":
                    src = HDR + "\n" + FUNC_HEAD + FUNC_TAIL + line + "\n"
                    ln = 12 + 4 + 1
                elif where == "first-line":
                    src = line + "\n" + FUNC_HEAD + FUNC_TAIL
                    ln = 1
                else:
                    src = HDR + "\n" + FUNC_HEAD + FUNC_TAIL + line
                    ln = 12 + 4 + 1
                out.append(("%s %s" % (kind, where), "a.c", src, ln, n))
        # ---- block comments: first, interior, last line; tabs inside
        for kind, prefix in (("block", ""), ("block-tab", "\tb\t")):
            first = pad_to("/* " + prefix, n)
            inter = pad_to("** " + prefix, n)
            last = pad_to("** " + prefix, n, " */")
            single = pad_to("/* " + prefix, n, " */")
            for where in ("global", "last-no-nl"):
                tail = "" if where == "last-no-nl" else "\n" + FUNC_HEAD + FUNC_TAIL
                base = HDR + "\n"
                if first:
                    out.append(("%s first line %s" % (kind, where), "a.c", base + first + "\n** b\n*/" + tail, 13, n))
                if inter:
                    out.append(("%s interior line %s" % (kind, where), "a.c", base + "/*\n" + inter + "\n*/" + tail, 14, n))
                if last:
                    out.append(("%s last line %s" % (kind, where), "a.c", base + "/*\n** b\n" + last + tail, 15, n))
                if single:
                    out.append(("%s single line %s" % (kind, where), "a.c", base + single + tail, 13, n))
        # ---- a code line as the last line of the file, with and without final newline; a header file
        line = pad_to("int\tg_", n, ";")
        if line:
            out.append(("global declaration last line with newline", "a.c", HDR + "\n" + line + "\n", 13, n))
            out.append(("global declaration last line without newline", "a.c", HDR + "\n" + line, 13, n))
        line = pad_to("# define A_", n, " 1")
        if line:
            out.append(("define in header", "a.h", HDR + "\n#ifndef A_H\n# define A_H\n\n" + line + "\n\n#endif\n", 16, n))
    return out


def body_lines(n, shape):
    """n body lines (between the braces of the function), in several shapes"""
    if shape == "flat":
        return ["\tx = %d;" % i for i in range(n)]
    if shape == "decl":
        return ["\tint\tx;", ""] + ["\tx = %d;" % i for i in range(n - 2)]
    if shape == "nested":
        inner = n - 3
        return ["\twhile (x)", "\t{"] + ["\t\tx = %d;" % i for i in range(inner)] + ["\t}"]
    if shape == "deep":
        # while { if { ... } else ... }
        inner = n - 8
        return (["\twhile (x)", "\t{", "\t\tif (x)", "\t\t{"] + ["\t\t\tx = %d;" % i for i in range(inner)]
                + ["\t\t}", "\t\telse", "\t\t\tx = 0;", "\t}"])
    if shape in ("chain2", "chain3", "elseif-chain", "chain-in-block"):
        # nested brace-less control structures that all end on the same instruction, each one tab deeper
        if shape == "chain2":
            chain = ["\twhile (x)", "\t\tif (x)", "\t\t\tx = 1;"]
        elif shape == "chain3":
            chain = ["\twhile (x)", "\t\tif (x)", "\t\t\twhile (x)", "\t\t\t\tx = 1;"]
        elif shape == "elseif-chain":
            chain = ["\tif (x)", "\t\tx = 2;", "\telse if (x)", "\t\twhile (x)", "\t\t\tx = 1;"]
        else:
            chain = ["\twhile (x)", "\t{", "\t\tif (x)", "\t\t\twhile (x)", "\t\t\t\tx = 1;", "\t}"]
        k = n - len(chain)
        half = k // 2
        return ["\tx = %d;" % i for i in range(half)] + chain + ["\tx = %d;" % i for i in range(k - half)]
    if shape == "braceless":
        k = (n - 1) // 2
        out = []
        for i in range(k):
            out += ["\tif (x)", "\t\tx = %d;" % i]
        return out + ["\tx = 0;"] * (n - 2 * k)
    raise ValueError(shape)


def small_func(i, body=None):
    return "int\tf%d(void)\n{\n" % i + "".join(l + "\n" for l in (body or ["\treturn (%d);" % i])) + "}\n"


def count_cases():
    out = []
    # ---- 25 lines: n in 22..31, shapes x position of the function among others
    for n in range(22, 32):
        for shape in ("flat", "decl", "nested", "deep", "braceless", "chain2", "chain3", "elseif-chain", "chain-in-block"):
            for idx, total in ((0, 1), (1, 3), (4, 5)):
                funcs = [small_func(i) for i in range(total)]
                funcs[idx] = "int\tf%d(int x)\n{\n" % idx + "".join(l + "\n" for l in body_lines(n, shape)) + "}\n"
                src = HDR + "\n" + "\n".join(funcs)
                out.append(("lines", "%s, function %d of %d" % (shape, idx + 1, total), "a.c", src, n, 25, "TOO_MANY_LINES"))
    # ---- 5 functions: k in 2..11, with and without static prototypes / globals in between
    for k in range(2, 12):
        for extra in ("plain", "with-prototypes", "static"):
            parts = []
            if extra == "with-prototypes":
                parts.append("".join("static int\tf%d(void);\n" % i for i in range(min(k, 3))))
            for i in range(k):
                f = small_func(i)
                if extra == "static" and i % 2:
                    f = "static " + f
                parts.append(f)
            src = HDR + "\n" + "\n".join(parts)
            out.append(("functions", extra, "a.c", src, k, 5, "TOO_MANY_FUNCS"))
    # ---- 4 parameters: p in 1..10
    types = ["int ", "char *", "unsigned int ", "char **", "long ", "const char *", "t_list *", "size_t ", "int ", "char "]
    for p in range(1, 11):
        for kind in ("definition", "second-function", "prototype-in-header", "void-pointer-first", "void-pointer-last", "static-void-pp-first",
                     "prototype-void-pointer-first", "wrapped-1-definition", "wrapped-2-definition", "wrapped-4-definition",
                     "wrapped-1-prototype", "wrapped-3-prototype"):
            tl = list(types)
            if "void-pointer-first" in kind:
                tl[0] = "void *"
            if kind == "static-void-pp-first":
                tl[0] = "void **"
            if kind == "void-pointer-last":
                tl[p - 1] = "void *"
            params = ", ".join(tl[i] + "p%d" % i for i in range(p))
            if kind.startswith("wrapped"):
                # the parameter list continues on a second line after the j-th comma
                j = int(kind.split("-")[1])
                if j >= p:
                    continue
                params = ", ".join(tl[i] + "p%d" % i for i in range(j)) + ",\n\t\t" + ", ".join(tl[i] + "p%d" % i for i in range(j, p))
            if kind in ("definition", "void-pointer-first", "void-pointer-last") or kind.endswith("-definition"):
                src = HDR + "\n" + "int\tf(%s)\n{\n\treturn (0);\n}\n" % params
                name = "a.c"
            elif kind == "static-void-pp-first":
                src = HDR + "\n" + "static int\tf(%s)\n{\n\treturn (0);\n}\n" % params
                name = "a.c"
            elif kind == "second-function":
                src = HDR + "\n" + small_func(0) + "\n" + "int\tf(%s)\n{\n\treturn (0);\n}\n" % params
                name = "a.c"
            else:
                src = HDR + "\n#ifndef A_H\n# define A_H\n\nint\tf(%s);\n\n#endif\n" % params
                name = "a.h"

            out.append(("parameters", kind, name, src, p, 4, "TOO_MANY_ARGS"))
    # ---- 5 variables: v in 2..11; a second function with its own 5 (the counter is per function)
    vtypes = ["int", "char", "int", "long", "char", "int", "long", "char", "int", "int", "char"]
    for v in range(2, 12):
        for kind in ("plain", "pointers-arrays", "after-full-function"):
            decls = []
            for i in range(v):
                d = "v%d" % i
                if kind == "pointers-arrays":
                    d = ["*v%d", "v%d[4]", "**v%d", "v%d"][i % 4] % i
                decls.append("\t%s\t%s;" % (vtypes[i], d))
            body = decls + ["", "\treturn (0);"]
            funcs = []
            if kind == "after-full-function":
                funcs.append(small_func(9, ["\t%s\tw%d;" % (vtypes[i], i) for i in range(5)] + ["", "\treturn (0);"]))
            funcs.append(small_func(0, body))
            src = HDR + "\n" + "\n".join(funcs)
            out.append(("variables", kind, "a.c", src, v, 5, "TOO_MANY_VARS_FUNC"))
    return out


def _init():
    common.ensure_impl_path()


def _analyse(args):
    src, name = args
    r = impl.analyse(src, name)
    lx = impl.lex(src, name)
    return r, lx


def run(run, tier, seed, replay=None):
    b = common.build(["C03"])
    run.build = b
    found = False
    have_drv = b.driver_ok and os.path.exists(os.path.join(common.BUILD, "nvdriver"))
    drv = common.Driver() if have_drv else None
    wc = width_cases()
    cc = count_cases()
    if replay is not None:
        d = replay["data"]
        wc = [c for c in wc if c[2] == d.get("src")]
        cc = [c for c in cc if c[3] == d.get("src")]
    step = 1 if tier == "thorough" or replay is not None else 1      # the family is small: always enumerated completely
    wc, cc = wc[::step], cc[::step]
    jobs = [(c[2], c[1]) for c in wc] + [(c[3], c[2]) for c in cc]
    with mp.Pool(common.NPROC, initializer=_init) as pool:
        res = pool.map(_analyse, jobs, chunksize=8)
    wres, cres = res[:len(wc)], res[len(wc):]
    hist = {}
    # ------------------------------------------------------------- line width
    for (label, name, src, ln, n), (r, lx) in zip(wc, wres):
        hist["width:" + label.split(" ")[0]] = hist.get("width:" + label.split(" ")[0], 0) + 1
        data = {"context": label, "name": name, "src": src, "line": ln, "width": n}
        lines = src.split("\n")
        if vis(lines[ln - 1]) != n:
            raise RuntimeError("generator: line %d of %r has width %d, not %d" % (ln, label, vis(lines[ln - 1]), n))
        if r["kind"] != "ok":
            found |= run.violation("boundary-file-not-analysed", dict(data, result=r))
            continue
        reported = any(d[0] == "LINE_TOO_LONG" and any(h[0] == ln for h in d[3]) for d in r["diags"])
        if reported != (n > 80):
            fid = None
            if n > 80 and not reported and ("no-nl" in label or "without newline" in label):
                fid = "C03-last-line-no-newline"
            found |= run.violation("line-length-boundary", dict(data, reported=reported, expected=n > 80,
                                                               diags=[(d[0], d[3][0][:2]) for d in r["diags"] if d[3]]), finding_id=fid)
        # other lines of these files are <= 80 wide: no LINE_TOO_LONG anywhere else
        for d in r["diags"]:
            if d[0] == "LINE_TOO_LONG" and d[3] and d[3][0][0] != ln and vis(lines[d[3][0][0] - 1]) <= 80:
                found |= run.violation("line-length-boundary", dict(data, spurious_line=d[3][0][0]))
        # correspondence: the width specification and the CheckLineLen model against the real tokens / report
        if drv is not None and lx["kind"] == "ok":
            w = drv.call("width", Enc().str(lines[ln - 1])).z()
            if w != n:
                found |= run.violation("correspondence-width-spec", dict(data, model_width=w))
            e = Enc()
            e.list(lx["tokens"], lambda t: (e.z(t[2]), e.z(t[3])))
            dd = drv.call("linelen", e)
            model_lines = sorted(set(x[0] for x in dd.list(lambda: (dd.z(), dd.z()))))
            impl_lines = sorted(set(h[0] for d in r["diags"] if d[0] == "LINE_TOO_LONG" for h in d[3][:1] if h[1] > 81))
            if model_lines != impl_lines:
                found |= run.violation("correspondence-check-line-len", dict(data, model=model_lines, impl=impl_lines))
            # block comments: the model of CheckCommentLineLen on the real comment tokens
            for t in lx["tokens"]:
                if t[0] == "MULT_COMMENT":
                    dd = drv.call("blockcomment", Enc().z(t[2]).z(t[3]).str(t[1]))
                    ml = sorted(set(dd.list(dd.z)))
                    il = sorted(set(h[0] for d in r["diags"] if d[0] == "LINE_TOO_LONG" for h in d[3][:1]
                                    if h[1] == 1 and t[2] <= h[0] <= t[2] + t[1].count("\n")))
                    # a comment starting in column 1 whose first line is long is reported at (line, 1) by both checks
                    if not set(ml) <= set(il) | {t[2]} or not set(il) <= set(ml) | {t[2]}:
                        found |= run.violation("correspondence-check-comment-line-len", dict(data, model=ml, impl=il))
    run.count("line width n in 77..86 x {code (3 forms, depth 1..3), // comment (3 forms x 4 positions), block comment first/interior/last/single "
              "(with tabs, with/without final newline), global declaration last line, #define in a header}", len(wc), len(wc))
    # ------------------------------------------------------------- counters
    for (limit, ctx, name, src, n, L, code), (r, lx) in zip(cc, cres):
        hist["count:" + limit] = hist.get("count:" + limit, 0) + 1
        data = {"limit": limit, "context": ctx, "name": name, "src": src, "n": n, "L": L}
        if r["kind"] != "ok":
            found |= run.violation("boundary-file-not-analysed", dict(data, result=r))
            continue
        reported = any(d[0] == code for d in r["diags"])
        if reported != (n > L):
            found |= run.violation("limit-boundary", dict(data, code=code, reported=reported, expected=n > L,
                                                         diags=[(d[0], d[3][0][:2]) for d in r["diags"] if d[3]]))
        if limit == "functions" and n > L:
            # one diagnostic per function beyond the fifth
            k = sum(1 for d in r["diags"] if d[0] == code)
            if k != n - L:
                found |= run.violation("limit-boundary", dict(data, code=code, count=k, expected_count=n - L))
    run.count("counters: body lines 22..31 x 9 shapes (incl. chains of nested brace-less structures) x 3 positions; functions 2..11 x 3 forms; parameters 1..10 x 12 forms (void pointer first/last, static, prototype, list wrapped over two lines); variables 2..11 x 3 forms",
              len(cc), len(cc))
    # ------------------------------------------------------------- scope-trace model (25 lines, depth) vs implementation
    sstats = {}
    if replay is None and b.make_ok:
        import random as _random
        import family
        import scopecorr
        rnd = _random.Random(seed)
        progs = [(c[2], c[3]) for c in count_cases()] + [family.program(rnd) for _ in range(60 if tier == "quick" else 600)]
        progs += scopecorr.variants(progs[::5], rnd)
        sfound, sstats = scopecorr.check(run, b, progs)
        found |= sfound
    if wc:
        run.sample({"context": wc[len(wc) // 2][0], "width": wc[len(wc) // 2][4], "line": wc[len(wc) // 2][2].split("\n")[wc[len(wc) // 2][3] - 1]})
    if cc:
        run.sample({"limit": cc[0][0], "context": cc[0][1], "n": cc[0][4]})
    if drv:
        drv.close()
    run.cov["c03_histogram"] = hist
    common.broken_obligations(run, b, found)
    disc = sum(1 for t in b.theorems if t not in b.open_assumptions) if b.make_ok else 0
    return run.finish(max(len(b.theorems), 7), disc,
                      "the complete boundary family: every limit L in {80 columns, 25 lines, 5 functions, 4 parameters, 5 variables}, every "
                      "n in [L-3, L+6] and every generated context (kind of line, position in the file, mix of tabs and text, with/without "
                      "final newline, surrounding functions, nesting inside the function); each file is analysed by the implementation and "
                      "`reported <-> n > L` is evaluated on the exact line / function; the width specification (extracted line_width), the "
                      "CheckLineLen model and the CheckCommentLineLen model are compared with the implementation on every file; "
                      "non-trivial = every case (each sits within 6 of a limit)",
                      extra={"exhaustive": replay is None, "scope_trace_correspondence": sstats},
                      assumptions=["the counters behind functions/parameters/variables are searched, not modelled; the line counter is "
                                   "modelled (Model/ScopeTrace.v over Gen/ScopeOps.v) and compared with the implementation after every statement"])
