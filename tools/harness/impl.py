"""Running the implementation (/repo's norminette) from the harness: no source hooks, the
observation points are reached by plain attribute access / wrapping from outside."""
import contextlib
import io
import os
import signal
import subprocess
import sys
import traceback

from common import REPO, PY, env_impl, ensure_impl_path, VERIF

ensure_impl_path()

HDR = open(os.path.join(VERIF, "tools", "harness", "data", "hdr.txt")).read()


class Timeout(Exception):
    pass


def _alarm(signum, frame):
    raise Timeout()


@contextlib.contextmanager
def time_limit(seconds):
    """`seconds` of CPU time of this process (an endless loop of the analysed code burns CPU; a machine that is
    merely busy must not look like a hang), with a wall-clock backstop thirty times as long."""
    old = signal.signal(signal.SIGALRM, _alarm)
    oldp = signal.signal(signal.SIGPROF, _alarm)
    signal.setitimer(signal.ITIMER_PROF, seconds)
    signal.setitimer(signal.ITIMER_REAL, seconds * 30)
    try:
        yield
    finally:
        signal.setitimer(signal.ITIMER_PROF, 0)
        signal.setitimer(signal.ITIMER_REAL, 0)
        signal.signal(signal.SIGPROF, oldp)
        signal.signal(signal.SIGALRM, old)


def innermost_frame(tb):
    """(file, function) of the innermost norminette frame of a traceback; frames of the generic helpers
    (errors.py, Context.new_error / new_warning / peek_token) are skipped in favour of their caller, so that
    the site that misused them is named."""
    frames = []
    for fr, _ in traceback.walk_tb(tb):
        fn = fr.f_code.co_filename
        if "/norminette/" in fn:
            frames.append((os.path.relpath(fn, REPO), fr.f_code.co_name))
    generic = {("norminette/errors.py", "from_token"), ("norminette/context.py", "new_error"),
               ("norminette/context.py", "new_warning"), ("norminette/context.py", "peek_token")}
    while len(frames) > 1 and frames[-1] in generic:
        frames.pop()
    return frames[-1] if frames else None


def diag_tuple(e):
    return (e.name, e.text, e.level, [(h.lineno, h.column, h.length, h.hint) for h in e.highlights])


def lex(source, name="a.c", limit=5.0):
    """-> dict(kind='ok', tokens=[(type,value,line,col,lo,hi)], diags=[...]) or kind='exc'/'timeout'."""
    from norminette.file import File
    from norminette.lexer import Lexer
    f = File(name, source)
    lx = Lexer(f)
    toks = []
    try:
        with time_limit(limit):
            while True:
                lo = lx._Lexer__pos
                t = lx.get_next_token()
                hi = lx._Lexer__pos
                if t is None:
                    end = (lo, hi)
                    break
                toks.append((t.type, t.value, t.pos[0], t.pos[1], lo, hi))
    except Timeout:
        return {"kind": "timeout"}
    except BaseException as e:  # noqa
        if isinstance(e, KeyboardInterrupt):
            raise
        return {"kind": "exc", "exc": type(e).__name__, "frame": innermost_frame(e.__traceback__),
                "tokens": toks, "diags": [diag_tuple(x) for x in f.errors._inner]}
    return {"kind": "ok", "tokens": toks, "diags": [diag_tuple(x) for x in f.errors._inner], "end": end}


def analyse(source, name="a.c", debug=0, R=None, limit=5.0, sort=True):
    """Lexer + Registry.run as main() does it.  -> dict(kind=ok|fatal|exc|timeout, diags=[...], status=...)"""
    from norminette.file import File
    from norminette.lexer import Lexer
    from norminette.context import Context
    from norminette.registry import Registry
    from norminette.exceptions import CParsingError
    f = File(name, source)
    out = io.StringIO()
    try:
        with time_limit(limit), contextlib.redirect_stdout(out):
            tokens = list(Lexer(f))
            ctx = Context(f, tokens, debug, R)
            Registry().run(ctx)
    except Timeout:
        return {"kind": "timeout"}
    except CParsingError as e:
        return {"kind": "fatal", "msg": e.msg, "diags": [diag_tuple(x) for x in f.errors._inner]}
    except BaseException as e:  # noqa
        if isinstance(e, KeyboardInterrupt):
            raise
        return {"kind": "exc", "exc": type(e).__name__, "frame": innermost_frame(e.__traceback__),
                "msg": str(e)[:200]}
    ds = list(f.errors) if sort else list(f.errors._inner)
    return {"kind": "ok", "diags": [diag_tuple(x) for x in ds], "status": f.errors.status, "stdout": out.getvalue()}


def run_main(argv, cwd=None, limit=20.0):
    """norminette.__main__.main() in this process.  -> (exit, stdout, stderr, exc_info|None)"""
    import norminette.__main__ as M
    old_argv, old_cwd = sys.argv, os.getcwd()
    out, err = io.StringIO(), io.StringIO()
    code, exc = None, None
    try:
        sys.argv = ["norminette"] + list(argv)
        if cwd:
            os.chdir(cwd)
        with contextlib.redirect_stdout(out), contextlib.redirect_stderr(err), time_limit(limit):
            try:
                M.main()
                code = 0
            except SystemExit as e:
                code = e.code if isinstance(e.code, int) else (0 if e.code is None else 1)
    except Timeout:
        exc = ("Timeout", None)
    except BaseException as e:  # noqa
        if isinstance(e, KeyboardInterrupt):
            raise
        exc = (type(e).__name__, innermost_frame(e.__traceback__))
    finally:
        sys.argv = old_argv
        os.chdir(old_cwd)
    return code, out.getvalue(), err.getvalue(), exc


def run_main_subprocess(argv, cwd=None, limit=30.0, stdin=None):
    try:
        p = subprocess.run([PY, "-m", "norminette"] + list(argv), cwd=cwd, env=env_impl(), capture_output=True,
                           text=True, timeout=limit, input=stdin)
    except subprocess.TimeoutExpired:
        return None, "", "", ("Timeout", None)
    exc = None
    if "Traceback (most recent call last)" in p.stderr:
        last = p.stderr.strip().split("\n")[-1]
        exc = (last.split(":")[0], None)
    return p.returncode, p.stdout, p.stderr, exc


def parse_human(out):
    """Humanized report -> [(base, verdict, [(level, name, line, col, text)])]; raises ValueError when malformed."""
    import re
    files = []
    for line in out.split("\n"):
        if line == "":
            continue
        m = re.match(r"^(Error|Notice): (.{20,}?) \(line: *(\d+), col: *(\d+)\):\t(.*)$", line)
        if m and files:
            files[-1][2].append((m.group(1), m.group(2).rstrip(" "), int(m.group(3)), int(m.group(4)), m.group(5)))
            continue
        m = re.match(r"^(.*): (OK|Error)!$", line)
        if m:
            files.append((m.group(1), m.group(2), []))
            continue
        raise ValueError("unparsable report line: %r" % line)
    return files


def strip_colors(x):
    import re
    return re.sub(r"\x1b\[[0-9;]*m", "", x)
