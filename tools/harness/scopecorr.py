"""Correspondence of the scope-trace model (Model/ScopeTrace.v over Gen/ScopeOps.v) with the implementation.

    found, stats = scopecorr.check(run, b, programs)          # programs = [(name, src)]

For every program the real run is observed from outside (Registry.run_rules and Context.update wrapped on the instances,
no source hooks): per top-level statement the matched primary, the number of line-end tokens CheckLineCount counts, the
class a scope-opening primary handed to scope.inner(), and AFTER Context.update the scope chain
[(class, lines, instructions)] and the number of TOO_MANY_LINES diagnostics the statement added.  The statements are
abstracted to the model's `stmt`, the model is run inside Coq on the whole trace (build/cases_scope/cases_k.v,
`Eval vm_compute`) and chain + emission are compared after EVERY statement.  A difference is reported with
run.violation("correspondence-scope-trace", ...)."""
import ast
import multiprocessing as mp
import os
import re
import subprocess
from concurrent.futures import ThreadPoolExecutor

import common

CASES_DIR = os.path.join(common.BUILD, "cases_scope")
OPENERS = ("IsFuncDeclaration", "IsControlStatement", "IsUserDefinedType")
COUNTED = ("NEWLINE", "ESCAPED_NEWLINE")          # Gen.ScopeOps.line_count_types (checked against the generated file below)


def counted_types():
    p = os.path.join(common.COQ, "theories", "Gen", "ScopeOps.v")
    try:
        with open(p) as f:
            m = re.search(r"Definition line_count_types : list str := \[(.*?)\]\.", f.read())
        return tuple(re.findall(r'"(\w+)"', m.group(1))) if m else COUNTED
    except OSError:
        return COUNTED


def trace_run(src, name, limit=4.0):
    """-> dict(kind, trace=[(rule, nl, opens|None, [(cls, lines, instr)], n_too_many_lines)])"""
    import contextlib
    import io
    import impl
    from norminette.file import File
    from norminette.lexer import Lexer
    from norminette.context import Context
    from norminette.registry import Registry
    from norminette.rules import Primary
    from norminette.exceptions import CParsingError
    counted = counted_types()
    f = File(name, src)
    out = io.StringIO()
    trace = []
    args = []
    res = {"kind": "ok", "trace": trace, "args": args}
    reg = Registry()
    depth = [0]
    pending = [None]
    orig_rr = reg.run_rules
    try:
        with impl.time_limit(limit), contextlib.redirect_stdout(out):
            tokens = list(Lexer(f))
            ctx = Context(f, tokens, 0, None)
            inner = ctx.errors._inner

            def rr(context, rule):
                if getattr(rule, "__name__", None) == "CheckFuncDeclaration":
                    return rr_args(context, rule)
                top = depth[0] == 0
                if top:
                    before = len(inner)
                    scope_before = context.scope
                depth[0] += 1
                try:
                    r = orig_rr(context, rule)
                finally:
                    depth[0] -= 1
                if top and isinstance(rule, type) and issubclass(rule, Primary) and context.state == "running" and r[0] is True:
                    nl = sum(1 for t in context.tokens[:r[1]] if t.type in counted)
                    opens = None
                    sub = context.sub
                    if rule.__name__ in OPENERS and sub is not None and sub.parent is scope_before:
                        opens = type(sub).__name__
                    pending[0] = (rule.__name__, nl, opens, before)
                return r
            def rr_args(context, rule):
                """one invocation of CheckFuncDeclaration: the tokens it reads, fname_pos, what it emits"""
                before = len(inner)
                toks0 = context.tokens
                reads = [-1, 0]
                orig_peek = context.peek_token

                def pk(pos):
                    if pos >= 0:
                        if pos > reads[0]:
                            reads[0] = pos
                    elif pos < reads[1]:
                        reads[1] = pos
                    return orig_peek(pos)
                context.peek_token = pk
                item = {"fname_pos": context.fname_pos, "scope": context.tkn_scope, "last": context.history[-1].name, "oc": 0}
                try:
                    return orig_rr(context, rule)
                except CParsingError:
                    item["oc"] = 1
                    raise
                except BaseException:  # noqa
                    item["oc"] = 2
                    raise
                finally:
                    del context.peek_token
                    m = reads[0] + 1
                    win = [(t.type, t.pos[0], t.pos[1]) for t in toks0[:m]]
                    if m < len(toks0):
                        win.append((toks0[-1].type, toks0[-1].pos[0], toks0[-1].pos[1]))
                    if reads[1] < -1:
                        win = [(t.type, t.pos[0], t.pos[1]) for t in toks0]
                    item["win"] = win
                    item["em"] = [(e.name, e.highlights[0].lineno, e.highlights[0].column) for e in inner[before:]]
                    args.append(item)
            reg.run_rules = rr
            orig_update = ctx.update
            udepth = [0]

            def upd():
                udepth[0] += 1
                try:
                    return orig_update()
                finally:
                    udepth[0] -= 1
                    if udepth[0] == 0 and pending[0] is not None:
                        rule, nl, opens, before = pending[0]
                        pending[0] = None
                        ch = []
                        vs = []
                        sc = ctx.scope
                        root = sc
                        while sc is not None:
                            ch.append((type(sc).__name__, sc.lines, sc.instructions))
                            vs.append(sc.vars)
                            root = sc
                            sc = sc.parent
                        new = [e.name for e in inner[before:]]
                        n = new.count("TOO_MANY_LINES")
                        trace.append((rule, nl, opens, ch, n, (getattr(root, "functions", -1), vs, new.count("TOO_MANY_FUNCS"),
                                                               new.count("TOO_MANY_VARS_FUNC"))))
            ctx.update = upd
            reg.run(ctx)
    except impl.Timeout:
        res["kind"] = "timeout"
    except CParsingError as e:
        res["kind"] = "fatal"
        res["msg"] = e.msg[:120]
    except BaseException as e:  # noqa
        if isinstance(e, KeyboardInterrupt):
            raise
        res["kind"] = "exc"
        res["exc"] = type(e).__name__
    return res


def _winit():
    common.ensure_impl_path()
    import impl  # noqa


def _work(args):
    name, src = args
    return name, src, trace_run(src, name)


def coq_text(items, rules, classes):
    """items: [trace] -> text; one `Eval` for all traces of the file"""
    o = ["From NV Require Import Model.ScopeTrace.\nOpen Scope Z_scope.\n"]
    o.append("Definition rls : list str := [%s].\n" % "; ".join('s "%s"' % r for r in rules))
    o.append("Definition cls : list str := [%s].\n" % "; ".join('s "%s"' % c for c in classes))
    o.append("Definition X (r : nat) (nl : Z) (o : nat) : stmt :=\n"
             "  mkstmt (nth r rls []) nl (match o with O => None | S k => Some (nth k cls []) end).\n")
    ri = {r: i for i, r in enumerate(rules)}
    ci = {c: i for i, c in enumerate(classes)}
    for k, tr in enumerate(items):
        o.append("Definition t%d : list (stmt * obs) := [%s].\n" % (k, ";\n ".join(
            "(X %d %d %d, ([%s], %d))" % (ri[r], nl, 0 if op is None else ci[op] + 1,
                                         "; ".join("(%d, %d, %d)" % (ci[c], l, i) for c, l, i in ch), n)
            for r, nl, op, ch, n in [x[:5] for x in tr])))
    o.append("Eval vm_compute in [%s].\n" % "; ".join("replay cls state0 t%d 0" % k for k in range(len(items))))
    return "".join(o)


def run_coq(k, text):
    os.makedirs(CASES_DIR, exist_ok=True)
    path = os.path.join(CASES_DIR, "cases_%d.v" % k)
    with open(path, "w") as f:
        f.write(text)
    p = subprocess.run(["timeout", "600", "coqc", "-R", os.path.join(common.COQ, "theories"), "NV", path], cwd=CASES_DIR,
                       capture_output=True, text=True)
    for ext in (".vo", ".glob", ".vok", ".vos"):
        try:
            os.remove(path[:-2] + ext)
        except OSError:
            pass
    try:
        os.remove(os.path.join(CASES_DIR, ".cases_%d.aux" % k))
    except OSError:
        pass
    if p.returncode != 0:
        return ("error", (p.stderr + p.stdout)[-800:])
    m = re.search(r"=\s*(\[.*?\])\s*:\s*list Z", p.stdout, flags=re.S)
    if not m:
        return ("error", "unparsable coqc output: " + p.stdout[-300:])
    try:
        return ("ok", [int(x) for x in ast.literal_eval(m.group(1).replace(";", ",").replace("%Z", ""))])
    except (ValueError, SyntaxError):
        return ("error", "unparsable result: " + m.group(1)[:300])


def check(run, b, programs, per_file=100, counters=True):
    """-> (found, stats).  Only traces of runs that ended normally or fatally are compared (up to where they stopped).
    counters=True also replays the counter model (functions / vars after every statement, the argument counter of every
    CheckFuncDeclaration invocation): stats["counters"]."""
    progs = list(programs)
    with mp.Pool(common.NPROC, initializer=_winit, maxtasksperchild=500) as pool:
        res = list(pool.imap(_work, progs, chunksize=8))
    cfound, cstats = (check_counters(run, res, per_file) if counters else (False, None))
    kept = [(name, src, r) for name, src, r in res if r["trace"]]
    rules = sorted({t[0] for _, _, r in kept for t in r["trace"]})
    classes = sorted({c for _, _, r in kept for t in r["trace"] for c, _, _ in t[3]} | {t[2] for _, _, r in kept for t in r["trace"] if t[2]})
    chunks = [kept[a:a + per_file] for a in range(0, len(kept), per_file)]
    texts = [coq_text([r["trace"] for _, _, r in ch], rules, classes) for ch in chunks]
    with ThreadPoolExecutor(common.NPROC) as ex:
        outs = list(ex.map(lambda a: run_coq(*a), list(enumerate(texts))))
    found = False
    nstmt = ndiff = nprog = 0
    shapes = set()
    emitting = 0
    for ch, out in zip(chunks, outs):
        if out[0] != "ok":
            found |= run.violation("correspondence-model-run-failed", {"coqc": out[1], "layer": "scope trace"})
            continue
        for (name, src, r), v in zip(ch, out[1]):
            nprog += 1
            nstmt += len(r["trace"])
            emitting += sum(1 for t in r["trace"] if t[4])
            for t in r["trace"]:
                shapes.add((t[0], t[2], tuple(c for c, _, _ in t[3]), t[4]))
            if v != -1:
                ndiff += 1
                k = v if v >= 0 else -2 - v
                tr = r["trace"]
                found |= run.violation("correspondence-scope-trace", {
                    "name": name, "src": src, "statement_index": k, "model_stuck": v < -1,
                    "statement": list(tr[k][:3]) if k < len(tr) else None,
                    "implementation_after": {"chain": tr[k][3], "too_many_lines_added": tr[k][4]} if k < len(tr) else None,
                    "implementation_before": {"chain": tr[k - 1][3]} if 0 < k <= len(tr) else None,
                    "trace_until_there": [list(t[:3]) for t in tr[max(0, k - 12):k + 1]],
                    "what": "the scope-trace model (Model/ScopeTrace.v over Gen/ScopeOps.v) and the implementation disagree about the "
                            "scope chain or the TOO_MANY_LINES emission after this statement"})
    run.count("scope-trace correspondence (statements compared after update; non-trivial = distinct (primary, opened class, "
              "chain classes, emission))", nstmt, len(shapes))
    return found or cfound, {"programs": nprog, "statements": nstmt, "differences": ndiff, "statements_emitting_too_many_lines": emitting,
                             "distinct_shapes": len(shapes), "coq_files": len(chunks),
                             "not_compared": sum(1 for _, _, r in res if not r["trace"]), "counters": cstats}


def coq_counter_text(items, rules, classes):
    o = ["From NV Require Import Model.CounterTrace.\nOpen Scope Z_scope.\n"]
    o.append("Definition rls : list str := [%s].\n" % "; ".join('s "%s"' % r for r in rules))
    o.append("Definition cls : list str := [%s].\n" % "; ".join('s "%s"' % c for c in classes))
    o.append("Definition X (r : nat) (nl : Z) (o : nat) : stmt :=\n"
             "  mkstmt (nth r rls []) nl (match o with O => None | S k => Some (nth k cls []) end).\n")
    ri = {r: i for i, r in enumerate(rules)}
    ci = {c: i for i, c in enumerate(classes)}
    for k, tr in enumerate(items):
        o.append("Definition t%d : list (stmt * cobs) := [%s].\n" % (k, ";\n ".join(
            "(X %d %d %d, (%d, [%s], %d, %d))" % (ri[r], nl, 0 if op is None else ci[op] + 1, c[0], "; ".join(str(v) for v in c[1]), c[2], c[3])
            for r, nl, op, ch, n, c in tr)))
    o.append("Eval vm_compute in [%s].\n" % "; ".join("creplay cstate0 t%d 0" % k for k in range(len(items))))
    return "".join(o)


def coq_args_text(recs, types, codes):
    o = ["From NV Require Import Model.CounterTrace.\nOpen Scope Z_scope.\n"]
    o.append("Definition tys : list str := [%s].\n" % "; ".join('s "%s"' % t for t in types))
    o.append("Definition cds : list str := [%s].\n" % "; ".join('s "%s"' % t for t in codes))
    o.append("Definition T (k : nat) (l c : Z) : token := mk_tok (nth k tys []) l c.\n")
    o.append("Definition C (k : nat) (l c : Z) : em := (nth k cds [], l, c).\n")
    o.append("Definition v0 : view := mkview [] [] false 0 false false.\n")
    o.append("Definition one (id : Z) (toks : list token) (scope fpos oc : Z) (E : list em) : list Z :=\n"
             "  if args_agrees (check_func_decl_args toks scope fpos v0) oc E then [] else [id].\n")
    ti = {t: i for i, t in enumerate(types)}
    ci = {c: i for i, c in enumerate(codes)}
    o.append("Eval vm_compute in List.concat [\n%s].\n" % ";\n".join(
        " one %d [%s] (%d) (%d) %d [%s]" % (k, "; ".join("T %d %d %d" % (ti[t], l, c) for t, l, c in r["win"]), r["scope"], r["fname_pos"], r["oc"],
                                            "; ".join("C %d %d %d" % (ci[c], l, k2) for c, l, k2 in r["em_m"])) for k, r in enumerate(recs)))
    return "".join(o)


ARGS_CODES = ("EXP_PARENTHESIS", "TOO_MANY_ARGS")     # Gen.Counters.args_codes


def check_counters(run, res, per_file=100):
    """res: [(name, src, trace_run result)]"""
    found = False
    kept = [(name, src, r) for name, src, r in res if r["trace"]]
    rules = sorted({t[0] for _, _, r in kept for t in r["trace"]})
    classes = sorted({c for _, _, r in kept for t in r["trace"] for c, _, _ in t[3]} | {t[2] for _, _, r in kept for t in r["trace"] if t[2]})
    chunks = [kept[a:a + per_file] for a in range(0, len(kept), per_file)]
    texts = [coq_counter_text([r["trace"] for _, _, r in ch], rules, classes) for ch in chunks]
    # argument counter: every invocation that reached the counting code (not after IsUserDefinedType) and did not raise
    recs = []
    skipped = 0
    for name, src, r in res:
        for a in r.get("args", []):
            if a["last"] == "IsUserDefinedType" or a["oc"] != 0:
                skipped += 1
                continue
            a["em_m"] = [e for e in a["em"] if e[0] in ARGS_CODES]
            recs.append((name, src, a))
    achunks = [recs[a:a + 400] for a in range(0, len(recs), 400)]
    types = sorted({t for _, _, a in recs for t, _, _ in a["win"]})
    atexts = [coq_args_text([a for _, _, a in ch], types, list(ARGS_CODES)) for ch in achunks]
    with ThreadPoolExecutor(common.NPROC) as ex:
        outs = list(ex.map(lambda a: run_coq(*a), [(1000 + k, x) for k, x in enumerate(texts)] + [(2000 + k, x) for k, x in enumerate(atexts)]))
    couts, aouts = outs[:len(texts)], outs[len(texts):]
    nstmt = ndiff = nfe = nve = 0
    fv_shapes = set()
    for ch, out in zip(chunks, couts):
        if out[0] != "ok":
            found |= run.violation("correspondence-model-run-failed", {"coqc": out[1], "layer": "counter trace"})
            continue
        for (name, src, r), v in zip(ch, out[1]):
            tr = r["trace"]
            nstmt += len(tr)
            for t in tr:
                nfe += t[5][2]
                nve += t[5][3]
                if t[0] in ("IsFuncDeclaration", "IsVarDeclaration"):
                    fv_shapes.add((t[0], t[5][0], tuple(t[5][1]), t[5][2], t[5][3]))
            if v != -1:
                ndiff += 1
                k = v if v >= 0 else -2 - v
                found |= run.violation("correspondence-counter-trace", {
                    "name": name, "src": src, "statement_index": k, "model_stuck": v < -1,
                    "statement": list(tr[k][:3]) if k < len(tr) else None,
                    "implementation_after": {"functions": tr[k][5][0], "vars_of_chain": tr[k][5][1], "too_many_funcs_added": tr[k][5][2],
                                             "too_many_vars_added": tr[k][5][3], "chain": tr[k][3]} if k < len(tr) else None,
                    "trace_until_there": [list(t[:3]) for t in tr[max(0, k - 8):k + 1]],
                    "what": "the counter model (Model/CounterTrace.v over Gen/Counters.v) and the implementation disagree about "
                            "scope.functions / scope.vars or the TOO_MANY_FUNCS / TOO_MANY_VARS_FUNC emission after this statement"})
    nargs = adiff = aemit = 0
    ashapes = set()
    for ch, out in zip(achunks, aouts):
        if out[0] != "ok":
            found |= run.violation("correspondence-model-run-failed", {"coqc": out[1], "layer": "argument counter"})
            continue
        bad = set(out[1])
        for k, (name, src, a) in enumerate(ch):
            nargs += 1
            aemit += 1 if a["em_m"] else 0
            ashapes.add((tuple(t for t, _, _ in a["win"][a["fname_pos"]:][:60]), tuple(c for c, _, _ in a["em_m"])))
            if k in bad:
                adiff += 1
                found |= run.violation("correspondence-argument-counter", {
                    "name": name, "src": src, "record": a,
                    "what": "the model of the parameter counter of CheckFuncDeclaration (Gen/Counters.check_func_decl_args) and the "
                            "implementation disagree on this invocation (tokens read, fname_pos, diagnostics)"})
    run.count("counter-trace correspondence (statements; non-trivial = distinct (rule, functions, vars, emissions) at IsFuncDeclaration / "
              "IsVarDeclaration matches)", nstmt, len(fv_shapes))
    run.count("argument-counter correspondence (CheckFuncDeclaration invocations; non-trivial = distinct (token types from the name on, "
              "emitted codes))", nargs, len(ashapes))
    return found, {"statements": nstmt, "differences": ndiff, "too_many_funcs_seen": nfe, "too_many_vars_seen": nve,
                   "args_invocations": nargs, "args_differences": adiff, "args_emitting": aemit, "args_not_compared": skipped,
                   "coq_files": len(texts) + len(atexts)}


def variants(programs, rnd, k=1):
    """copies of the programs with comment / blank / preprocessor lines inserted at random places of function bodies"""
    out = []
    for name, src in programs:
        lines = src.split("\n")
        body = [i for i, l in enumerate(lines) if l.startswith("\t") and i > 12]
        if not body:
            continue
        for _ in range(k):
            ls = list(lines)
            for i in sorted(rnd.sample(body, min(len(body), rnd.randint(1, 4))), reverse=True):
                ls.insert(i, rnd.choice(["", "// c", "/* c */", "\t// c", "/*\n** c\n*/", "# define ZQ 1", "\t", ""]))
            out.append((name, "\n".join(ls)))
    return out


if __name__ == "__main__":
    # stand-alone: the boundary family of C03, family programs and variants
    import random
    import sys
    sys.path.insert(0, os.path.dirname(os.path.abspath(__file__)))
    import c03
    import family

    class R:
        def violation(self, kind, data, **k):
            print("VIOLATION", kind, {a: (v if a != "src" else "...") for a, v in data.items()})
            return True

        def count(self, *a):
            print("count", a)
    rnd = random.Random(1)
    ps = [(c[2], c[3]) for c in c03.count_cases()]
    fam = [family.program(rnd) for _ in range(int(sys.argv[1]) if len(sys.argv) > 1 else 60)]
    ps += fam + variants([p for p in ps if p[0].endswith(".c")][::7] + fam, rnd)
    print(len(ps), check(R(), None, ps))
