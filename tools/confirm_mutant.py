#!/usr/bin/env python3
"""confirm_mutant.py <src dir with patch.diff demo.py meta.json> <seeded id> <check verdict text>
Confirms in a scratch worktree of /repo: the patch applies, the unedited test suite passes with it, the demo exits
1 with it and 0 without it; then stores it under /verif/seeded/<id>/ with what was run."""
import json, os, shutil, subprocess, sys, tempfile
src, sid, verdict = sys.argv[1], sys.argv[2], sys.argv[3]
wt = tempfile.mkdtemp(prefix="confirm_wt_")
os.rmdir(wt)
subprocess.check_call(["git", "-C", "/repo", "worktree", "add", "-q", wt, "HEAD"])
env = dict(os.environ, PYTHONPATH=wt, PYTHONDONTWRITEBYTECODE="1")
def demo():
    return subprocess.run(["/venv/bin/python", os.path.join(src, "demo.py"), wt], env=env, cwd="/tmp", capture_output=True, text=True, timeout=600).returncode
try:
    clean = demo()
    subprocess.check_call(["git", "-C", wt, "apply", os.path.join(src, "patch.diff")])
    t = subprocess.run(["/venv/bin/python", "-m", "pytest", "-q", "-p", "no:cacheprovider"], cwd=wt, capture_output=True, text=True)
    tests = t.stdout.strip().split("\n")[-1]
    patched = demo()
finally:
    subprocess.call(["git", "-C", "/repo", "worktree", "remove", "--force", wt])
ok = clean == 0 and patched == 1 and "passed" in tests and "failed" not in tests
print(sid, "demo clean=%s patched=%s tests=%s -> %s" % (clean, patched, tests, "CONFIRMED" if ok else "REJECTED"))
if ok:
    dst = os.path.join("/verif/seeded", sid)
    os.makedirs(dst, exist_ok=True)
    for f in ("patch.diff", "demo.py"):
        shutil.copy(os.path.join(src, f), dst)
    meta = json.load(open(os.path.join(src, "meta.json")))
    meta["confirmed"] = {"tests_with_patch": tests, "demo_exit_clean": clean, "demo_exit_patched": patched,
                         "ran": "git worktree of /repo HEAD; git apply patch.diff; /venv/bin/python -m pytest -q -p no:cacheprovider; PYTHONPATH=<worktree> /venv/bin/python demo.py <worktree>"}
    meta["check_result"] = verdict
    json.dump(meta, open(os.path.join(dst, "meta.json"), "w"), indent=1)
sys.exit(0 if ok else 1)
