"""Static footprint tables (Gen/Footprint.v): every place where the analysed path can touch state that
outlives one file.  A syntactic over-approximation, fail-closed on dynamic tricks (exec/eval/globals/setattr)."""
import ast
import glob
import os

from pyexpr import TranslateError

MUTATORS = {"append", "extend", "add", "update", "pop", "remove", "clear", "insert", "setdefault", "sort", "reverse",
            "discard", "popitem", "appendleft"}
PROCESS_SETTERS = {"sys.setrecursionlimit", "os.chdir", "os.putenv", "sys.setswitchinterval", "random.seed", "locale.setlocale"}
# classes whose instances outlive one analysed file (one Registry / Rules object serves every file of a run)
LONG_LIVED = {("norminette/registry.py", "Registry"), ("norminette/rules/__init__.py", "Rules")}
FORBIDDEN_DYNAMIC = {"exec", "eval", "globals", "setattr", "delattr", "__import__", "compile"}


def lit(x):
    if not all(32 <= ord(c) < 127 for c in x):
        raise TranslateError("non-ASCII in footprint entry")
    return '"' + x.replace('"', '""') + '"%string'


def module_names(tree):
    """names bound at module level (assignments, imports, classes): candidates for shared objects"""
    names = set()
    for n in tree.body:
        if isinstance(n, (ast.Assign, ast.AnnAssign)):
            tg = n.targets if isinstance(n, ast.Assign) else [n.target]
            for t in tg:
                for x in ast.walk(t):
                    if isinstance(x, ast.Name):
                        names.add(x.id)
        elif isinstance(n, ast.ImportFrom):
            for a in n.names:
                names.add(a.asname or a.name)
        elif isinstance(n, ast.ClassDef):
            names.add(n.name)
    return names


def analyse_file(repo, path):
    rel = os.path.relpath(path, repo)
    with open(path) as f:
        tree = ast.parse(f.read(), filename=path)
    mod = module_names(tree)
    classes = {n.name for n in ast.walk(tree) if isinstance(n, ast.ClassDef)}
    out = []

    def visit_func(fn, owner):
        where = (owner + "." if owner else "") + fn.name
        local = {a.arg for a in fn.args.args + fn.args.kwonlyargs}
        for n in ast.walk(fn):
            if isinstance(n, (ast.Assign, ast.AnnAssign, ast.AugAssign, ast.For, ast.With, ast.NamedExpr)):
                tg = []
                if isinstance(n, ast.Assign):
                    tg = n.targets
                elif isinstance(n, (ast.AnnAssign, ast.AugAssign, ast.NamedExpr)):
                    tg = [n.target]
                elif isinstance(n, ast.For):
                    tg = [n.target]
                for t in tg:
                    for x in ast.walk(t):
                        if isinstance(x, ast.Name) and isinstance(x.ctx, ast.Store):
                            local.add(x.id)
        globs = set()
        for n in ast.walk(fn):
            if isinstance(n, ast.Global):
                globs.update(n.names)
                out.append((rel, where, "global " + ",".join(n.names)))
        local -= globs
        for n in ast.walk(fn):
            if isinstance(n, ast.Call):
                f = n.func
                src = ast.unparse(f)
                if src in PROCESS_SETTERS:
                    out.append((rel, where, "process: " + src))
                if isinstance(f, ast.Name) and f.id in FORBIDDEN_DYNAMIC:
                    raise TranslateError("%s: dynamic construct %s() in %s" % (rel, f.id, where))
                if isinstance(f, ast.Attribute) and f.attr in MUTATORS and isinstance(f.value, ast.Name):
                    base = f.value.id
                    if base in mod and base not in local:
                        out.append((rel, where, "mutates module object %s.%s()" % (base, f.attr)))
            tgs = []
            if isinstance(n, ast.Assign):
                tgs = n.targets
            elif isinstance(n, (ast.AugAssign, ast.AnnAssign)):
                tgs = [n.target]
            for t in tgs:
                if isinstance(t, ast.Subscript) and isinstance(t.value, ast.Name) and t.value.id in mod and t.value.id not in local:
                    out.append((rel, where, "assigns into module object %s[...]" % t.value.id))
                if isinstance(t, ast.Attribute) and isinstance(t.value, ast.Name):
                    b = t.value.id
                    if b == "cls" or (b in classes) or (b in mod and b not in local and b not in ("self",)):
                        out.append((rel, where, "assigns class/module attribute %s.%s" % (b, t.attr)))
                if isinstance(t, ast.Attribute) and ast.unparse(t.value) in ("os.environ", "sys"):
                    out.append((rel, where, "process: assigns %s" % ast.unparse(t)))
        # instance state of a long-lived object written outside its constructor
        if (rel, owner) in LONG_LIVED and fn.name not in ("__init__", "__new__"):
            for n in ast.walk(fn):
                tgs = []
                if isinstance(n, ast.Assign):
                    tgs = n.targets
                elif isinstance(n, (ast.AugAssign, ast.AnnAssign)):
                    tgs = [n.target]
                for t in tgs:
                    for x in ast.walk(t):
                        if isinstance(x, ast.Attribute) and isinstance(x.value, ast.Name) and x.value.id == "self" \
                                and isinstance(x.ctx, ast.Store):
                            out.append((rel, where, "assigns attribute self.%s of a long-lived object" % x.attr))
                    if isinstance(t, ast.Subscript) and ast.unparse(t.value).startswith("self."):
                        out.append((rel, where, "assigns into %s[...] of a long-lived object" % ast.unparse(t.value)))
                if isinstance(n, ast.Call) and isinstance(n.func, ast.Attribute) and n.func.attr in MUTATORS \
                        and ast.unparse(n.func.value).startswith("self."):
                    out.append((rel, where, "mutates %s.%s() of a long-lived object" % (ast.unparse(n.func.value), n.func.attr)))
        # mutable default arguments
        for a, d in zip(reversed(fn.args.args), reversed(fn.args.defaults)):
            if isinstance(d, (ast.List, ast.Dict, ast.Set)):
                out.append((rel, where, "mutable default argument %s" % a.arg))

    for n in tree.body:
        if isinstance(n, (ast.FunctionDef, ast.AsyncFunctionDef)):
            visit_func(n, "")
        elif isinstance(n, ast.ClassDef):
            for m in n.body:
                if isinstance(m, ast.Global):
                    out.append((rel, n.name, "global " + ",".join(m.names)))
            for m in ast.walk(n):
                if isinstance(m, (ast.FunctionDef, ast.AsyncFunctionDef)):
                    visit_func(m, n.name)
    return out


def gen_footprint(repo, L):
    files = []
    for pat in ("norminette/*.py", "norminette/lexer/*.py", "norminette/rules/*.py", "norminette/tools/*.py"):
        files += glob.glob(os.path.join(repo, pat))
    entries = []
    for p in sorted(files):
        entries += analyse_file(repo, p)
    entries = sorted(set(entries))
    o = "From NV Require Import Model.Base.\n\n"
    o += "(* (file, function, what): every syntactic site that touches state outliving one analysed file *)\n"
    o += "Definition shared_mutations : list (string * string * string) :=\n  [%s].\n" % ";\n   ".join(
        "(%s, %s, %s)" % (lit(a), lit(b), lit(c)) for a, b, c in entries)
    return o


GENERATORS = {"Footprint": gen_footprint}
