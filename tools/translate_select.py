"""Gen/Select.v: what the file-selection model (Model/Select.v, property C15) depends on, read from the AST of
`main()` in norminette/__main__.py: the two glob patterns and their `recursive=` flags, the accepted suffix tuple,
the three message format strings, the exit codes of the missing-path / bad-suffix / git-fatal paths, the order of the
tests (exists / is_file / suffix / is_dir), the `git check-ignore` command and its exit-code dispatch, and a
fingerprint (sha256 of the attribute-free `ast.dump`) of the whole selection part of main(), which the hand-written
model pins with `reflexivity`: ANY edit of that code breaks the tie.  Fail closed: every unexpected shape raises."""
import ast
import hashlib
import os

from pyexpr import TranslateError, coq_str


def lit(x):
    if not all(32 <= ord(c) < 127 for c in x):
        raise TranslateError("non-ASCII text in a Coq string literal: %r" % x)
    return '"' + x.replace('"', '""') + '"%string'


def need(cond, why, node=None):
    if not cond:
        raise TranslateError("__main__.py main(): " + why + (" at line %s" % getattr(node, "lineno", "?") if node is not None else ""))


def is_call(n, name, nargs=None):
    return isinstance(n, ast.Call) and ast.unparse(n.func) == name and (nargs is None or len(n.args) == nargs)


def glob_call(n):
    """glob.glob(<pattern expr>, recursive=<bool>)  or  [it for it in glob.glob(...) if not os.path.isdir(it)]
    -> (pattern expr node, recursive flag, files_only flag)"""
    files_only = False
    if isinstance(n, ast.ListComp):
        need(len(n.generators) == 1 and isinstance(n.elt, ast.Name) and isinstance(n.generators[0].target, ast.Name)
             and n.elt.id == n.generators[0].target.id and not n.generators[0].is_async and len(n.generators[0].ifs) == 1
             and ast.unparse(n.generators[0].ifs[0]) == "not os.path.isdir(%s)" % n.elt.id,
             "glob result filter is not `[x for x in glob.glob(...) if not os.path.isdir(x)]`: " + ast.unparse(n), n)
        files_only = True
        n = n.generators[0].iter
    need(is_call(n, "glob.glob", 1), "expected glob.glob(<pattern>, ...): " + ast.unparse(n), n)
    rec = False
    for k in n.keywords:
        need(k.arg == "recursive" and isinstance(k.value, ast.Constant) and isinstance(k.value.value, bool),
             "glob.glob keyword other than recursive=<bool>: " + ast.unparse(n), n)
        rec = k.value.value
    return n.args[0], rec, files_only


def pattern_atoms(pat):
    """'**/*.[ch]' -> atoms of the last component; the directory part must be exactly '**'."""
    need(pat.count("/") == 1, "glob pattern %r is not <dir part>/<name part>" % pat)
    d, base = pat.split("/")
    need(d == "**", "directory part of glob pattern %r is not '**'" % pat)
    atoms = []
    i = 0
    while i < len(base):
        c = base[i]
        if c == "*":
            need(not (i + 1 < len(base) and base[i + 1] == "*"), "'**' inside the name part of %r" % pat)
            atoms.append("PStar")
        elif c == "?":
            atoms.append("PAny")
        elif c == "[":
            j = base.find("]", i + 1)
            need(j > i + 1, "unterminated or empty [...] in %r" % pat)
            body = base[i + 1:j]
            need(not body.startswith(("!", "^")) and "-" not in body and "\\" not in body,
                 "character class %r with negation / range / escape is outside the translated subset" % body)
            atoms.append("PSet %s" % coq_str(body))
            i = j
        else:
            need(c not in "]\\", "unexpected %r in glob pattern %r" % (c, pat))
            atoms.append("PLit %d" % ord(c))
        i += 1
    return "[" + "; ".join(atoms) + "]"


def fstring_parts(n, what):
    """print(f"...") argument -> Coq list of fpart"""
    need(isinstance(n, ast.JoinedStr), what + ": message is not an f-string", n)
    parts = []
    for v in n.values:
        if isinstance(v, ast.Constant) and isinstance(v.value, str):
            parts.append("FLit %s" % coq_str(v.value))
        elif isinstance(v, ast.FormattedValue):
            need(v.format_spec is None, what + ": format spec in message", n)
            conv = {-1: "", ord("s"): "s", ord("r"): "r", ord("a"): "a"}[v.conversion]
            parts.append("FVal %s %s" % (lit(ast.unparse(v.value)), lit(conv)))
        else:
            need(False, what + ": unexpected f-string part", n)
    return "[" + "; ".join(parts) + "]"


def print_of(stmt, what):
    need(isinstance(stmt, ast.Expr) and is_call(stmt.value, "print", 1) and not stmt.value.keywords,
         what + ": expected print(<f-string>)", stmt)
    return stmt.value.args[0]


def exit_of(stmt, what):
    need(isinstance(stmt, ast.Expr) and is_call(stmt.value, "sys.exit", 1) and isinstance(stmt.value.args[0], ast.Constant)
         and type(stmt.value.args[0].value) is int, what + ": expected sys.exit(<int>)", stmt)
    return stmt.value.args[0].value


def gen_select(repo, L):
    path = os.path.join(repo, "norminette/__main__.py")
    with open(path) as f:
        tree = ast.parse(f.read(), filename=path)
    mains = [n for n in tree.body if isinstance(n, ast.FunctionDef) and n.name == "main"]
    need(len(mains) == 1, "exactly one top-level main() expected")
    main = mains[0]
    # ---- anchors: `if args.cfile or args.hfile: ... else: <selection>` and `if args.use_gitignore:`
    sel_if = [n for n in main.body if isinstance(n, ast.If) and ast.unparse(n.test) == "args.cfile or args.hfile"]
    git_if = [n for n in main.body if isinstance(n, ast.If) and ast.unparse(n.test) == "args.use_gitignore"]
    need(len(sel_if) == 1 and len(git_if) == 1, "anchors `if args.cfile or args.hfile` / `if args.use_gitignore` not found once each")
    sel_if, git_if = sel_if[0], git_if[0]
    need(main.body.index(git_if) == main.body.index(sel_if) + 1, "the gitignore filter does not directly follow the selection")
    need(not git_if.orelse, "`if args.use_gitignore` has an else branch")
    need("files = []" in [ast.unparse(x) for x in main.body[:main.body.index(sel_if)]], "`files = []` not found before the selection")
    blk = sel_if.orelse
    need(len(blk) == 4, "selection block is not `stack = []; stack += ...; for item in stack: ...; del stack`")
    need(ast.unparse(blk[0]) == "stack = []" and ast.unparse(blk[3]) == "del stack", "stack initialisation / deletion changed")
    # ---- stack += args.file if args.file else glob.glob(P, recursive=R)
    st = blk[1]
    need(isinstance(st, ast.AugAssign) and isinstance(st.op, ast.Add) and ast.unparse(st.target) == "stack"
         and isinstance(st.value, ast.IfExp) and ast.unparse(st.value.test) == "args.file"
         and ast.unparse(st.value.body) == "args.file", "initial work list is not `args.file if args.file else glob(...)`", st)
    p0, rec0, fo0 = glob_call(st.value.orelse)
    need(isinstance(p0, ast.Constant) and isinstance(p0.value, str), "no-argument glob pattern is not a string constant", st)
    # ---- the loop
    loop = blk[2]
    need(isinstance(loop, ast.For) and ast.unparse(loop.target) == "item" and ast.unparse(loop.iter) == "stack" and not loop.orelse,
         "work-list loop is not `for item in stack:`", loop)
    body = loop.body
    need(len(body) == 4, "loop body is not: path = Path(item); if not exists; if is_file; if is_dir", loop)
    need(ast.unparse(body[0]) == "path = pathlib.Path(item)", "first statement of the loop is not `path = pathlib.Path(item)`", body[0])
    tests = []
    # (1) missing
    t1 = body[1]
    need(isinstance(t1, ast.If) and not t1.orelse and len(t1.body) == 2, "missing-path test shape", t1)
    tests.append(ast.unparse(t1.test))
    msg_missing = fstring_parts(print_of(t1.body[0], "missing path"), "missing path")
    exit_missing = exit_of(t1.body[1], "missing path")
    # (2) regular file / suffix
    t2 = body[2]
    need(isinstance(t2, ast.If) and not t2.orelse and len(t2.body) == 1 and isinstance(t2.body[0], ast.If), "is_file test shape", t2)
    tests.append(ast.unparse(t2.test))
    sfx = t2.body[0]
    tests.append(ast.unparse(sfx.test))
    c = sfx.test
    need(isinstance(c, ast.Compare) and len(c.ops) == 1 and isinstance(c.ops[0], ast.NotIn) and ast.unparse(c.left) == "path.suffix"
         and isinstance(c.comparators[0], (ast.Tuple, ast.List))
         and all(isinstance(e, ast.Constant) and isinstance(e.value, str) for e in c.comparators[0].elts),
         "suffix test is not `path.suffix not in (<string constants>)`", sfx)
    suffixes = [e.value for e in c.comparators[0].elts]
    need(1 <= len(sfx.body) <= 2, "bad-suffix branch shape", sfx)
    msg_bad = fstring_parts(print_of(sfx.body[0], "bad suffix"), "bad suffix")
    exit_bad = exit_of(sfx.body[1], "bad suffix") if len(sfx.body) == 2 else None
    need([ast.unparse(x) for x in sfx.orelse] == ["file = File(item)", "files.append(file)"],
         "accepted-file branch is not `file = File(item); files.append(file)`", sfx)
    # (3) directory
    t3 = body[3]
    need(isinstance(t3, ast.If) and not t3.orelse and len(t3.body) == 1, "is_dir test shape", t3)
    tests.append(ast.unparse(t3.test))
    push = t3.body[0]
    need(isinstance(push, ast.AugAssign) and isinstance(push.op, ast.Add) and ast.unparse(push.target) == "stack",
         "directory branch does not extend the work list", push)
    p1, rec1, fo1 = glob_call(push.value)
    need(isinstance(p1, ast.BinOp) and isinstance(p1.op, ast.Add) and ast.unparse(p1.left) == "str(path)"
         and isinstance(p1.right, ast.Constant) and isinstance(p1.right.value, str) and p1.right.value.startswith("/"),
         "directory glob pattern is not `str(path) + '/<pattern>'`", push)
    # ---- gitignore filter
    g = git_if.body
    need(len(g) == 3 and ast.unparse(g[0]) == "tmp_targets = []" and ast.unparse(g[2]) == "files = tmp_targets"
         and isinstance(g[1], ast.For) and ast.unparse(g[1].target) == "target" and ast.unparse(g[1].iter) == "files",
         "gitignore filter is not `tmp_targets = []; for target in files: ...; files = tmp_targets`", git_if)
    gb = [x for x in g[1].body if not (isinstance(x, ast.Expr) and isinstance(x.value, ast.Constant))]   # drop the docstring
    need(len(gb) == 3, "gitignore loop body shape", g[1])
    need(isinstance(gb[0], ast.Assign) and ast.unparse(gb[0].targets[0]) == "command" and isinstance(gb[0].value, ast.List),
         "`command = [...]` not found", gb[0])
    command = [e.value if isinstance(e, ast.Constant) else ast.unparse(e) for e in gb[0].value.elts]
    need(ast.unparse(gb[1]).replace("\n", " ").replace("  ", "") in (
        "exit_code = subprocess.run(command, stdout=subprocess.PIPE, stderr=subprocess.PIPE).returncode",),
        "`exit_code = subprocess.run(command, ...).returncode` changed: " + ast.unparse(gb[1]), gb[1])
    codes = []
    node = gb[2]
    git_msg, git_exit = None, None
    while True:
        need(isinstance(node, ast.If) and isinstance(node.test, ast.Compare) and ast.unparse(node.test.left) == "exit_code"
             and isinstance(node.test.ops[0], ast.Eq) and isinstance(node.test.comparators[0], ast.Constant),
             "exit-code dispatch is not an if/elif chain on `exit_code == <int>`", node)
        k = node.test.comparators[0].value
        src = [ast.unparse(x) for x in node.body]
        if src == ["pass"]:
            codes.append((k, "drop"))
        elif src == ["tmp_targets.append(target)"]:
            codes.append((k, "keep"))
        else:
            need(len(node.body) == 2 and git_msg is None, "unexpected branch in the exit-code dispatch: %r" % (src,), node)
            git_msg = fstring_parts(print_of(node.body[0], "git fatal"), "git fatal")
            git_exit = exit_of(node.body[1], "git fatal")
            codes.append((k, "exit"))
        if not node.orelse:
            break
        need(len(node.orelse) == 1, "else branch in the exit-code dispatch", node)
        node = node.orelse[0]
    need(git_msg is not None, "no message/exit branch in the exit-code dispatch")
    # ---- fingerprint of everything above
    dump = "\n".join(ast.dump(x, annotate_fields=True, include_attributes=False) for x in blk + [git_if])
    fp = hashlib.sha256(dump.encode()).hexdigest()
    o = "From NV Require Import Model.Base.\n\n"
    o += "(* atoms of the last component of a glob pattern; parts of an f-string *)\n"
    o += "Inductive patom := PStar | PAny | PLit (c : N) | PSet (cs : str).\n"
    o += "Inductive fpart := FLit (t : str) | FVal (expr : string) (conv : string).\n\n"
    o += "Definition glob_cwd_pattern : string := %s.\n" % lit(p0.value)
    o += "Definition glob_cwd_recursive : bool := %s.\n" % ("true" if rec0 else "false")
    o += "Definition glob_cwd_last : list patom := %s.\n" % pattern_atoms(p0.value)
    o += "Definition glob_cwd_files_only : bool := %s.   (* results filtered by `not os.path.isdir` *)\n" % ("true" if fo0 else "false")
    o += "Definition glob_dir_pattern : string := %s.   (* appended to str(path) *)\n" % lit(p1.right.value)
    o += "Definition glob_dir_recursive : bool := %s.\n" % ("true" if rec1 else "false")
    o += "Definition glob_dir_last : list patom := %s.\n" % pattern_atoms(p1.right.value[1:])
    o += "Definition glob_dir_files_only : bool := %s.\n\n" % ("true" if fo1 else "false")
    o += "Definition accepted_suffixes : list str := [%s].\n" % "; ".join(coq_str(x) for x in suffixes)
    o += "Definition test_order : list string := [%s].\n\n" % "; ".join(lit(x) for x in tests)
    o += "Definition msg_missing : list fpart := %s.\n" % msg_missing
    o += "Definition exit_missing : Z := %d.\n" % exit_missing
    o += "Definition msg_bad_suffix : list fpart := %s.\n" % msg_bad
    o += "Definition exit_bad_suffix : option Z := %s.\n" % ("None" if exit_bad is None else "Some (%d)" % exit_bad)
    o += "Definition git_command : list string := [%s].\n" % "; ".join(lit(x) for x in command)
    o += "Definition git_codes : list (Z * string) := [%s].\n" % "; ".join("(%d, %s)" % (k, lit(v)) for k, v in codes)
    o += "Definition msg_git_fatal : list fpart := %s.\n" % git_msg
    o += "Definition exit_git_fatal : Z := %d.\n\n" % git_exit
    o += "Definition selection_fingerprint : string := %s.\n" % lit(fp)
    return o


GENERATORS = {"Select": gen_select}
