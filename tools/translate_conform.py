"""Gen/ScopeIndent.v (property C01): how a scope's indentation is computed, read off the source.
Scope.__init__ must set  self.indent = (parent.indent + 1) if parent is not None else 0  and nothing else may write an
attribute named `indent` except the preprocessor-nesting counter (PreProcessors.indent).  Emitted: the expression as text and
every syntactic write of an `indent` attribute; Proofs/ScopeViewProofs.v pins both.  Fail closed: any unexpected shape or
exception is a SyntaxError (= translation error = broken tie)."""
import ast
import glob
import os


def lit(x):
    if not all(32 <= ord(c) < 127 for c in x):
        raise SyntaxError("non-ASCII text")
    return '"' + x.replace('"', '""') + '"%string'


def gen_scope_indent(repo, L=None):
    try:
        root = os.path.join(repo, "norminette")
        with open(os.path.join(root, "scope.py")) as f:
            tree = ast.parse(f.read())
        cls = [n for n in tree.body if isinstance(n, ast.ClassDef) and n.name == "Scope"]
        if len(cls) != 1:
            raise SyntaxError("class Scope not found exactly once in scope.py")
        init = [n for n in cls[0].body if isinstance(n, ast.FunctionDef) and n.name == "__init__"]
        if len(init) != 1:
            raise SyntaxError("Scope.__init__ not found")
        rules = []
        for n in ast.walk(init[0]):
            if isinstance(n, ast.Assign) and len(n.targets) == 1 and isinstance(n.targets[0], ast.Attribute) and n.targets[0].attr == "indent":
                rules.append(ast.unparse(n.value))
        if len(rules) != 1:
            raise SyntaxError("Scope.__init__ does not assign self.indent exactly once")
        # subclasses of Scope must not override indent: covered by the list of all writes
        writes = []
        for p in sorted(glob.glob(os.path.join(root, "**", "*.py"), recursive=True)):
            with open(p) as f:
                t = ast.parse(f.read(), filename=p)
            rel = os.path.relpath(p, repo)
            for n in ast.walk(t):
                if isinstance(n, (ast.Assign, ast.AugAssign, ast.AnnAssign)):
                    tg = n.targets if isinstance(n, ast.Assign) else [n.target]
                    for x in tg:
                        for y in ast.walk(x):
                            if isinstance(y, ast.Attribute) and y.attr == "indent" and isinstance(y.ctx, ast.Store):
                                writes.append("%s: %s" % (rel, ast.unparse(n)))
                if isinstance(n, ast.Call) and isinstance(n.func, ast.Name) and n.func.id in ("setattr", "exec", "eval"):
                    raise SyntaxError("dynamic attribute write (%s) in %s" % (n.func.id, rel))
        o = "From NV Require Import Model.Base.\n"
        o += "(* Scope.__init__: self.indent = <this expression>; every syntactic write of an attribute named indent *)\n"
        o += "Definition scope_indent_rule : string := %s.\n" % lit(rules[0])
        o += "Definition indent_write_sites : list string :=\n  [%s].\n" % ";\n   ".join(lit(w) for w in writes)
        return o
    except SyntaxError:
        raise
    except Exception as e:      # noqa: fail closed
        raise SyntaxError("translate_conform: %s: %s" % (type(e).__name__, e))


GENERATORS = {"ScopeIndent": gen_scope_indent}
