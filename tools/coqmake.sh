#!/bin/sh
# tools/coqmake.sh <target.vo> ...   build Coq targets (paths relative to coq/, e.g. theories/Proofs/X.vo)
# under the same lock the checks use, after refreshing _CoqProject.  Never run `make` in coq/ without it.
HERE="$(cd "$(dirname "$0")/.." && pwd)"
exec flock "$HERE/.lock" sh -c 'cd "$0" && tools/mkproject.sh && cd coq && timeout 1500 make -k -j8 "$@" 2>&1 | grep -v "^COQDEP\|^make\[" | tail -60' "$HERE" "$@"
