"""Gen/HistoryReads.v: every syntactic use of the statement history in the analysed path - `<obj>.history`
(any object), `get_parent_rule()` - with the expression it is used in (the look-back distance and the filter),
per file and function.  C19 (diagnostics are local) is only SEARCHED for rules other than CheckHeader; this
table, pinned to a reviewed list in Proofs/HistoryTie.v by reflexivity, makes a new or changed look-back break the
tie so that it is looked at.  Fail closed on dynamic access (getattr/setattr with the name `history`)."""
import ast
import glob
import os

from pyexpr import TranslateError


def lit(x):
    if not all(32 <= ord(c) < 127 for c in x):
        raise TranslateError("non-ASCII in a history read")
    return '"' + x.replace('"', '""') + '"%string'


def context_expr(node, parents):
    """the expression that shows how the history is looked at: climb through subscripts, len()/reversed()/
    enumerate()/list slices up to the comparison / membership test / loop header / call it feeds"""
    cur = node
    for _ in range(6):
        p = parents.get(id(cur))
        if p is None:
            break
        if isinstance(p, (ast.Subscript, ast.Compare, ast.Slice, ast.UnaryOp, ast.BinOp, ast.Starred)):
            cur = p
            if isinstance(p, ast.Compare):
                break
            continue
        if isinstance(p, ast.Call) and (cur in p.args or cur is p.func or (isinstance(p.func, ast.Attribute) and p.func.value is cur)):
            cur = p
            continue
        if isinstance(p, ast.Attribute):      # context.history.append
            cur = p
            continue
        if isinstance(p, (ast.For, ast.comprehension)) and p.iter is cur:
            return "for ... in " + ast.unparse(cur)
        if isinstance(p, ast.Assign):
            return ast.unparse(p)
        break
    return ast.unparse(cur)


def reads_of(repo, path):
    rel = os.path.relpath(path, repo)
    with open(path) as f:
        tree = ast.parse(f.read(), filename=path)
    parents = {}
    for n in ast.walk(tree):
        for c in ast.iter_child_nodes(n):
            parents[id(c)] = n
    out = []

    def owner(node):
        names = []
        cur = node
        while id(cur) in parents:
            cur = parents[id(cur)]
            if isinstance(cur, (ast.FunctionDef, ast.ClassDef)):
                names.append(cur.name)
        return ".".join(reversed(names)) or "<module>"

    for n in ast.walk(tree):
        if isinstance(n, ast.Attribute) and n.attr == "history":
            out.append((rel, owner(n), context_expr(n, parents)))
        elif isinstance(n, ast.Call) and isinstance(n.func, ast.Attribute) and n.func.attr == "get_parent_rule":
            out.append((rel, owner(n), context_expr(n, parents)))
        elif isinstance(n, ast.Constant) and n.value == "history" and not isinstance(parents.get(id(n)), ast.Expr):
            raise TranslateError("%s: the name `history` is used as a string (dynamic attribute access?)" % rel)
    return out


def gen_history(repo, L):
    files = []
    for pat in ("norminette/*.py", "norminette/lexer/*.py", "norminette/rules/*.py", "norminette/tools/*.py"):
        files += glob.glob(os.path.join(repo, pat))
    entries = []
    for p in sorted(files):
        entries += reads_of(repo, p)
    entries.sort()
    if not entries:
        raise TranslateError("no use of the statement history found: the anchors moved")
    o = "From NV Require Import Model.Base.\n\n"
    o += "(* (file, function, expression): every use of the statement history, with multiplicity *)\n"
    o += "Definition history_reads : list (string * string * string) :=\n  [%s].\n" % ";\n   ".join(
        "(%s, %s, %s)" % (lit(a), lit(b), lit(c)) for a, b, c in entries)
    return o


def _closed(fn):
    def g(repo, L):
        try:
            return fn(repo, L)
        except (TranslateError, SyntaxError, OSError, KeyError):
            raise
        except Exception as e:  # noqa
            raise TranslateError("%s: %s" % (type(e).__name__, e))
    return g


GENERATORS = {"HistoryReads": _closed(gen_history)}
