"""Gen/ScopeOps.v (properties C03 - the 25 lines - and C07 - depth back at file level): the scope bookkeeping of the
source as Gallina definitions over Model/ScopeBase.v, read off the AST statement by statement; every statement shape
that is not recognised raises (fail closed):

  * Scope.outer / Scope.get_outer            -> scope_outer / scope_get_outer : sc -> sc -> sc  (what happens to the parent)
  * Context.update                           -> Fixpoint ctx_update (the skip test, `scope = sub`, the recursive pop)
  * Context.get_parent_rule                  -> parent_rule
  * CheckLineCount.run (complete)            -> line_count_types, line_count_run
  * CheckBrace.run: the line test            -> brace_line_test, and the guards of every earlier `return`
  * IsBlockStart.run: the history scan       -> Fixpoint block_start_scan
  * IsBlockEnd.run: the scope effect         -> block_end_effect
  * every `context.sub = context.scope.inner(C)` of IsFuncDeclaration / IsControlStatement / IsUserDefinedType
                                             -> inner_sites : (rule, class, multiline set afterwards)
  * Scope.__init__ (lines / instructions / multiline of a new scope), Registry.run_rules (`instructions += 1`)
  * every syntactic write of .scope / .sub / .lines / .instructions / .multiline / tmp_scope and every call of
    .outer() / .inner() / .get_outer() in norminette/ -> scope_write_sites (pinned by reflexivity in the proofs)."""
import ast
import glob
import os

from translate_rules import RulesError, parse, find_class, find_method, strip_doc, fingerprint, cstr


def fail(node, why):
    raise RulesError("%s at line %s: %s" % (why, getattr(node, "lineno", "?"),
                                             ast.dump(node)[:200] if isinstance(node, ast.AST) else node))


def same(node, src, mode="stmt"):
    """node equals the parsed text `src` (positions ignored)"""
    ref = ast.parse(src).body[0]
    if mode == "expr":
        ref = ref.value
    def norm(x):
        return ast.dump(x, include_attributes=False).replace("ctx=Store()", "ctx=Load()")
    return norm(node) == norm(ref)


def lit(x):
    if not all(32 <= ord(c) < 127 and c != '"' for c in x):
        raise RulesError("unsupported characters in a string literal")
    return '"%s"%%string' % x


def strlist(xs):
    return "[" + "; ".join(cstr(x) for x in xs) + "]"


def const_strs(n):
    if isinstance(n, (ast.List, ast.Tuple)) and all(isinstance(e, ast.Constant) and isinstance(e.value, str) for e in n.elts):
        return [e.value for e in n.elts]
    return None


def eq_chain(test, var_src):
    """`X == "A" or X == "B" ...` -> ["A", "B", ...]"""
    vals = test.values if isinstance(test, ast.BoolOp) and isinstance(test.op, ast.Or) else [test]
    out = []
    for v in vals:
        if not (isinstance(v, ast.Compare) and len(v.ops) == 1 and isinstance(v.ops[0], ast.Eq) and same(v.left, var_src, "expr")
                and isinstance(v.comparators[0], ast.Constant) and isinstance(v.comparators[0].value, str)):
            return None
        out.append(v.comparators[0].value)
    return out


# ------------------------------------------------------------------------------------------------ Scope.outer / get_outer
def tr_leave(repo, meth):
    fn = find_method(find_class(parse(repo, "norminette/scope.py"), "Scope"), meth)
    if [a.arg for a in fn.args.args] != ["self"]:
        fail(fn, "signature of Scope.%s" % meth)
    body = strip_doc(fn.body)
    adds = False
    for k, st in enumerate(body):
        if isinstance(st, ast.If) and same(st.test, "self.parent is not None", "expr") and not st.orelse and len(st.body) == 1 \
                and same(st.body[0], "self.parent.lines += self.lines") and not adds:
            adds = True
        elif isinstance(st, ast.Return) and st.value is not None and same(st.value, "self.parent", "expr") and k == len(body) - 1:
            pass
        else:
            fail(st, "statement of Scope.%s" % meth)
    if not body or not isinstance(body[-1], ast.Return):
        fail(fn, "Scope.%s does not end in `return self.parent`" % meth)
    name = "scope_" + meth
    return "Definition %s (self parent : sc) : sc := %s.\n" % (name, "add_lines parent (s_lines self)" if adds else "parent")


# ------------------------------------------------------------------------------------------------ Context.update
def tr_update(repo):
    fn = find_method(find_class(parse(repo, "norminette/context.py"), "Context"), "update")
    if [a.arg for a in fn.args.args] != ["self"]:
        fail(fn, "signature of Context.update")
    body = strip_doc(fn.body)
    out = []
    skipped = None
    stage = 0
    for st in body:
        # 1. if len(self.history) > 0 and (self.history[-1] == A or ...): return
        if stage == 0 and isinstance(st, ast.If) and not st.orelse and len(st.body) == 1 and isinstance(st.body[0], ast.Return) \
                and st.body[0].value is None and isinstance(st.test, ast.BoolOp) and isinstance(st.test.op, ast.And) \
                and len(st.test.values) == 2 and same(st.test.values[0], "len(self.history) > 0", "expr"):
            skipped = eq_chain(st.test.values[1], "self.history[-1]")
            if not skipped:
                fail(st, "skip test of Context.update")
            out.append("  if (match hist with h :: _ => str_in h update_skipped | [] => false end) then Some (chain, sub) else")
            stage = 1
        # 2. if self.sub is not None: self.scope = self.sub; self.sub = None
        elif stage <= 1 and isinstance(st, ast.If) and not st.orelse and same(st.test, "self.sub is not None", "expr") \
                and len(st.body) == 2 and same(st.body[0], "self.scope = self.sub") and same(st.body[1], "self.sub = None"):
            out.append("  let '(chain, sub) := match sub with Some r => (apply_sub chain r, None) | None => (chain, sub) end in")
            stage = 2
        # 3. if type(self.scope) is ControlStructure and ... multiline is False and ... instructions > 0: pop, recurse
        elif stage <= 2 and isinstance(st, ast.If) and not st.orelse and isinstance(st.test, ast.BoolOp) and isinstance(st.test.op, ast.And) \
                and len(st.test.values) == 3 and same(st.test.values[0], "type(self.scope) is ControlStructure", "expr") \
                and same(st.test.values[1], "self.scope.multiline is False", "expr") \
                and same(st.test.values[2], "self.scope.instructions > 0", "expr") and len(st.body) == 3 \
                and same(st.body[1], "self.sub = None") and same(st.body[2], "self.update()"):
            a = st.body[0]
            meth = None
            for m in ("outer", "get_outer"):
                if same(a, "self.scope = self.scope.%s()" % m):
                    meth = m
            if meth is None:
                fail(a, "how Context.update leaves a one-instruction control structure")
            out.append("  match chain with\n"
                       "  | h :: p :: r =>\n"
                       "      if is_class \"ControlStructure\" h && negb (s_multi h) && (s_instr h >? 0)\n"
                       "      then ctx_update f hist (scope_%s h p :: r) None\n"
                       "      else Some (chain, sub)\n"
                       "  | [h] => if is_class \"ControlStructure\" h && negb (s_multi h) && (s_instr h >? 0) then None else Some (chain, sub)\n"
                       "  | [] => None\n"
                       "  end" % meth)
            stage = 3
        elif stage == 3 and same(st, "self.arg_pos = [0, 0]"):
            pass
        else:
            fail(st, "statement of Context.update (stage %d)" % stage)
    if stage != 3 or skipped is None:
        fail(fn, "Context.update: expected the skip test, `scope = sub` and the recursive pop")
    text = "Definition update_skipped : list str := %s.\n" % strlist(skipped)
    text += ("(* None: the code would dereference a missing parent, or the fuel (chain length + 1 suffices) ran out *)\n"
             "Fixpoint ctx_update (fuel : nat) (hist : list str) (chain : list sc) (sub : option subref) {struct fuel}\n"
             "  : option (list sc * option subref) :=\n  match fuel with\n  | O => None\n  | S f =>\n" + "\n".join("  " + l for l in out) + "\n  end.\n")
    return text


def tr_parent_rule(repo):
    fn = find_method(find_class(parse(repo, "norminette/context.py"), "Context"), "get_parent_rule")
    body = strip_doc(fn.body)
    if not (len(body) == 2 and same(body[0], "if len(self.history) == 0:\n    return ''")
            and same(body[1], "return self.history[-1 if len(self.history) == 1 else -2]")):
        fail(fn, "Context.get_parent_rule")
    return ("(* history newest first: \"\" when empty, the only entry, else the entry before the newest *)\n"
            "Definition parent_rule (hist : list str) : str :=\n  match hist with [] => [] | [a] => a | _ :: b :: _ => b end.\n")


# ------------------------------------------------------------------------------------------------ CheckLineCount.run
def effect_free(stmts):
    """only if / return / pass, no calls except context.get_parent_rule(), no assignments"""
    for st in stmts:
        for n in ast.walk(st):
            if isinstance(n, (ast.Assign, ast.AugAssign, ast.AnnAssign, ast.Delete, ast.For, ast.While, ast.With, ast.Raise, ast.Try, ast.Yield)):
                return False
            if isinstance(n, ast.Call) and not same(n, "context.get_parent_rule()", "expr") and not same(n, "type(context.scope)", "expr"):
                return False
    return True


def tr_line_count(repo):
    tree = parse(repo, "norminette/rules/check_line_count.py")
    fn = find_method(find_class(tree, "CheckLineCount"), "run")
    body = strip_doc(fn.body)
    if len(body) < 3:
        fail(fn, "CheckLineCount.run")
    # for t in context.tokens[: context.tkn_scope]: if t.type == A or t.type == B: context.scope.lines += 1
    f = body[0]
    ok = isinstance(f, ast.For) and not f.orelse and same(f.target, "t", "expr") and same(f.iter, "context.tokens[:context.tkn_scope]", "expr") \
        and len(f.body) == 1 and isinstance(f.body[0], ast.If) and not f.body[0].orelse and len(f.body[0].body) == 1 \
        and same(f.body[0].body[0], "context.scope.lines += 1")
    types = eq_chain(f.body[0].test, "t.type") if ok else None
    if not types:
        fail(f, "counting loop of CheckLineCount.run")
    # if type(context.scope) is GlobalScope: [if parent == S and lines > N: new_error(CODE, ..)] return
    g = body[1]
    if not (isinstance(g, ast.If) and not g.orelse and same(g.test, "type(context.scope) is GlobalScope", "expr") and len(g.body) == 2
            and isinstance(g.body[1], ast.Return)):
        fail(g, "global-scope branch of CheckLineCount.run")
    e = g.body[0]
    if not (isinstance(e, ast.If) and not e.orelse and len(e.body) == 1 and isinstance(e.test, ast.BoolOp) and isinstance(e.test.op, ast.And)
            and len(e.test.values) == 2):
        fail(e, "emission test of CheckLineCount.run")
    a, b = e.test.values
    if not (isinstance(a, ast.Compare) and len(a.ops) == 1 and isinstance(a.ops[0], ast.Eq) and same(a.left, "context.get_parent_rule()", "expr")
            and isinstance(a.comparators[0], ast.Constant) and isinstance(a.comparators[0].value, str)):
        fail(a, "parent-rule test of CheckLineCount.run")
    if not (isinstance(b, ast.Compare) and len(b.ops) == 1 and isinstance(b.ops[0], ast.Gt) and same(b.left, "context.scope.lines", "expr")
            and isinstance(b.comparators[0], ast.Constant) and type(b.comparators[0].value) is int):
        fail(b, "limit test of CheckLineCount.run")
    call = e.body[0]
    if not (isinstance(call, ast.Expr) and isinstance(call.value, ast.Call) and same(call.value.func, "context.new_error", "expr")
            and len(call.value.args) == 2 and isinstance(call.value.args[0], ast.Constant)):
        fail(call, "emission of CheckLineCount.run")
    code = call.value.args[0].value
    # the rest: no effect
    rest = body[2:]
    if not effect_free(rest) or not isinstance(rest[-1], ast.Return):
        fail(rest[0], "CheckLineCount.run: an effect after the global-scope branch")
    imp = any(isinstance(n, ast.ImportFrom) and n.module in ("norminette.context", "norminette.scope") and any(x.name == "GlobalScope" for x in n.names)
              for n in tree.body)
    if not imp:
        fail(tree, "GlobalScope is not the scope class")
    return ("Definition line_count_types : list str := %s.\n"
            "Definition line_count_limit : Z := %d.\n"
            "(* nl = number of tokens of the statement whose type is in line_count_types; -> (scope.lines afterwards, codes emitted) *)\n"
            "Definition line_count_run (glob : bool) (parent : str) (lines nl : Z) : Z * list str :=\n"
            "  let lines := lines + nl in\n"
            "  if glob then (if str_eqb parent %s && (lines >? %d) then (lines, [%s]) else (lines, []))\n"
            "  else (lines, []).\n" % (strlist(types), b.comparators[0].value, cstr(a.comparators[0].value), b.comparators[0].value, cstr(code)))


# ------------------------------------------------------------------------------------------------ CheckBrace.run
def tr_brace(repo):
    fn = find_method(find_class(parse(repo, "norminette/rules/check_brace.py"), "CheckBrace"), "run")
    body = strip_doc(fn.body)
    if len(body) < 2 or not isinstance(body[-1], ast.Return):
        fail(fn, "CheckBrace.run")
    t = body[-2]
    ok = isinstance(t, ast.If) and not t.orelse and len(t.body) == 1 and isinstance(t.test, ast.BoolOp) and isinstance(t.test.op, ast.And) \
        and len(t.test.values) == 2
    if not ok:
        fail(t, "line test of CheckBrace.run")
    a, b = t.test.values
    if not (isinstance(a, ast.Compare) and len(a.ops) == 1 and isinstance(a.ops[0], ast.Eq) and same(a.left, "context.scope.name", "expr")
            and isinstance(a.comparators[0], ast.Constant) and isinstance(a.comparators[0].value, str)):
        fail(a, "scope test of CheckBrace.run")
    if not (isinstance(b, ast.Compare) and len(b.ops) == 1 and isinstance(b.ops[0], ast.Gt) and same(b.left, "context.scope.lines", "expr")
            and isinstance(b.comparators[0], ast.Constant) and type(b.comparators[0].value) is int):
        fail(b, "limit test of CheckBrace.run")
    call = t.body[0]
    if not (isinstance(call, ast.Expr) and isinstance(call.value, ast.Call) and same(call.value.func, "context.new_error", "expr")
            and len(call.value.args) == 2 and isinstance(call.value.args[0], ast.Constant) and same(call.value.args[1], "context.peek_token(0)", "expr")):
        fail(call, "emission of CheckBrace.run")
    # every earlier return with the tests that guard it; no write to the scope before the test
    guards = []

    def walk(stmts, conds):
        for st in stmts:
            if st is t or st is body[-1]:
                continue
            if isinstance(st, ast.Return):
                guards.append(list(conds))
            elif isinstance(st, ast.If):
                walk(st.body, conds + [ast.unparse(st.test)])
                walk(st.orelse, conds + ["not (" + ast.unparse(st.test) + ")"])
            elif isinstance(st, (ast.For, ast.While, ast.With, ast.Try)):
                fail(st, "loop in CheckBrace.run")
            else:
                for n in ast.walk(st):
                    if isinstance(n, ast.Attribute) and n.attr in ("lines", "scope", "sub", "instructions", "multiline") and isinstance(n.ctx, ast.Store):
                        fail(st, "CheckBrace.run writes the scope")
    walk(body, [])
    return ("Definition brace_limit : Z := %d.\n"
            "Definition brace_line_test (name : str) (lines : Z) : list str :=\n"
            "  if str_eqb name %s && (lines >? %d) then [%s] else [].\n"
            "(* the tests guarding every `return` that comes before the line test *)\n"
            "Definition brace_return_guards : list (list string) :=\n  [%s].\n" % (
                b.comparators[0].value, cstr(a.comparators[0].value), b.comparators[0].value, cstr(call.value.args[0].value),
                ";\n   ".join("[" + "; ".join(lit(c) for c in g) + "]" for g in guards)))


# ------------------------------------------------------------------------------------------------ IsBlockStart / IsBlockEnd
def scope_writes(node):
    out = []
    for n in ast.walk(node):
        if isinstance(n, (ast.Assign, ast.AugAssign)):
            tg = n.targets[0] if isinstance(n, ast.Assign) else n.target
            u = ast.unparse(tg)
            if "." not in u:
                continue
            if any(u == p or u.startswith(p + ".") for p in ("context.scope", "context.sub", "self.scope", "self.sub", "context.tmp_scope")) \
                    or u.split(".")[-1] in ("lines", "instructions", "multiline", "tmp_scope"):
                out.append(n)
    return out


def tr_block_start(repo):
    fn = find_method(find_class(parse(repo, "norminette/rules/is_block_start.py"), "IsBlockStart"), "run")
    body = strip_doc(fn.body)
    loop = None
    for k, st in enumerate(body):
        if isinstance(st, ast.For):
            if loop is not None:
                fail(st, "second loop in IsBlockStart.run")
            loop = (k, st)
    if loop is None or loop[0] == 0 or not same(body[loop[0] - 1], "lines = context.scope.lines"):
        fail(fn, "IsBlockStart.run: `lines = context.scope.lines` followed by the history loop")
    k, f = loop
    # before the loop: only the LBRACE test may return, nothing writes the scope
    for st in body[:k - 1]:
        if scope_writes(st):
            fail(st, "scope write before the history loop of IsBlockStart.run")
        if isinstance(st, ast.If) and not (same(st.test, "context.check_token(i, 'LBRACE') is False", "expr") and len(st.body) == 1
                                           and same(st.body[0], "return False, 0")):
            fail(st, "test before the history loop of IsBlockStart.run")
    for st in body[k + 1:]:
        if scope_writes(st):
            fail(st, "scope write after the history loop of IsBlockStart.run")
    if not (same(f.target, "item", "expr") and same(f.iter, "reversed(context.history)", "expr") and not f.orelse and len(f.body) == 3):
        fail(f, "history loop of IsBlockStart.run")
    s1, s2, s3 = f.body
    skip = eq_chain(s1.test, "item") if isinstance(s1, ast.If) and not s1.orelse and len(s1.body) == 2 and same(s1.body[0], "lines -= 1") \
        and isinstance(s1.body[1], ast.Continue) else None
    if not skip:
        fail(s1, "skip branch of the history loop")
    if not isinstance(s3, ast.Break):
        fail(s3, "the history loop must end in break")
    # if item not in L or (item in L and lines >= N): scope = {..}.get(item, D); sub = inner(scope); sub.multiline = True; break  else: scope.multiline = True
    t = s2.test if isinstance(s2, ast.If) else None
    ok = t is not None and isinstance(t, ast.BoolOp) and isinstance(t.op, ast.Or) and len(t.values) == 2
    if ok:
        a, b = t.values
        L = const_strs(a.comparators[0]) if isinstance(a, ast.Compare) and len(a.ops) == 1 and isinstance(a.ops[0], ast.NotIn) and same(a.left, "item", "expr") else None
        ok = bool(L) and isinstance(b, ast.BoolOp) and isinstance(b.op, ast.And) and len(b.values) == 2
        if ok:
            b1, b2 = b.values
            L2 = const_strs(b1.comparators[0]) if isinstance(b1, ast.Compare) and len(b1.ops) == 1 and isinstance(b1.ops[0], ast.In) and same(b1.left, "item", "expr") else None
            ok = L2 == L and isinstance(b2, ast.Compare) and len(b2.ops) == 1 and isinstance(b2.ops[0], ast.GtE) and same(b2.left, "lines", "expr") \
                and isinstance(b2.comparators[0], ast.Constant) and type(b2.comparators[0].value) is int
    if not ok:
        fail(s2, "decision of the history loop")
    thr = b2.comparators[0].value
    if not (len(s2.body) == 4 and same(s2.body[1], "context.sub = context.scope.inner(scope)") and same(s2.body[2], "context.sub.multiline = True")
            and isinstance(s2.body[3], ast.Break) and len(s2.orelse) == 1 and same(s2.orelse[0], "context.scope.multiline = True")):
        fail(s2, "effects of the history loop")
    d = s2.body[0]
    if not (isinstance(d, ast.Assign) and same(d.targets[0], "scope", "expr") and isinstance(d.value, ast.Call) and isinstance(d.value.func, ast.Attribute)
            and d.value.func.attr == "get" and isinstance(d.value.func.value, ast.Dict) and len(d.value.args) == 2 and same(d.value.args[0], "item", "expr")
            and isinstance(d.value.args[1], ast.Name)):
        fail(d, "class table of the history loop")
    dd = d.value.func.value
    if not all(isinstance(kk, ast.Constant) and isinstance(kk.value, str) and isinstance(vv, ast.Name) for kk, vv in zip(dd.keys, dd.values)):
        fail(d, "class table of the history loop")
    table = [(kk.value, vv.id) for kk, vv in zip(dd.keys, dd.values)]
    default = d.value.args[1].id
    return ("Definition block_start_skipped : list str := %s.\n"
            "Definition block_start_openers : list str := %s.\n"
            "Definition block_start_classes : list (str * str) := [%s].\n"
            "Definition block_start_default : str := %s.\n"
            "(* hist: newest first, WITHOUT the `{` statement itself; lines = context.scope.lines *)\n"
            "Fixpoint block_start_scan (hist : list str) (lines : Z) : bs_effect :=\n"
            "  match hist with\n  | [] => BsNone\n  | item :: r =>\n"
            "      if str_in item block_start_skipped then block_start_scan r (lines - 1)\n"
            "      else if negb (str_in item block_start_openers) || (str_in item block_start_openers && (lines >=? %d))\n"
            "           then BsNew (match assoc item block_start_classes with Some c => c | None => block_start_default end)\n"
            "           else BsMark\n  end.\n" % (strlist(skip), strlist(L), "; ".join("(%s, %s)" % (cstr(a), cstr(b)) for a, b in table), cstr(default), thr))


def tr_block_end(repo):
    fn = find_method(find_class(parse(repo, "norminette/rules/is_block_end.py"), "IsBlockEnd"), "run")
    body = strip_doc(fn.body)
    if not (len(body) > 3 and same(body[0], "i = context.skip_ws(0)") and same(body[1], "if context.check_token(i, 'RBRACE') is False:\n    return False, 0")):
        fail(fn, "start of IsBlockEnd.run")
    e = body[2]
    meth = None
    if isinstance(e, ast.If) and same(e.test, "type(context.scope) != ControlStructure", "expr") and len(e.body) == 1 and len(e.orelse) == 1 \
            and same(e.orelse[0], "context.scope.multiline = False"):
        for m in ("outer", "get_outer"):
            if same(e.body[0], "context.sub = context.scope.%s()" % m):
                meth = m
    if meth is None:
        fail(e, "scope effect of IsBlockEnd.run")
    for st in body[3:]:
        if scope_writes(st):
            fail(st, "second scope write in IsBlockEnd.run")
    return ("Definition block_end_effect (is_control : bool) : be_effect :=\n  if negb is_control then BeSub scope_%s else BeUnmark.\n" % meth)


# ------------------------------------------------------------------------------------------------ inner() sites, inits, the write table
INNER_RULES = [("IsFuncDeclaration", "norminette/rules/is_func_declaration.py"), ("IsControlStatement", "norminette/rules/is_control_statement.py"),
               ("IsUserDefinedType", "norminette/rules/is_user_defined_type.py")]


def tr_inner_sites(repo):
    rows = []
    for cls, rel in INNER_RULES:
        c = find_class(parse(repo, rel), cls)
        for fn in c.body:
            if not isinstance(fn, ast.FunctionDef):
                continue
            for n in ast.walk(fn):
                blocks = [getattr(n, a) for a in ("body", "orelse", "finalbody") if isinstance(getattr(n, a, None), list)]
                for blk in blocks:
                    for k, st in enumerate(blk):
                        if isinstance(st, ast.Assign) and same(st.targets[0], "context.sub", "expr"):
                            v = st.value
                            if not (isinstance(v, ast.Call) and same(v.func, "context.scope.inner", "expr") and len(v.args) == 1 and isinstance(v.args[0], ast.Name)):
                                fail(st, "context.sub assigned something else than context.scope.inner(Class) in %s" % cls)
                            if fn.name != "run":
                                fail(st, "context.sub assigned outside run in %s" % cls)
                            multi = "None"
                            if k + 1 < len(blk) and isinstance(blk[k + 1], ast.Assign) and same(blk[k + 1].targets[0], "context.sub.multiline", "expr") \
                                    and isinstance(blk[k + 1].value, ast.Constant) and isinstance(blk[k + 1].value.value, bool):
                                multi = "Some %s" % ("true" if blk[k + 1].value.value else "false")
                            rows.append((cls, v.args[0].id, multi))
    return "Definition inner_sites : list (str * str * option bool) :=\n  [%s].\n" % ";\n   ".join(
        "(%s, %s, %s)" % (cstr(a), cstr(b), m) for a, b, m in rows)


def tr_init(repo):
    tree = parse(repo, "norminette/scope.py")
    init = find_method(find_class(tree, "Scope"), "__init__")
    want = {"self.lines = 0": False, "self.instructions = 0": False, "self.multiline = False": False}
    for st in init.body:
        for w in want:
            if same(st, w):
                want[w] = True
    if not all(want.values()):
        fail(init, "Scope.__init__ does not start a scope with lines = 0, instructions = 0, multiline = False")
    # subclasses: __init__ must call super().__init__(parent) and may only set multiline from a default-False parameter
    rows = []
    for c in tree.body:
        if isinstance(c, ast.ClassDef) and c.name != "Scope":
            ini = [f for f in c.body if isinstance(f, ast.FunctionDef) and f.name == "__init__"]
            multi = "default"
            for f in ini:
                for st in f.body:
                    for n in ast.walk(st):
                        if isinstance(n, ast.Attribute) and isinstance(n.ctx, ast.Store) and n.attr in ("lines", "instructions"):
                            fail(st, "%s.__init__ writes %s" % (c.name, n.attr))
                    if isinstance(st, ast.Assign) and same(st.targets[0], "self.multiline", "expr"):
                        dflt = dict(zip([a.arg for a in f.args.args][-len(f.args.defaults):], f.args.defaults)) if f.args.defaults else {}
                        if not (isinstance(st.value, ast.Name) and st.value.id in dflt and isinstance(dflt[st.value.id], ast.Constant) and dflt[st.value.id].value is False):
                            fail(st, "%s.__init__ sets multiline" % c.name)
                        multi = "param-default-False"
            rows.append((c.name, multi))
    inner = find_method(find_class(tree, "Scope"), "inner")
    if not (len(strip_doc(inner.body)) == 1 and same(strip_doc(inner.body)[0], "return sub(self)")):
        fail(inner, "Scope.inner")
    rr = find_method(find_class(parse(repo, "norminette/registry.py"), "Registry"), "run_rules")
    return ("Definition new_scope (cls : str) (multi : bool) : sc := mksc cls 0 0 multi.\n"
            "Definition scope_classes : list string := [%s].\n"
            "Definition run_rules_fingerprint : string := %s.\n" % ("; ".join(lit(a) for a, _ in rows), lit(fingerprint(rr))))


def tr_write_sites(repo):
    files = sorted(glob.glob(os.path.join(repo, "norminette", "rules", "*.py"))) + [os.path.join(repo, "norminette", x) for x in ("context.py", "registry.py", "scope.py")]
    rows = []
    for p in files:
        rel = os.path.relpath(p, repo)
        with open(p) as f:
            tree = ast.parse(f.read(), filename=p)
        funcs = [(n.name, n) for n in ast.walk(tree) if isinstance(n, ast.FunctionDef)]
        for fname, fn in funcs:
            for n in ast.walk(fn):
                if isinstance(n, (ast.Assign, ast.AugAssign)):
                    if n in scope_writes(n):
                        rows.append("%s:%s: %s" % (rel, fname, ast.unparse(n)))
                elif isinstance(n, ast.Call) and isinstance(n.func, ast.Attribute) and n.func.attr in ("outer", "inner", "get_outer") \
                        and not any(isinstance(pn, (ast.Assign, ast.AugAssign)) and n in ast.walk(pn) and pn in scope_writes(pn) for pn in ast.walk(fn)):
                    rows.append("%s:%s: call %s" % (rel, fname, ast.unparse(n)))
    rows = [r for r in rows if not r.startswith("norminette/scope.py:__init__")]
    return "Definition scope_write_sites : list string :=\n  [%s].\n" % ";\n   ".join(lit(r.replace('"', "'")) for r in rows)


def gen_scopeops(repo, L):
    out = ["From NV Require Import Model.Base Model.ScopeBase.\n",
           "(* the scope bookkeeping of the source, by tools/translate_scope.py *)\n\n",
           "(* Scope.outer / Scope.get_outer: the parent after the call *)\n", tr_leave(repo, "outer"), tr_leave(repo, "get_outer"),
           "\n(* Context.update: state = (scope chain, context.sub) *)\n", tr_update(repo),
           "\n(* Context.get_parent_rule *)\n", tr_parent_rule(repo),
           "\n(* CheckLineCount.run *)\n", tr_line_count(repo),
           "\n(* CheckBrace.run: the line test (it is the last statement before the final return) *)\n", tr_brace(repo),
           "\n(* IsBlockStart.run: the scan of the history that decides what `{` opens *)\n", tr_block_start(repo),
           "\n(* IsBlockEnd.run on `}` *)\n", tr_block_end(repo),
           "\n(* every `context.sub = context.scope.inner(C)` of the three primaries that open a scope: (rule, class, multiline set next) *)\n",
           tr_inner_sites(repo),
           "\n(* Scope.__init__ / Scope.inner / Registry.run_rules *)\n", tr_init(repo),
           "\n(* every syntactic write of the scope state and every outer()/inner()/get_outer() call that is not part of one *)\n",
           tr_write_sites(repo)]
    return "".join(out)


GENERATORS = {"ScopeOps": gen_scopeops}


if __name__ == "__main__":
    import sys
    print(gen_scopeops(sys.argv[1] if len(sys.argv) > 1 else "/repo", {}))
