#!/bin/sh
# tools/coqchk_all.sh [ids...]: re-check the compiled property files with the independent checker (coqchk -o) and print
# one summary line each (the thorough tier of every check does the same for its own property).
cd "$(dirname "$0")/.."
IDS="${@:-C01 C02 C03 C04 C05 C06 C07 C08 C09 C10 C11 C12 C13 C14 C15 C16 C17 C18 C19}"
for p in $IDS; do
  PYTHONPATH=/repo:tools/harness /venv/bin/python -c "
import sys, common
r = common.coqchk('$p')
print(('OK   ' if r['ok'] else 'FAIL ') + r['summary'][:300])
"
done
