#!/bin/sh
# build the extracted-model driver: build/nvdriver
set -e
cd "$(dirname "$0")/.."
mkdir -p build/ml
cp ml/*.ml build/ml/
cd build/ml
# the unused-* warnings come from extracted code
ocamlfind ocamlopt -O2 -w -a -o ../nvdriver nvmodel.mli nvmodel.ml drv_base.ml $(ls drv_*.ml | grep -v 'drv_base.ml\|drv_main.ml' | sort) drv_main.ml 2>&1 | grep -v "options -O" || true
test -x ../nvdriver
