"""Gen/LineLen.v: structural fingerprints of the checks behind the numeric limits of C03, so that the hand-written
models (Spec/Width.v: line_len_check, block_comment_check, line_comment_check) are pinned to the code they were
written from: any structural edit of these methods changes the fingerprint and breaks `C03_source_tie`
(fail closed; the boundary search then looks for a failing input).  The numeric constants themselves are in
Gen/Limits.v and are NOT part of the fingerprint (they are read by the models)."""
import ast
import hashlib
import os


def fingerprint(repo, rel, cls, meth):
    with open(os.path.join(repo, rel)) as f:
        tree = ast.parse(f.read())
    for n in ast.walk(tree):
        if isinstance(n, ast.ClassDef) and n.name == cls:
            for m in n.body:
                if isinstance(m, ast.FunctionDef) and m.name == meth:
                    body = [x for x in m.body if not (isinstance(x, ast.Expr) and isinstance(getattr(x, "value", None), ast.Constant)
                                                      and isinstance(x.value.value, str))]     # drop the docstring
                    mod = ast.Module(body=body, type_ignores=[])
                    # integer constants >= 2 are replaced by a placeholder: they are the limits, generated separately
                    for c in ast.walk(mod):
                        if isinstance(c, ast.Constant) and isinstance(c.value, int) and not isinstance(c.value, bool) and c.value >= 2:
                            c.value = 0
                    return hashlib.sha256(ast.dump(mod, annotate_fields=True, include_attributes=False).encode()).hexdigest()
    raise KeyError("%s: %s.%s not found" % (rel, cls, meth))


SITES = [("norminette/rules/check_line_len.py", "CheckLineLen", "run"),
         ("norminette/rules/check_comment_line_len.py", "CheckCommentLineLen", "run"),
         ("norminette/rules/check_line_count.py", "CheckLineCount", "run"),
         ("norminette/rules/check_functions_count.py", "CheckFunctionsCount", "run")]


def gen(repo, L):
    o = "From Coq Require Import String List.\nImport ListNotations.\n\n"
    o += "(* (file, class.method, sha256 of the docstring-free, limit-free AST) *)\n"
    o += "Definition limit_check_fingerprints : list (string * string * string) :=\n  [%s].\n" % ";\n   ".join(
        '("%s"%%string, "%s.%s"%%string, "%s"%%string)' % (rel, cls, meth, fingerprint(repo, rel, cls, meth)) for rel, cls, meth in SITES)
    return o


GENERATORS = {"LineLen": gen}
