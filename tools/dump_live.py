"""Run with PYTHONPATH=<repo>: dump the live data-like objects of norminette as JSON on stdout.
Used by translate.py (tables of the model) - the values are what the code computes now."""
import json
import sys
import re
import re._parser as P


def main():
    import norminette.lexer.lexer as L
    import norminette.lexer.dictionary as D
    import norminette.norm_error as NE
    import norminette.colors as C
    from norminette.rules import Rules, Primary, Check
    import norminette.context as CX

    out = {}
    out["keywords"] = list(D.keywords.items())
    out["operators"] = list(D.operators.items())
    out["brackets"] = list(D.brackets.items())
    out["digraphs"] = list(D.digraphs.items())
    out["trigraphs"] = list(D.trigraphs.items())
    out["quote_prefixes"] = list(L.quote_prefixes)
    out["octal_digits"] = L.octal_digits
    out["hexadecimal_digits"] = L.hexadecimal_digits
    out["integer_suffixes"] = list(L.integer_suffixes)
    out["float_suffixes"] = list(L.float_suffixes)
    out["parsers"] = [f.__name__ for f in L.Lexer.parsers]
    pats = {}
    for nm in ("INT_LITERAL_PATTERN", "FLOAT_EXPONENT_LITERAL_PATTERN", "FLOAT_FRACTIONAL_LITERAL_PATTERN",
               "FLOAT_HEXADECIMAL_LITERAL_PATTERN"):
        pat = getattr(L, nm)
        pats[nm] = {"tree": str(P.parse(pat.pattern, pat.flags)), "flags": pat.flags,
                    "groups": sorted(pat.groupindex.items(), key=lambda kv: kv[1])}
    out["patterns"] = pats
    out["errors"] = list(NE.errors.items())
    out["colors"] = [(k, sorted(v)) for k, v in C._color_table.items()]
    r = Rules()
    prim = []
    for p in Primary.__subclasses__():
        prim.append({"name": p.__name__, "priority": p.priority,
                     "scope": [getattr(x, "__name__", str(x)) for x in p.scope]})
    chk = []
    for c in Check.__subclasses__():
        chk.append({"name": c.__name__, "depends_on": list(c.depends_on), "start": bool(c.runs_on_start),
                    "rule": bool(c.runs_on_rule), "end": bool(c.runs_on_end)})
    out["primaries"] = sorted(prim, key=lambda d: d["name"])
    out["checks"] = sorted(chk, key=lambda d: d["name"])
    out["live_primaries_order"] = [p.__name__ for p in r.primaries]
    from norminette.registry import Registry
    reg = Registry()
    out["live_dependencies"] = {k: [c.__name__ for c in v] for k, v in reg.dependencies.items()}
    lists = {}
    for nm in ("types", "utypes", "glued_operators", "operators", "misc_specifiers", "assigns", "size_specifiers",
               "sign_specifiers", "whitespaces", "arg_separator"):
        lists[nm] = list(getattr(CX, nm))
    out["context_lists"] = lists
    json.dump(out, sys.stdout)


if __name__ == "__main__":
    main()
